"""
Shared machinery of every check (see DESIGN.md sections 1, 2, 5):
  * Lean side: `lake build` of the property's theorems + driver, axiom audit, forbidden-token grep
  * correspondence: real evo code (in-process) vs. the compiled Lean model (`evodrv`, line protocol)
  * failing-input search: a property oracle evaluated on the real code's output for every case
  * verdict protocol, known findings, evidence and replay files
Stdlib only; runs under /venv/bin/python so that evo's dependencies are importable.
"""
import fractions
import hashlib
import json
import os
import random
import re
import subprocess
import sys
import tempfile
import time
from pathlib import Path

VERIF = Path(__file__).resolve().parent.parent
LEAN = VERIF / "lean"
REPO = Path(os.environ.get("EVO_REPO", "/repo"))
BIN = LEAN / ".lake" / "build" / "bin"
STD_AXIOMS = {"propext", "Classical.choice", "Quot.sound"}
FORBIDDEN = re.compile(r"\b(sorry|admit|native_decide|bv_decide|implemented_by)\b|^\s*axiom\s|unsafe\s|maxHeartbeats\s+0")

Fraction = fractions.Fraction


# ----------------------------------------------------------------------------- environment
def isolate_home():
    """evo reads/creates ~/.evo at import time: give it a private HOME before importing."""
    d = tempfile.mkdtemp(prefix="evo_verif_home_")
    os.environ["HOME"] = d
    os.environ["MPLBACKEND"] = "Agg"
    os.environ.pop("DISPLAY", None)
    if str(REPO) not in sys.path:
        sys.path.insert(0, str(REPO))
    return d


# ----------------------------------------------------------------------------- exact numbers
def rat(x) -> str:
    """exact rational text of a float / int / Fraction for the driver"""
    if isinstance(x, Fraction):
        f = x
    elif isinstance(x, int):
        return str(x)
    else:
        n, d = float(x).as_integer_ratio()
        f = Fraction(n, d)
    return str(f.numerator) if f.denominator == 1 else f"{f.numerator}/{f.denominator}"


def frac(x) -> Fraction:
    if isinstance(x, Fraction):
        return x
    if isinstance(x, int):
        return Fraction(x)
    n, d = float(x).as_integer_ratio()
    return Fraction(n, d)


def parse_rat(s: str) -> Fraction:
    if "/" in s:
        a, b = s.split("/")
        return Fraction(int(a), int(b))
    return Fraction(int(s))


def ratlist(xs) -> str:
    xs = list(xs)
    return " ".join([str(len(xs))] + [rat(x) for x in xs])


def natlist(xs) -> str:
    xs = list(xs)
    return " ".join([str(len(xs))] + [str(int(x)) for x in xs])


def hexs(s: str) -> str:
    return s.encode("utf-8").hex() or "-"


# ----------------------------------------------------------------------------- driver
def run_driver(lines, prop=None):
    """one batch: all lines in, all lines out (order preserved); the driver of property `prop`
    (default: taken from the first token of the first line)"""
    if not lines:
        return []
    prop = prop or lines[0].split(" ", 1)[0]
    p = subprocess.run([str(BIN / f"drv_{prop}")], input="\n".join(lines) + "\n", capture_output=True, text=True)
    if p.returncode != 0:
        raise ToolError(f"driver exited with {p.returncode}: {p.stderr[:500]}")
    outs = p.stdout.split("\n")
    if outs and outs[-1] == "":
        outs.pop()
    if len(outs) != len(lines):
        raise ToolError(f"driver returned {len(outs)} lines for {len(lines)} requests")
    return outs


class ToolError(Exception):
    pass


# ----------------------------------------------------------------------------- Lean side
def sh(cmd, cwd=None, timeout=3000):
    return subprocess.run(cmd, cwd=cwd, shell=True, capture_output=True, text=True, timeout=timeout)


def theorems_of(prop):
    """names of the property theorems (Props/Cnn.lean), fully qualified"""
    f = LEAN / "EvoModel" / "Props" / f"{prop}.lean"
    names, ns, lines = [], [], f.read_text().split("\n")
    for i, line in enumerate(lines):
        m = re.match(r"\s*namespace\s+(\S+)", line)
        if m:
            ns.append(m.group(1))
        m = re.match(r"\s*end\s+(\S+)", line)
        if m and ns and ns[-1] == m.group(1):
            ns.pop()
        m = re.match(r"\s*(?:private\s+|protected\s+)?theorem\s+([^\s:({\[]+)", line)
        if m:
            names.append((".".join(ns + [m.group(1)]), i + 1))
    return names


def strip_comments(text):
    text = re.sub(r"/-.*?-/", lambda m: "\n" * m.group(0).count("\n"), text, flags=re.S)
    return re.sub(r"--.*", "", text)


def import_closure(roots):
    """project files transitively imported by the given module names (EvoModel.X.Y)"""
    seen, todo = {}, list(roots)
    while todo:
        m = todo.pop()
        if m in seen:
            continue
        f = LEAN / (m.replace(".", "/") + ".lean")
        if not f.exists():
            continue
        seen[m] = f
        for mm in re.findall(r"^\s*import\s+(EvoModel\.\S+)", f.read_text(), flags=re.M):
            todo.append(mm)
    return seen


def forbidden_tokens(prop=None):
    """sorry/admit/axiom/native_decide/… in the files the property's theorems and driver depend on"""
    if prop:
        files = sorted(import_closure([f"EvoModel.Props.{prop}", f"EvoModel.Drv.{prop}"]).values())
    else:
        files = sorted((LEAN / "EvoModel").rglob("*.lean"))
    hits = []
    for f in files:
        for i, line in enumerate(strip_comments(f.read_text()).split("\n")):
            if FORBIDDEN.search(line):
                hits.append(f"{f.relative_to(LEAN)}:{i+1}: {line.strip()[:80]}")
    return hits


def lean_side(prop, tier, pre_build=None):
    """Regenerate tables (pre_build), build theorems + driver, audit axioms.
    Returns dict(obligations, discharged, broken=[names], audit=…, cmds=[…])."""
    t0 = time.time()
    gen_notes = pre_build() if pre_build else None
    thms = theorems_of(prop)
    cmds = []
    res = {"obligations": len(thms), "discharged": 0, "broken": [], "gen": gen_notes,
           "theorems": [n for n, _ in thms]}
    cmd = f"lake build EvoModel.Props.{prop} drv_{prop}"
    cmds.append(f"cd lean && {cmd}")
    p = sh(cmd, cwd=LEAN)
    out = p.stdout + p.stderr
    if not (BIN / f"drv_{prop}").exists():
        raise ToolError("driver could not be built:\n" + out[-2000:])
    broken = set()
    if p.returncode != 0:
        # map error positions to theorems (of any file: a broken lemma breaks its users)
        for m in re.finditer(r"error: (\S+\.lean):(\d+):\d+", out):
            fpath, line = m.group(1), int(m.group(2))
            broken.add(enclosing_decl(LEAN / fpath, line))
        if not broken:
            broken.add("build:" + out[-300:].replace("\n", " "))
        res["broken"] = sorted(broken)
        res["build_log"] = out[-3000:]
        res["cmds"] = cmds
        res["lean_s"] = round(time.time() - t0, 1)
        return res
    # axiom audit
    audit = LEAN / "EvoModel" / "Audit" / f"{prop}.lean"
    audit.parent.mkdir(exist_ok=True)
    audit.write_text(f"import EvoModel.Props.{prop}\n" + "".join(f"#print axioms {n}\n" for n, _ in thms))
    cmd = f"lake env lean EvoModel/Audit/{prop}.lean"
    cmds.append(f"cd lean && {cmd}")
    p = sh(cmd, cwd=LEAN)
    if p.returncode != 0:
        raise ToolError("axiom audit failed to run:\n" + (p.stdout + p.stderr)[-2000:])
    text = re.sub(r"\s+", " ", p.stdout)
    ok, bad = 0, []
    for n, _ in thms:
        m = re.search(r"'" + re.escape(n) + r"' (does not depend on any axioms|depends on axioms: \[([^\]]*)\])", text)
        if not m:
            bad.append(f"{n}: no audit line")
            continue
        axs = set(a.strip() for a in (m.group(2) or "").split(",") if a.strip())
        if axs <= STD_AXIOMS:
            ok += 1
        else:
            bad.append(f"{n}: axioms {sorted(axs - STD_AXIOMS)}")
    hits = forbidden_tokens(prop)
    if hits:
        bad.append("forbidden tokens: " + "; ".join(hits[:5]))
    res["discharged"] = ok if not hits else 0
    res["broken"] = bad
    if tier == "thorough" and not bad:
        cmd = f"lake env leanchecker EvoModel.Props.{prop}"
        cmds.append(f"cd lean && {cmd}")
        p = sh(cmd, cwd=LEAN, timeout=3000)
        res["leanchecker"] = "ok" if p.returncode == 0 else (p.stdout + p.stderr)[-500:]
        if p.returncode != 0:
            res["broken"].append("leanchecker rejected the compiled theorems")
    res["cmds"] = cmds
    res["lean_s"] = round(time.time() - t0, 1)
    return res


def enclosing_decl(path, line):
    try:
        lines = path.read_text().split("\n")
    except OSError:
        return f"{path}:{line}"
    for i in range(min(line, len(lines)) - 1, -1, -1):
        m = re.match(r"\s*(?:private\s+|protected\s+)?(?:theorem|lemma|def|example|instance)\s*([^\s:({\[]*)", lines[i])
        if m:
            return f"{path.relative_to(LEAN)}:{m.group(1) or 'example'}@{i+1}"
    return f"{path}:{line}"


# ----------------------------------------------------------------------------- known findings
def load_known():
    f = VERIF / "known_findings.json"
    if not f.exists():
        return []
    return json.loads(f.read_text()).get("known", [])


def match_known(prop, tags, known):
    for k in known:
        if k["property"] != prop:
            continue
        if all(tags.get(a) == b for a, b in k["match"].items()):
            return k
    return None


# ----------------------------------------------------------------------------- run context
class Ctx:
    def __init__(self, prop, tier, seed):
        self.prop, self.tier, self.seed = prop, tier, seed
        self.rng = random.Random(f"{prop}/{seed}")
        self.extended = False
        self.t0 = time.time()
        self.evaluations = 0
        self.keys = set()            # distinct non-trivial case keys
        self.branches = {}           # model branch -> count
        self.dist = {}               # input distribution counters
        self.samples = []
        self.skipped = 0
        self.mismatches = []         # (case, description)
        self.failures = []           # (case, failure dict) from the oracle, not known
        self.known_seen = {}         # finding id -> (finding, count, example)
        self.notes = {}
        self.known = load_known()
        self.thorough = tier == "thorough"

    def count(self, table, key, n=1):
        t = self.dist if table == "dist" else self.branches
        t[key] = t.get(key, 0) + n

    def record(self, case, nontrivial=True, sample_every=0):
        self.evaluations += 1
        if nontrivial:
            self.keys.add(hashlib.sha1(json.dumps(case, sort_keys=True, default=str).encode()).hexdigest())
        if len(self.samples) < 3:
            self.samples.append(trim(case))

    def mismatch(self, case, what, impl=None, model=None):
        self.mismatches.append((case, {"what": what, "impl": impl, "model": model}))

    def fail(self, case, clause, detail, tags=None):
        tags = dict(tags or {})
        tags.setdefault("clause", clause)
        k = match_known(self.prop, tags, self.known)
        if k:
            e = self.known_seen.setdefault(k["id"], [k, 0, None])
            e[1] += 1
            if e[2] is None:
                e[2] = {"case": trim(case), "detail": detail}
        else:
            self.failures.append((case, {"clause": clause, "detail": detail, "tags": tags}))


def trim(x, n=40):
    """shorten long lists for samples in evidence"""
    if isinstance(x, dict):
        return {k: trim(v, n) for k, v in x.items()}
    if isinstance(x, (list, tuple)):
        if len(x) > n:
            return [trim(v, n) for v in x[:n]] + [f"… {len(x) - n} more"]
        return [trim(v, n) for v in x]
    if isinstance(x, Fraction):
        return str(x)
    return x


def write_replay(prop, kind, payload):
    d = VERIF / "evidence" / "replay"
    d.mkdir(parents=True, exist_ok=True)
    body = json.dumps({"property": prop, "kind": kind, **payload}, indent=1, sort_keys=True, default=str)
    h = hashlib.sha1(body.encode()).hexdigest()[:12]
    f = d / f"{prop}-{h}.json"
    f.write_text(body)
    return f


TRUSTED = [
    "Lean 4.33.0 kernel (theorems re-checked by leanchecker in the thorough tier)",
    "axioms of every property theorem ⊆ {propext, Classical.choice, Quot.sound} (audited by #print axioms each run); no sorry/admit/native_decide/own axioms (grep each run)",
    "Lean compiler for the driver evodrv (used for the correspondence only, never for a proof)",
    "this Python harness: generators, canonicalisation, exact rationals (fractions), oracle, translator",
    "numpy/scipy/pandas/matplotlib as libraries: results checked against exact values or certificates, internals not modelled",
    "the hand-written model is a model: the theorems are about it; the correspondence run ties it to /repo's working tree",
]


def finish(ctx, lean, extra_trusted=(), open_clauses=(), rule="", assumptions=()):
    """verdict + evidence; returns the exit code"""
    prop = ctx.prop
    violations = 0
    lines = []
    for fid, (k, n, ex) in sorted(ctx.known_seen.items()):
        lines.append(f"KNOWN-FINDING: property={prop} {fid} {k['what']} ({n} failing cases this run)")
    if ctx.failures:
        # report distinct clauses, smallest case first
        seen = set()
        for case, f in sorted(ctx.failures, key=lambda cf: len(json.dumps(cf[0], default=str))):
            if f["clause"] in seen:
                continue
            seen.add(f["clause"])
            rp = write_replay(prop, "oracle-failure", {"seed": ctx.seed, "case": case, "failure": f,
                                                         "broken_obligations": lean["broken"],
                                                         "mismatch_count": len(ctx.mismatches)})
            lines.append(f"VIOLATION property={prop} replay={rp}")
            violations += 1
    elif ctx.mismatches or lean["broken"]:
        case, mm = (min(ctx.mismatches, key=lambda cm: len(json.dumps(cm[0], default=str)))
                    if ctx.mismatches else (None, None))
        rp = write_replay(prop, "correspondence-mismatch" if ctx.mismatches else "obligation-broken",
                          {"seed": ctx.seed, "case": case, "mismatch": mm,
                           "broken_obligations": lean["broken"], "build_log": lean.get("build_log"),
                           "mismatch_count": len(ctx.mismatches),
                           "note": "the property oracle found no failing input among all generated cases"})
        lines.append(f"VIOLATION property={prop} replay={rp} no-failing-input-found")
        violations += 1
    cov = {
        "obligations": lean["obligations"],
        "discharged": lean["discharged"],
        "checker_cmd": " && ".join(lean.get("cmds", [])),
        "trusted_base": TRUSTED + list(extra_trusted),
        "theorems": lean["theorems"],
        "broken_obligations": lean["broken"],
        "evaluations": ctx.evaluations,
        "distinct_nontrivial": len(ctx.keys),
        "rule": rule,
        "samples": ctx.samples,
        "model_branches_hit": ctx.branches,
        "input_distribution": ctx.dist,
        "borderline_skipped": ctx.skipped,
        "correspondence_mismatches": len(ctx.mismatches),
        "oracle_failures": len(ctx.failures),
        "known_findings_seen": {k: v[1] for k, v in ctx.known_seen.items()},
        "open_clauses": list(open_clauses),
        "generated_tables": lean.get("gen"),
        "leanchecker": lean.get("leanchecker"),
        "notes": ctx.notes,
    }
    ev = {"property_id": prop, "tier": ctx.tier, "seed": ctx.seed, "level": "proof", "coverage": cov,
          "assumptions": list(assumptions), "wall_s": round(time.time() - ctx.t0, 1), "violations": violations}
    (VERIF / "evidence").mkdir(exist_ok=True)
    if REPO == Path("/repo"):
        (VERIF / "evidence" / f"{prop}.json").write_text(json.dumps(ev, indent=1, default=str))
    else:
        # a run against a scratch tree (mutant testing) must not overwrite the evidence of /repo
        (VERIF / "evidence" / "replay").mkdir(exist_ok=True)
        (VERIF / "evidence" / "replay" / f"scratch-{prop}.json").write_text(json.dumps(ev, indent=1, default=str))
    for l in lines:
        print(l)
    print(f"[{prop}] tier={ctx.tier} seed={ctx.seed} theorems={lean['discharged']}/{lean['obligations']} "
          f"cases={ctx.evaluations} distinct={len(ctx.keys)} skipped={ctx.skipped} mismatches={len(ctx.mismatches)} "
          f"oracle_failures={len(ctx.failures)} known={sum(v[1] for v in ctx.known_seen.values())} "
          f"wall={ev['wall_s']}s")
    return 1 if violations else 0


def shrink_all(ctx, shrink, evaluate, budget=300):
    """greedy minimisation of the first oracle failure / mismatch (replay files then hold small cases)"""
    t_end = time.time() + (90 if not ctx.thorough else 300)      # minimisation is a convenience: never more than this

    def minimise(case, still_bad):
        steps = 0
        improved = True
        while improved and steps < budget and time.time() < t_end:
            improved = False
            for cand in shrink(case):
                steps += 1
                if steps >= budget or time.time() >= t_end:
                    break
                sub = Ctx(ctx.prop, ctx.tier, ctx.seed)
                try:
                    evaluate(sub, [cand])
                except Exception:
                    continue
                if still_bad(sub):
                    case = cand
                    improved = True
                    break
        return case
    if ctx.failures:
        case, f = ctx.failures[0]
        small = minimise(case, lambda s: any(x[1]["clause"] == f["clause"] for x in s.failures))
        if small is not case:
            sub = Ctx(ctx.prop, ctx.tier, ctx.seed)
            evaluate(sub, [small])
            ctx.failures = [x for x in sub.failures if x[1]["clause"] == f["clause"]][:1] + ctx.failures
    elif ctx.mismatches:
        case, _ = ctx.mismatches[0]
        small = minimise(case, lambda s: bool(s.mismatches))
        if small is not case:
            sub = Ctx(ctx.prop, ctx.tier, ctx.seed)
            evaluate(sub, [small])
            ctx.mismatches = sub.mismatches[:1] + ctx.mismatches


def finish_replay(ctx):
    prop = ctx.prop
    for fid, (k, n, ex) in sorted(ctx.known_seen.items()):
        print(f"KNOWN-FINDING: property={prop} {fid} {k['what']}")
    if ctx.failures:
        for case, f in ctx.failures[:5]:
            print(f"VIOLATION property={prop} replay=<this file> clause={f['clause']}: {f['detail']}")
        return 1
    if ctx.mismatches:
        print(f"VIOLATION property={prop} replay=<this file> {ctx.mismatches[0][1]['what']} no-failing-input-found")
        return 1
    print(f"[{prop}] replayed case passes on the current tree")
    return 0


# ----------------------------------------------------------------------------- drift sentinel
def _norm_ast(node):
    """AST dump without docstrings and logging calls (comments are not in the AST anyway)"""
    import ast

    class Strip(ast.NodeTransformer):
        def visit_Expr(self, n):
            v = n.value
            if isinstance(v, ast.Constant) and isinstance(v.value, str):
                return None
            if isinstance(v, ast.Call) and isinstance(v.func, ast.Attribute) and isinstance(v.func.value, ast.Name) \
                    and v.func.value.id in ("logger", "logging"):
                return None
            return self.generic_visit(n)
    return ast.dump(Strip().visit(node), annotate_fields=False, include_attributes=False)


def fingerprints(specs):
    """specs: ['evo/core/sync.py:matching_time_indices', 'evo/core/trajectory.py:PosePath3D.transform', …]
    → {spec: sha1 of the normalised AST of that function in REPO's current working tree}"""
    import ast
    out, cache = {}, {}
    for spec in specs:
        path, qual = spec.split(":")
        if path not in cache:
            try:
                cache[path] = ast.parse((REPO / path).read_text())
            except (OSError, SyntaxError) as e:
                cache[path] = e
        tree = cache[path]
        if isinstance(tree, Exception):
            out[spec] = f"unreadable: {tree}"
            continue
        node = tree
        for part in qual.split("."):
            node = next((n for n in ast.iter_child_nodes(node)
                         if isinstance(n, (ast.FunctionDef, ast.ClassDef, ast.AsyncFunctionDef)) and n.name == part), None)
            if node is None:
                break
        out[spec] = hashlib.sha1(_norm_ast(node).encode()).hexdigest()[:16] if node is not None else "missing"
    return out


def tree_hash():
    """sha1 over all Python sources of the package under test (REPO/evo/**/*.py)"""
    h = hashlib.sha1()
    for f in sorted((REPO / "evo").rglob("*.py")):
        h.update(str(f.relative_to(REPO)).encode() + b"\0" + f.read_bytes() + b"\0")
    return h.hexdigest()[:16]


def tree_changed():
    """does the tree under test differ from the one the harness was validated on (fingerprints.json: __tree__)?"""
    f = VERIF / "harness" / "fingerprints.json"
    known = json.loads(f.read_text()) if f.exists() else {}
    return known.get("__tree__") is not None and known.get("__tree__") != tree_hash()


def harness_crash(prop, seed, exc_text):
    """An exception of the harness itself while it drives / interprets evo.  On the tree the harness was validated on this is a
    tool error (exit 2).  On a changed tree it means that evo no longer behaves in a way the correspondence run can even
    process: the correspondence is broken, no failing input was isolated -> VIOLATION ... no-failing-input-found."""
    if not tree_changed():
        return None
    rp = write_replay(prop, "correspondence-broken", {
        "seed": seed, "case": None,
        "correspondence": f"harness/props/{prop}.py could not drive or interpret the changed code (exception below); the model "
                          f"<-> implementation correspondence of {prop} no longer checks",
        "exception": exc_text[-3000:],
        "note": "no failing input was isolated: the run stopped at the first point where evo's behaviour left the protocol"})
    print(f"VIOLATION property={prop} replay={rp} no-failing-input-found")
    return 1


SLOW_THOROUGH = {"C02", "C05", "C07", "C08", "C10", "C12", "C20"}


def drift(ctx, specs):
    """Compare with harness/fingerprints.json (committed). A changed modelled function is not a violation:
    it is recorded in the evidence and switches the correspondence run to the thorough budget."""
    f = VERIF / "harness" / "fingerprints.json"
    known = json.loads(f.read_text()) if f.exists() else {}
    now = fingerprints(specs)
    changed = sorted(s for s in specs if known.get(s) != now[s])
    ctx.notes["modelled_functions"] = len(specs)
    ctx.notes["model_source_changed"] = changed
    if changed and any(s in known for s in changed):
        # the run is extended when a modelled function changed.  Properties whose thorough tier needs more than ~6 minutes on a
        # loaded machine keep their quick generators and only enlarge them where they look at `ctx.extended` (the quick command
        # must stay well inside the time a check is given; `./check Cnn thorough` is the deep exploration)
        ctx.extended = True
        if ctx.prop in SLOW_THOROUGH and ctx.tier != "thorough":
            ctx.notes["budget"] = "extended quick budget (a modelled function changed; thorough tier of this property is slow)"
        else:
            ctx.thorough = True
            ctx.notes["budget"] = "thorough (a modelled function changed)"
    return now
