import importlib
import json
import os
import sys
import traceback
import warnings
from pathlib import Path

sys.path.insert(0, str(Path(__file__).resolve().parent))
import core  # noqa: E402


def main(argv):
    if len(argv) < 2:
        print("usage: check <Cnn> quick|thorough | --replay <file>")
        return 2
    prop, mode = argv[0], argv[1]
    seed = int(os.environ.get("VERIF_SEED", "0") or 0)
    warnings.simplefilter('ignore', SyntaxWarning)
    core.isolate_home()
    mod = importlib.import_module(f"props.{prop}")
    try:
        if mode == "--replay":
            data = json.loads(Path(argv[2]).read_text())
            ctx = core.Ctx(prop, "quick", data.get("seed", seed))
            if data.get("kind") in ("correspondence-broken", "obligation-broken") or data.get("case") is None:
                # no single case was isolated: the replay is the whole run with the recorded seed
                seed = data.get("seed", seed)
                mode = "quick"
            else:
                return mod.replay(ctx, data)
        # the command line decides the tier (quick_cmd / thorough_cmd); VERIF_TIER only fills in when it is absent
        tier = mode if mode in ("quick", "thorough") else os.environ.get("VERIF_TIER", "quick")
        ctx = core.Ctx(prop, tier, seed)
        try:
            return mod.check(ctx)
        except (LookupError, ValueError, TypeError, AttributeError, ArithmeticError, AssertionError):
            # a Python-level exception of the harness (not I/O, memory, time-outs, tool errors): see core.harness_crash
            text = traceback.format_exc()
            rc = core.harness_crash(prop, seed, text)
            if rc is None:
                raise
            print(text, file=sys.stderr)
            return rc
    except core.ToolError as e:
        print(f"TOOL-ERROR {prop}: {e}", file=sys.stderr)
        return 2


if __name__ == "__main__":
    try:
        rc = main(sys.argv[1:])
    except Exception:
        traceback.print_exc()
        rc = 2
    if core.REPO != Path("/repo"):
        # a run against a scratch tree regenerated lean/EvoModel/Gen/*.lean from that tree: put the tables of /repo (as
        # committed) back, so that nothing derived from a scratch tree is ever left in the working copy / committed
        import subprocess
        subprocess.run(["git", "-C", str(core.VERIF), "checkout", "--", "lean/EvoModel/Gen"], capture_output=True)
    sys.stdout.flush()
    os._exit(rc)
