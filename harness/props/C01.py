"""C01 — APE values equal the definition (evo/core/metrics.py APE, evo/main_ape.py).
Model: lean/EvoModel/Model/Ape.lean; theorems: Props/C01.lean."""
import numpy as np

import core
from core import Fraction, frac, rat
from props import metrics_common as mc
from props import metrics_cli as cli

MODELLED = ["evo/core/metrics.py:APE.__init__", "evo/core/metrics.py:APE.ape_base", "evo/core/metrics.py:APE.process_data",
            "evo/core/metrics.py:PE.change_unit", "evo/core/lie_algebra.py:relative_se3", "evo/core/lie_algebra.py:se3_inverse",
            "evo/core/lie_algebra.py:so3_log_angle", "evo/core/lie_algebra.py:so3_log", "evo/core/lie_algebra.py:is_so3",
            "evo/main_ape.py:ape", "evo/main_ape.py:run", "evo/common_ape_rpe.py:downsample_or_filter",
            "evo/common_ape_rpe.py:get_pose_relation", "evo/common_ape_rpe.py:load_trajectories",
            "evo/main_ape_parser.py:parser"]

RULE = ("process_data cases = (relation, storage mode matrices|positions+quaternions, reference poses, estimate poses): "
        "exact-grid stream (axis rotations, dyadic positions), random stream (scales 1e-3..1e6, 5e5 offsets, uniform "
        "rotations, relative angles 1e-16..1e-3 and pi-1e-12..pi), unequal lengths, non-SO(3) blocks; values compared with "
        "the model's exact rational core + one sqrt/atan2, tolerance 64*2^-53*(max|input|+|result|); CLI cases = (format, "
        "option set, two trajectory files) run through evo.main_ape.run in-process, stored error_array/timestamps compared "
        "bit for bit with the driver's plan interpreted with evo's core API on fresh copies; non-trivial = at least two "
        "poses with non-zero error, or a refusal, or a CLI case with at least one optional step; distinct by content hash")

ANGLE = ("angle_rad", "angle_deg")


# ------------------------------------------------------------------------------------------------ generators
def gen_pd_cases(ctx):
    r = ctx.rng
    T = ctx.thorough
    # corpus: hand-made
    I = mc.mat_pose(mc.AXIS_ROTS[0], [0, 0, 0])
    Rz = [[0.0, -1.0, 0.0], [1.0, 0.0, 0.0], [0.0, 0.0, 1.0]]
    for rel in mc.RELS:
        yield {"kind": "pd", "stream": "corpus", "rel": rel, "mode": "mat",
               "ref": [I, mc.mat_pose(Rz, [1, 2, 3])], "est": [mc.mat_pose(Rz, [3, 4, 0]), mc.mat_pose(Rz, [1, 2, 3])]}
    # exact grid
    for _ in range(250 if not T else 1500):
        n = r.randint(1, 8)
        ref = [mc.mat_pose(r.choice(mc.AXIS_ROTS), [r.randint(-64, 64) / 8 for _ in range(3)]) for _ in range(n)]
        est = [mc.mat_pose(r.choice(mc.AXIS_ROTS), [r.randint(-64, 64) / 8 for _ in range(3)]) for _ in range(n)]
        if r.random() < 0.2:
            k = r.randrange(n)
            est[k] = ref[k]
        yield {"kind": "pd", "stream": "grid", "rel": r.choice(mc.RELS), "mode": "mat", "ref": ref, "est": est}
    # random
    for _ in range(250 if not T else 2500):
        n = r.choice([1, 2, 3, 5, 8, 13, 30]) if not T else r.choice([1, 2, 3, 5, 8, 13, 30, 100])
        scale = r.choice([1e-3, 1.0, 1e3, 1e6])
        offset = r.choice([[0.0, 0.0, 0.0], [5e5 + r.uniform(0, 1e3), 5.4e6 + r.uniform(0, 1e3), r.uniform(0, 500)]])
        rot_style = r.choice(["uniform", "uniform", "axis"])
        ref, est = mc.gen_pair_lists(r, n, scale, offset, rot_style, "mixed")
        mode = r.choice(["mat", "quat"])
        if mode == "quat":
            ref, est = mc.to_quat_rows(ref), mc.to_quat_rows(est)
        if r.random() < 0.3:
            k = r.randrange(n)
            est[k] = list(est[max(k - 1, 0)])      # repeated pose (aliasing flavour shares the object)
        yield {"kind": "pd", "stream": "random", "rel": r.choice(mc.RELS[:6]), "mode": mode, "ref": ref, "est": est,
               "flavour": r.choice(mc.FLAVOURS), "preread": list(r.choice(mc.PREREADS))}
    # hard rotations
    for _ in range(120 if not T else 1200):
        n = r.randint(1, 6)
        pert = r.choice(["tiny", "near_pi", "pi", "same"])
        ref, est = mc.gen_pair_lists(r, n, 1.0, [0.0, 0.0, 0.0], "uniform", pert)
        mode = r.choice(["mat", "quat"])
        if mode == "quat":
            ref, est = mc.to_quat_rows(ref), mc.to_quat_rows(est)
        yield {"kind": "pd", "stream": "hard-" + pert, "rel": r.choice(["angle_rad", "angle_deg", "rot_part", "full"]),
               "mode": mode, "ref": ref, "est": est}
    # structured sizes (L5)
    sizes = [1, 2, 3, 4, 7, 8, 9, 15, 16, 17, 31, 32, 33, 63, 64, 65, 127, 128, 129, 255, 256, 257]
    if T:
        sizes += [511, 512, 513, 1023, 1024, 1025, 4095, 4096, 4097]
    for n in sizes:
        ref, est = mc.gen_pair_lists(r, n, 10.0, [0.0, 0.0, 0.0], "uniform", "mixed")
        yield {"kind": "pd", "stream": "sizes", "rel": r.choice(["trans_part", "full", "angle_rad", "rot_part"]), "mode": "mat",
               "ref": ref, "est": est, "flavour": r.choice(mc.FLAVOURS), "preread": list(r.choice(mc.PREREADS))}
    # long
    for rel, n in (("trans_part", 1000 if not T else 10000), ("angle_deg", 300 if not T else 10000),
                   ("full", 300 if not T else 3000)):
        ref, est = mc.gen_pair_lists(r, n, 10.0, [0.0, 0.0, 0.0], "uniform", "mixed")
        yield {"kind": "pd", "stream": "long", "rel": rel, "mode": "mat", "ref": ref, "est": est}
    # unequal lengths
    for _ in range(40 if not T else 200):
        n = r.randint(1, 6)
        ref, est = mc.gen_pair_lists(r, n + r.randint(1, 3), 1.0, [0.0, 0.0, 0.0], "uniform", "mixed")
        if r.random() < 0.5:
            ref = ref[:n]
        else:
            est = est[:n]
        yield {"kind": "pd", "stream": "unequal", "rel": r.choice(mc.RELS), "mode": "mat", "ref": ref, "est": est}
    # rotation blocks that are not SO(3) (guard of so3_log): scaled / reflected estimate
    for _ in range(40 if not T else 200):
        n = r.randint(1, 4)
        ref, est = mc.gen_pair_lists(r, n, 1.0, [0.0, 0.0, 0.0], "uniform", "uniform")
        k = r.randrange(n)
        f = r.choice([1 + 1e-3, 1 - 1e-3, 1 + 1e-7, -1.0, 2.0])
        est[k] = [v * f if i % 4 != 3 else v for i, v in enumerate(est[k])]
        yield {"kind": "pd", "stream": "non-so3", "rel": r.choice(["angle_rad", "angle_deg", "rot_part", "full", "trans_part"]),
               "mode": "mat", "ref": ref, "est": est}


def gen_hist_cases(ctx):
    """object-reuse histories: one APE object, 2-3 process_data calls on different trajectory pairs (different
    lengths, an occasional refused call), statistics / get_result after every call, a change_unit in between"""
    r = ctx.rng
    yield {"kind": "hist", "rel": "rot_part", "mode": "mat", "calls": [
        {"ref": [mc.mat_pose(mc.AXIS_ROTS[0], [0, 0, 0])] * 3, "est": [mc.mat_pose(mc.AXIS_ROTS[5], [1, 0, 0])] * 3, "unit_after": None},
        {"ref": [mc.mat_pose(mc.AXIS_ROTS[0], [0, 0, 0])], "est": [mc.mat_pose(mc.AXIS_ROTS[0], [0, 2, 0])], "unit_after": None}]}
    for _ in range(40 if not ctx.thorough else 400):
        calls = []
        changed = False
        for k in range(r.randint(2, 3)):
            n = r.randint(1, 7)
            ref, est = mc.gen_pair_lists(r, n + (1 if r.random() < 0.1 else 0), 1.0, [0.0, 0.0, 0.0], "uniform", "mixed")
            ref = ref[:n]
            u = None
            if not changed and r.random() < 0.4:
                u = r.choice(["mm", "km", "deg", "rad", "cm"])
                changed = True
            calls.append({"ref": ref, "est": est, "unit_after": u})
        mode = r.choice(["mat", "quat"])
        if mode == "quat":
            for c in calls:
                c["ref"], c["est"] = mc.to_quat_rows(c["ref"]), mc.to_quat_rows(c["est"])
        yield {"kind": "hist", "rel": r.choice(mc.RELS[:6]), "mode": mode, "calls": calls}


def gen_cases(ctx):
    yield from gen_pd_cases(ctx)
    yield from gen_hist_cases(ctx)
    yield from cli.gen_api_cases(ctx)
    yield from cli.gen_cli_cases(ctx, "ape")


# ------------------------------------------------------------------------------------------------ implementation
def run_ape(rel, ref_path, est_path, m=None):
    from evo.core import metrics
    from evo.core.lie_algebra import LieAlgebraException
    m = m or metrics.APE(mc.pose_relation(rel))
    try:
        m.process_data((ref_path, est_path))
    except metrics.MetricsException as e:
        s = str(e)
        return {"err": "E_METRICS:len" if "same number" in s else "E_METRICS:rel" if "unsupported" in s else "E_METRICS:?" + s}
    except LieAlgebraException:
        return {"err": "E_GEOMETRY"}
    except Exception as e:  # noqa: any other failure is reported, never a tool crash
        return {"err": "EXC:" + type(e).__name__}
    return {"ok": [float(v) for v in np.asarray(m.error).reshape(-1)], "unit": m.unit.value}


def run_impl_pd(case):
    rel, mode = case["rel"], case["mode"]
    fl, pre = case.get("flavour", "plain"), tuple(case.get("preread", ()))
    out = {"seen_ref": mc.twin_poses(mode, case["ref"]), "seen_est": mc.twin_poses(mode, case["est"])}
    try:
        ref, est = mc.make_path(mode, case["ref"], flavour=fl, preread=pre), mc.make_path(mode, case["est"], flavour=fl, preread=pre)
        out["res"] = run_ape(rel, ref, est)
    except Exception as e:  # noqa (L12)
        out["res"] = {"err": "EXC:" + type(e).__name__}
    n = len(case["ref"])
    if "ok" in out["res"] and n == len(case["est"]) and n <= 40 and case["stream"] != "non-so3":
        # metamorphic runs for the oracle: coincide, swap, common rigid motion
        same = mc.make_path(mode, case["ref"], flavour=fl)
        out["self"] = run_ape(rel, same, same) if fl == "alias" else run_ape(rel, mc.make_path(mode, case["ref"]), mc.make_path(mode, case["ref"]))
        out["swap"] = run_ape(rel, mc.make_path(mode, case["est"]), mc.make_path(mode, case["ref"]))
        import random
        rr = random.Random(repr(case["ref"][0]))
        T = mc.rigid_T(rr, exact=case["stream"] in ("grid", "corpus"))
        tref = [mc.np_to_pose12(T @ mc.pose12_to_np(p)) for p in out["seen_ref"]]
        test = [mc.np_to_pose12(T @ mc.pose12_to_np(p)) for p in out["seen_est"]]
        out["moved"] = run_ape(rel, mc.make_path("mat", tref), mc.make_path("mat", test))
        out["moved_inputs"] = tref + test
    return out


def stats_of(vals):
    a = np.array(vals, dtype=float)
    return {"rmse": float(np.sqrt(np.mean(a * a))), "mean": float(np.mean(a)), "median": float(np.median(a)),
            "std": float(np.std(a)), "min": float(np.min(a)), "max": float(np.max(a)), "sse": float(np.sum(a * a))}


def after_call(m, out, unit_after):
    """statistics / result of the metric object right after a process_data call, then the optional unit change"""
    from evo.core.units import Unit
    out["unit_before"] = m.unit.value       # right after process_data: the native unit of the relation (evo 46322c3)
    try:
        out["stats"] = {k: float(v) for k, v in m.get_all_statistics().items()}
        res = m.get_result()
        out["result_array_same"] = res.np_arrays["error_array"].tobytes() == np.asarray(m.error).tobytes()
        out["result_stats_same"] = {k: float(v) for k, v in res.stats.items()} == out["stats"]
    except Exception as e:  # noqa
        out["stats_exc"] = type(e).__name__
    if unit_after:
        try:
            m.change_unit(Unit(unit_after))
            out["after_unit"] = [float(v) for v in np.asarray(m.error).reshape(-1)]
        except Exception as e:  # noqa
            out["after_unit_exc"] = type(e).__name__
    out["unit_label"] = m.unit.value


def run_impl_hist(case):
    from evo.core import metrics
    m = metrics.APE(mc.pose_relation(case["rel"]))
    outs = []
    for call in case["calls"]:
        ref, est = mc.make_path(case["mode"], call["ref"]), mc.make_path(case["mode"], call["est"])
        out = {"seen_ref": mc.seen_poses(ref), "seen_est": mc.seen_poses(est)}
        out["res"] = run_ape(case["rel"], ref, est, m)
        if "ok" in out["res"]:
            after_call(m, out, call.get("unit_after"))
        outs.append(out)
    return outs


def judge_stats(ctx, case, k, out, want, rel, unit_after):
    """oracle on the reused object: statistics, result and unit change of call k refer to call k's values alone"""
    if "stats_exc" in out:
        ctx.fail(case, "reused-object-statistics", f"call {k}: get_all_statistics/get_result raised {out['stats_exc']}")
        return
    exp = stats_of(want)
    scale = max([abs(v) for v in want] + [1e-300])
    for key, v in exp.items():
        got = out["stats"].get(key)
        tol = 1e-7 * (scale * scale * len(want) if key == "sse" else scale) + 1e-300
        if got is None or not abs(got - v) <= tol:
            ctx.fail(case, "reused-object-statistics", f"call {k}: {key} = {got!r}, of this call's values alone {v!r}")
            return
    if not out.get("result_array_same") or not out.get("result_stats_same"):
        ctx.fail(case, "reused-object-result", f"call {k}: get_result() does not carry this call's error array / statistics")
    if unit_after:
        fac = cli.unit_factor(rel, unit_after)
        if fac is None:
            if "after_unit_exc" not in out:
                ctx.fail(case, "reused-object-change_unit", f"call {k}: conversion to {unit_after} not refused")
        elif "after_unit" not in out or len(out["after_unit"]) != len(want) or \
                any(not abs(a - w * fac) <= 1e-7 * (scale * abs(fac)) + 1e-300 for a, w in zip(out["after_unit"], want)):
            ctx.fail(case, "reused-object-change_unit", f"call {k}: values after change_unit({unit_after}) are not this call's values x {fac}")
        ctx.count("branch", "hist-change_unit")


def judge_hist(ctx, case, impls, outs_per_call):
    rel = case["rel"]
    native = {"trans_part": "m", "point_distance": "m", "angle_deg": "deg", "angle_rad": "rad"}.get(rel, "unit-less")
    for k, (call, out, outs) in enumerate(zip(case["calls"], impls, outs_per_call)):
        sub = {"kind": "pd", "stream": "hist", "rel": rel, "mode": case["mode"], "ref": call["ref"], "est": call["est"]}
        judge_pd(ctx, sub, out, outs, report_case=case)
        if "ok" in out["res"] and len(call["ref"]) == len(call["est"]) and len(out["res"]["ok"]) == len(call["ref"]):
            # this call's values (checked against the definition by judge_pd above) are the reference for the
            # statistics / result / unit change of the same call
            judge_stats(ctx, case, k, out, out["res"]["ok"], rel, call.get("unit_after"))
        if "unit_before" in out and out["unit_before"] != native:
            ctx.mismatch(case, f"call {k}: unit label after process_data is not the native unit of the relation", out["unit_before"], native)
    ctx.count("branch", "hist-calls", len(case["calls"]))
    ctx.record(case, True)


# ------------------------------------------------------------------------------------------------ model
def model_lines_pd(case, impl):
    a = f"{mc.poselist(impl['seen_ref'])} {mc.poselist(impl['seen_est'])}"
    lines = [f"C01 ape {case['rel']} {a}"]
    if case["rel"] in ANGLE:
        lines.append(f"C01 margin {a}")
    return lines


# ------------------------------------------------------------------------------------------------ judge
def exact_rows(case, which):
    rows = case[which]
    if case["mode"] == "mat":
        return [mc.F12(p) for p in rows]
    return [mc.exact_pose_from_quat(p) for p in rows]


def textbook_ape(rel, ref, est):
    """the definition, on exact rational poses (true inverse, not the transpose)"""
    if rel in ("trans_part", "point_distance"):
        return mc.fsqrt(sum((a - b) ** 2 for a, b in zip(mc.t_of(est), mc.t_of(ref))))
    return mc.textbook_value(rel, mc.rel_true(est, ref))


def judge_pd(ctx, case, impl, outs, report_case=None):
    rc = report_case or case
    rel = case["rel"]
    res = impl["res"]
    m_out = outs[0]
    n_ref, n_est = len(case["ref"]), len(case["est"])
    allp = impl["seen_ref"] + impl["seen_est"]
    borderline = False
    if rel in ANGLE and len(outs) > 1 and n_ref == n_est:
        borderline = core.parse_rat(outs[1]) < Fraction(1, 10 ** 10)
    # ---- correspondence
    if borderline or (case["stream"] == "non-so3" and rel in ANGLE and "ok" in res and m_out.startswith("OK")):
        # inside the is_so3 tolerance but not a rotation: scipy orthogonalises, the angle is not defined
        ctx.skipped += 1
    elif "err" in res or not m_out.startswith("OK"):
        if res.get("err") != m_out:
            ctx.mismatch(rc, "APE.process_data refusal differs from Ape.ape", res.get("err", "values"), m_out[:40])
        ctx.count("branch", "refused:" + m_out if not m_out.startswith("OK") else "model-ok-impl-refused")
    else:
        toks = m_out.split()[1:]
        if len(toks) != len(res["ok"]):
            ctx.mismatch(rc, "number of APE values differs from the model", len(res["ok"]), len(toks))
        else:
            for k, (v, tok) in enumerate(zip(res["ok"], toks)):
                mv = mc.value_of_core(tok)
                tol = mc.tolerance(rel, [impl["seen_ref"][k], impl["seen_est"][k]], mv)
                if not abs(v - mv) <= tol:
                    ctx.mismatch(rc, f"APE value {k} differs from the model core ({rel})", v, mv)
                    break
            ctx.count("branch", "values:" + rel)
    # ---- oracle (property sentence, independent of the model)
    if n_ref != n_est:
        if "ok" in res:
            ctx.fail(rc, "refuses-unequal-lengths", f"{n_ref} reference vs {n_est} estimate poses gave {len(res['ok'])} values")
    elif "ok" in res and case["stream"] != "non-so3":
        vals = res["ok"]
        if len(vals) != n_ref:
            ctx.fail(rc, "one-value-per-pose", f"{len(vals)} values for {n_ref} poses")
        else:
            ref, est = exact_rows(case, "ref"), exact_rows(case, "est")
            for k in range(n_ref):
                want = textbook_ape(rel, ref[k], est[k])
                tol = 4 * mc.tolerance(rel, [impl["seen_ref"][k], impl["seen_est"][k]], want)
                if not abs(vals[k] - want) <= tol:
                    ctx.fail(rc, "value-equals-definition",
                             f"{rel}: pose {k}: evo {vals[k]!r}, definition {want!r} (tol {tol:.3g})")
                    break
            for name, clause in (("self", "zero-when-coinciding"), ("swap", "unchanged-when-swapped"),
                                 ("moved", "unchanged-under-common-rigid-motion")):
                if name not in impl:
                    continue
                o = impl[name]
                if "ok" not in o or len(o["ok"]) != n_ref:
                    ctx.fail(rc, clause, f"{name}: {o}")
                    continue
                for k in range(n_ref):
                    pk = [impl["seen_ref"][k], impl["seen_est"][k]]
                    if name == "moved":
                        pk = pk + [impl["moved_inputs"][k], impl["moved_inputs"][n_ref + k]]
                    want = 0.0 if name == "self" else vals[k]
                    tol = 8 * mc.tolerance(rel, pk, want)
                    if not abs(o["ok"][k] - want) <= tol:
                        ctx.fail(rc, clause, f"{rel}: pose {k}: {o['ok'][k]!r} vs {want!r} (tol {tol:.3g})")
                        break
    # ---- bookkeeping
    ctx.count("dist", f"pd:{case['stream']}:{case['mode']}")
    ctx.count("dist", "rel:" + rel)
    nontrivial = ("err" in res) or (sum(1 for v in res.get("ok", []) if v != 0.0) >= 2)
    ctx.record(rc if report_case is None else case, nontrivial)


def shrink(case):
    if case["kind"] == "hist":
        if len(case["calls"]) > 2:
            for k in range(len(case["calls"])):
                c = dict(case)
                c["calls"] = case["calls"][:k] + case["calls"][k + 1:]
                yield c
        return
    if case["kind"] != "pd":
        yield from cli.shrink(case)
        return
    n = min(len(case["ref"]), len(case["est"]))
    if n > 1:
        for k in range(n):
            c = dict(case)
            c["ref"] = case["ref"][:k] + case["ref"][k + 1:]
            c["est"] = case["est"][:k] + case["est"][k + 1:]
            yield c
    if case["mode"] == "mat":
        for which in ("ref", "est"):
            for k, p in enumerate(case[which]):
                if any(p[i] != 0 for i in (3, 7, 11)):
                    c = dict(case)
                    q = list(p)
                    q[3] = q[7] = q[11] = 0.0
                    c[which] = case[which][:k] + [q] + case[which][k + 1:]
                    yield c


def evaluate(ctx, cases):
    pd = [c for c in cases if c["kind"] == "pd"]
    impls = [run_impl_pd(c) for c in pd]
    lines, spans = [], []
    for c, im in zip(pd, impls):
        l = model_lines_pd(c, im)
        spans.append((len(lines), len(lines) + len(l)))
        lines += l
    outs = core.run_driver(lines, "C01")
    for c, im, (a, b) in zip(pd, impls, spans):
        try:
            judge_pd(ctx, c, im, outs[a:b])
        except Exception as e:  # noqa: BLE001 -- what evo returned could not even be judged: a finding about this case, never a tool error
            ctx.fail(c, "output-cannot-be-judged", f"the harness could not judge what evo returned: {type(e).__name__}: {str(e)[:200]}")
    hist = [c for c in cases if c["kind"] == "hist"]
    himpls = [run_impl_hist(c) for c in hist]
    lines, spans = [], []
    for c, ims in zip(hist, himpls):
        sp = []
        for im in ims:
            l = model_lines_pd({"rel": c["rel"]}, im)
            sp.append((len(lines), len(lines) + len(l)))
            lines += l
        spans.append(sp)
    outs = core.run_driver(lines, "C01")
    for c, ims, sp in zip(hist, himpls, spans):
        judge_hist(ctx, c, ims, [outs[a:b] for a, b in sp])
    cli.evaluate(ctx, [c for c in cases if c["kind"] in ("cli", "api2")], "ape")


OPEN = ["float rounding of evo's evaluation: values agree with the exact definition within 64*2^-53*(max|input|+|result|), checked per case, not proved",
        "scipy's rotation-vector code is not modelled: its angle is compared with atan2(sqrt(s2), c) of the model's rational (c, s2) core",
        "real-valued angle layer: sin^2+cos^2=1 and c in [-1,1] are proved for the core of a proper rotation; that atan2 of it is the geodesic angle is the definition used, not derived from a matrix logarithm",
        "CLI inside the model (Pipeline.apeRun): parameters, not computed: the Umeyama triple (C03 certificate), projected directions (C14), accumulated distances and rotation angles compared by the motion filter (C11 conventions); the file readers are C06/C07 (the model starts from the loaded trajectories)"]


def check(ctx):
    lean = core.lean_side(ctx.prop, ctx.tier)
    core.drift(ctx, MODELLED)
    cli.check_tables(ctx, "ape")
    cases = list(gen_cases(ctx))
    evaluate(ctx, cases)
    core.shrink_all(ctx, shrink, evaluate)
    return core.finish(ctx, lean, rule=RULE, open_clauses=OPEN,
                       assumptions=["pose matrices are SE(3) up to float rounding (evo itself refuses angle relations otherwise; mirrored by the model's is_so3 guard)"])


def replay(ctx, data):
    core.sh("lake build drv_C01", cwd=core.LEAN)
    evaluate(ctx, [data["case"]])
    return core.finish_replay(ctx)
