"""C02 — RPE values over exactly the selected pairs (evo/core/metrics.py RPE, evo/main_rpe.py).
Model: lean/EvoModel/Model/Rpe.lean; theorems: Props/C02.lean."""
import random

import numpy as np

import core
from core import Fraction, frac, rat
from props import metrics_common as mc
from props import metrics_cli as cli

MODELLED = ["evo/core/metrics.py:RPE.__init__", "evo/core/metrics.py:RPE.rpe_base", "evo/core/metrics.py:RPE.process_data",
            "evo/core/metrics.py:id_pairs_from_delta", "evo/core/metrics.py:PE.change_unit",
            "evo/core/lie_algebra.py:relative_se3", "evo/core/lie_algebra.py:se3_inverse", "evo/core/lie_algebra.py:so3_log_angle",
            "evo/core/lie_algebra.py:so3_log", "evo/core/lie_algebra.py:is_so3", "evo/main_rpe.py:rpe", "evo/main_rpe.py:run",
            "evo/common_ape_rpe.py:downsample_or_filter", "evo/common_ape_rpe.py:get_pose_relation",
            "evo/common_ape_rpe.py:get_delta_unit", "evo/common_ape_rpe.py:load_trajectories", "evo/main_rpe_parser.py:parser"]

RULE = ("process_data cases = (relation, delta, delta unit f|m|r|d, consecutive|all_pairs, pairs_from_reference, storage mode, "
        "reference poses, estimate poses): exact-grid stream, random stream (scales 1e-3..1e6, 5e5 offsets, hard relative "
        "angles), stationary stretches (zero reference distances), unequal lengths; the pair list given to the model is "
        "evo's own id_pairs_from_delta output on the driving trajectory; delta_ids compared exactly, values with the model's "
        "rational core + one sqrt/atan2, tolerance 64*2^-53*(max|input|+|result|); CLI cases run evo.main_rpe.run in-process "
        "and compare error_array/timestamps bit for bit with the interpreted plan, and with Pipeline.rpeRun executed inside the model on "
        "the loaded input trajectories (refusal class, delta_ids, pair-end input poses, stamps exact; values to tolerance); non-trivial = at least two pairs with "
        "non-zero error, a zero-distance pair skipped, or a refusal; distinct by content hash")

ANGLE = ("angle_rad", "angle_deg")
UNITS = {"f": "frames", "m": "meters", "r": "radians", "d": "degrees"}


def evo_unit(u):
    from evo.core.metrics import Unit
    return {"f": Unit.frames, "m": Unit.meters, "r": Unit.radians, "d": Unit.degrees}[u]


# ------------------------------------------------------------------------------------------------ generators
def pick_delta(r, unit, n):
    if unit == "f":
        return float(r.choice([1, 1, 2, 3, max(1, n // 2)]))
    if unit == "m":
        return r.choice([0.5, 1.0, 3.0])
    if unit == "r":
        return r.choice([0.3, 1.0])
    return r.choice([10.0, 45.0])


def walk(r, n, step, rot_step, stationary=0.0, grid=False):
    """a trajectory as 12-float rows: incremental motion so that path / angle deltas are meaningful"""
    rows = []
    pos = [0.0, 0.0, 0.0]
    q = [1.0, 0.0, 0.0, 0.0]
    R = mc.AXIS_ROTS[0]
    for _ in range(n):
        if not (rows and r.random() < stationary):
            if grid:
                pos = [pos[k] + r.randint(-8, 8) / 8 for k in range(3)]
                if r.random() < 0.5:
                    R = r.choice(mc.AXIS_ROTS)
            else:
                pos = [pos[k] + r.uniform(-1, 1) * step for k in range(3)]
                q = mc.qnorm(mc.qmul(q, mc.axis_angle_quat(mc.rand_unit(r, 3), r.uniform(0, rot_step))))
                R = mc.quat_to_mat(q)
        rows.append(mc.mat_pose(R, pos))
    return rows


def noisy_copy(r, rows, scale, offset, pert):
    out = []
    for p in rows:
        how = pert if pert != "mixed" else r.choice(["same", "tiny", "uniform", "uniform"])
        Re, _ = mc.perturb_rotation(r, mc.rot_of(p), how)
        noise = scale * r.choice([0.0, 1e-9, 1e-2, 0.1])
        t = [p[3] + r.uniform(-1, 1) * noise + offset[0], p[7] + r.uniform(-1, 1) * noise + offset[1],
             p[11] + r.uniform(-1, 1) * noise + offset[2]]
        out.append(mc.mat_pose(Re, t))
    return out


def gen_pd_cases(ctx):
    r = ctx.rng
    T = ctx.thorough

    def case(stream, rel, ref, est, unit=None, mode="mat", **kw):
        n = min(len(ref), len(est))
        unit = unit or r.choice(["f", "f", "m", "r", "d"])
        c = {"kind": "pd", "stream": stream, "rel": rel, "mode": mode, "ref": ref, "est": est,
             "delta": pick_delta(r, unit, n), "unit": unit, "all_pairs": r.random() < 0.4,
             "from_ref": r.random() < 0.5, "tol": 0.1}
        c.update(kw)
        if stream in ("random", "stationary", "sizes", "grid"):
            c["flavour"] = r.choice(mc.FLAVOURS)
            c["preread"] = list(r.choice(mc.PREREADS))
        return c
    I = mc.mat_pose(mc.AXIS_ROTS[0], [0, 0, 0])
    Rz = [[0.0, -1.0, 0.0], [1.0, 0.0, 0.0], [0.0, 0.0, 1.0]]
    for rel in mc.RELS:
        # corpus: stationary reference between poses 1 and 2 (ratio skips that pair)
        yield case("corpus", rel, [I, mc.mat_pose(Rz, [3, 4, 0]), mc.mat_pose(Rz, [3, 4, 0]), mc.mat_pose(Rz, [3, 4, 12])],
                   [I, mc.mat_pose(Rz, [6, 8, 0]), mc.mat_pose(mc.AXIS_ROTS[0], [6, 8, 1]), mc.mat_pose(Rz, [6, 8, 13])],
                   unit="f", delta=1.0, all_pairs=False)
    for _ in range(200 if not T else 1200):
        n = r.randint(2, 9)
        ref = walk(r, n, 1.0, 1.0, stationary=r.choice([0.0, 0.3]), grid=True)
        est = walk(r, n, 1.0, 1.0, stationary=r.choice([0.0, 0.3]), grid=True)
        yield case("grid", r.choice(mc.RELS), ref, est, unit=r.choice(["f", "f", "m"]))
    for _ in range(220 if not T else 2200):
        n = r.choice([2, 3, 5, 8, 13, 30]) if not T else r.choice([2, 3, 5, 8, 13, 30, 100])
        scale = r.choice([1e-3, 1.0, 1.0, 1e3])
        offset = r.choice([[0.0, 0.0, 0.0], [5e5 + r.uniform(0, 1e3), 5.4e6 + r.uniform(0, 1e3), r.uniform(0, 500)]])
        ref = walk(r, n, scale, r.choice([0.2, 1.0]))
        ref = [[v * 1.0 for v in p] for p in ref]
        est = noisy_copy(r, ref, scale, [0.0, 0.0, 0.0], "mixed")
        ref = [p[:3] + [p[3] + offset[0]] + p[4:7] + [p[7] + offset[1]] + p[8:11] + [p[11] + offset[2]] for p in ref]
        est = [p[:3] + [p[3] + offset[0]] + p[4:7] + [p[7] + offset[1]] + p[8:11] + [p[11] + offset[2]] for p in est]
        mode = r.choice(["mat", "quat"])
        if mode == "quat":
            ref, est = mc.to_quat_rows(ref), mc.to_quat_rows(est)
        c = case("random", r.choice(mc.RELS), ref, est, mode=mode)
        if c["unit"] == "m":
            c["delta"] = c["delta"] * scale
        yield c
    for _ in range(100 if not T else 800):
        n = r.randint(2, 7)
        ref = walk(r, n, 1.0, 1.0)
        est = noisy_copy(r, ref, 1.0, [0.0, 0.0, 0.0], r.choice(["tiny", "near_pi", "pi", "same"]))
        yield case("hard", r.choice(["angle_rad", "angle_deg", "rot_part", "full"]), ref, est, unit="f")
    for _ in range(100 if not T else 600):
        n = r.randint(3, 12)
        ref = walk(r, n, 1.0, 0.5, stationary=0.4)
        est = noisy_copy(r, ref, 1.0, [0.0, 0.0, 0.0], "mixed")
        yield case("stationary", r.choice(["point_distance_error_ratio", "point_distance_error_ratio", "point_distance", "full"]),
                   ref, est, unit="f", from_ref=r.random() < 0.5)
    sizes = [2, 3, 4, 7, 8, 9, 15, 16, 17, 31, 32, 33, 63, 64, 65, 127, 128, 129]
    if T:
        sizes += [255, 256, 257, 511, 512, 513, 1023, 1024, 1025, 4095, 4096, 4097]
    for n in sizes:
        ref = walk(r, n, 1.0, 0.3, stationary=0.05)
        est = noisy_copy(r, ref, 1.0, [0.0, 0.0, 0.0], "mixed")
        d = float(r.choice([1, 2, max(1, n - 1), max(1, n // 2)]))
        yield case("sizes", r.choice(["trans_part", "full", "point_distance", "point_distance_error_ratio", "angle_deg"]),
                   ref, est, unit="f", delta=d, all_pairs=r.random() < 0.5)
    for rel, n in (("trans_part", 600 if not T else 10000), ("point_distance_error_ratio", 600 if not T else 10000),
                   ("angle_rad", 200 if not T else 5000)):
        ref = walk(r, n, 1.0, 0.3, stationary=0.05)
        est = noisy_copy(r, ref, 1.0, [1.0, 2.0, 3.0], "mixed")
        yield case("long", rel, ref, est, unit="f", delta=float(r.choice([1, 7])), all_pairs=False)
    for _ in range(40 if not T else 200):
        n = r.randint(2, 6)
        ref = walk(r, n + r.randint(1, 3), 1.0, 1.0)
        est = noisy_copy(r, ref, 1.0, [0.0, 0.0, 0.0], "mixed")
        if r.random() < 0.5:
            ref = ref[:n]
        else:
            est = est[:n]
        yield case("unequal", r.choice(mc.RELS), ref, est, unit="f", delta=1.0)


def gen_hist_cases(ctx):
    """object-reuse histories: one RPE object, 2-3 process_data calls on different trajectory pairs"""
    r = ctx.rng
    for _ in range(40 if not ctx.thorough else 400):
        calls = []
        changed = False
        for k in range(r.randint(2, 3)):
            n = r.randint(3, 9)
            ref = walk(r, n, 1.0, 0.6, stationary=r.choice([0.0, 0.3]))
            est = noisy_copy(r, ref, 1.0, [0.0, 0.0, 0.0], "mixed")
            if r.random() < 0.1:
                est = est[:-1]
            u = None
            if not changed and r.random() < 0.4:
                u = r.choice(["mm", "km", "deg", "rad"])
                changed = True
            calls.append({"ref": ref, "est": est, "unit_after": u})
        yield {"kind": "hist", "rel": r.choice(mc.RELS), "mode": "mat", "calls": calls, "delta": float(r.choice([1, 1, 2])),
               "unit": "f", "all_pairs": r.random() < 0.4, "from_ref": r.random() < 0.5, "tol": 0.1}


def gen_reuse_projected_cases(ctx):
    """the SAME two trajectory objects evaluated, projected in place onto a plane, and evaluated again with a delta in
    meters (all orientations are the identity, so the projection is exact: one coordinate becomes 0); the pairs and values
    of the second call are those of the projected poses, not of what the objects held before"""
    r = ctx.rng
    eye = [[1.0, 0.0, 0.0], [0.0, 1.0, 0.0], [0.0, 0.0, 1.0]]
    for _ in range(14 if not ctx.thorough else 120):
        n = r.randint(5, 12)
        nd = r.randrange(3)
        pr, pe, p = [], [], [0.0, 0.0, 0.0]
        for _k in range(n):
            p = [p[i] + (r.choice([-1.5, -1.0, 1.0, 2.0]) if i == nd else r.choice([0.0, 0.25, 0.5, 0.75])) for i in range(3)]
            pr.append(list(p))
            pe.append([x + r.choice([0.0, 0.125, -0.25]) for x in p])
        flat = lambda pts, zero: [mc.mat_pose(eye, [0.0 if (zero and i == nd) else x for i, x in enumerate(q)]) for q in pts]  # noqa: E731
        calls = [{"ref": flat(pr, False), "est": flat(pe, False), "unit_after": None},
                 {"ref": flat(pr, True), "est": flat(pe, True), "unit_after": None, "reuse_projected": nd}]
        yield {"kind": "hist", "rel": r.choice(["trans_part", "point_distance", "full", "trans_part"]), "mode": "mat", "calls": calls,
               "delta": r.choice([1.0, 1.5, 2.0, 3.0]), "unit": "m", "all_pairs": r.random() < 0.5, "from_ref": r.random() < 0.5,
               "tol": r.choice([0.1, 0.3])}


def gen_cases(ctx):
    yield from gen_pd_cases(ctx)
    yield from gen_hist_cases(ctx)
    yield from gen_reuse_projected_cases(ctx)
    yield from cli.gen_cli_cases(ctx, "rpe")


# ------------------------------------------------------------------------------------------------ implementation
def new_rpe(case):
    from evo.core import metrics
    return metrics.RPE(mc.pose_relation(case["rel"]), case["delta"], evo_unit(case["unit"]), case["tol"],
                       case["all_pairs"], case["from_ref"])


def run_rpe(case, ref_path, est_path, m=None):
    from evo.core import metrics, filters
    from evo.core.lie_algebra import LieAlgebraException
    try:
        m = m or new_rpe(case)
        with mc.quiet():
            m.process_data((ref_path, est_path))
    except metrics.MetricsException as e:
        s = str(e)
        return {"err": "E_METRICS:len" if "same number" in s else "E_METRICS:?" + s}
    except filters.FilterException:
        return {"err": "E_FILTER"}
    except LieAlgebraException:
        return {"err": "E_GEOMETRY"}
    except Exception as e:  # noqa: any other failure is reported, never a tool crash
        return {"err": "EXC:" + type(e).__name__}
    return {"ok": [float(v) for v in np.asarray(m.error).reshape(-1)], "ids": [int(j) for j in m.delta_ids],
            "unit": m.unit.value}


def evo_pairs(case, driving_path):
    from evo.core import metrics, filters
    try:
        with mc.quiet():
            p = metrics.id_pairs_from_delta(driving_path.poses_se3, case["delta"], evo_unit(case["unit"]), case["tol"],
                                            all_pairs=case["all_pairs"])
        return [(int(i), int(j)) for i, j in p]
    except filters.FilterException:
        return None
    except Exception as e:  # noqa (L12: reported through the comparison with process_data, never a harness crash)
        return None


def run_impl_pd(case):
    mode = case["mode"]
    fl, pre = case.get("flavour", "plain"), tuple(case.get("preread", ()))
    out = {"seen_ref": mc.twin_poses(mode, case["ref"]), "seen_est": mc.twin_poses(mode, case["est"])}
    try:
        ref, est = mc.make_path(mode, case["ref"], flavour=fl, preread=pre), mc.make_path(mode, case["est"], flavour=fl, preread=pre)
        out["res"] = run_rpe(case, ref, est)
    except Exception as e:  # noqa (L12)
        out["res"] = {"err": "EXC:" + type(e).__name__}
    n = len(case["ref"])
    if n == len(case["est"]):
        out["pairs"] = evo_pairs(case, mc.make_path(mode, case["ref"] if case["from_ref"] else case["est"]))
    else:
        out["pairs"] = []
    if "ok" in out["res"] and n == len(case["est"]) and n <= 40:
        rr = random.Random(repr(case["ref"][0]))
        exact = case["stream"] in ("grid", "corpus")
        Tq, Tp = mc.rigid_T(rr, exact), mc.rigid_T(rr, exact)
        tref = [mc.np_to_pose12(Tq @ mc.pose12_to_np(p)) for p in out["seen_ref"]]
        test = [mc.np_to_pose12(Tp @ mc.pose12_to_np(p)) for p in out["seen_est"]]
        out["moved"] = run_rpe(case, mc.make_path("mat", tref), mc.make_path("mat", test))
        out["moved_inputs"] = tref + test
        # same relative motions: estimate := Tp * reference
        same = [mc.np_to_pose12(Tp @ mc.pose12_to_np(p)) for p in out["seen_ref"]]
        out["same"] = run_rpe(case, mc.make_path("mat", out["seen_ref"]), mc.make_path("mat", same))
        out["same_inputs"] = same
    return out


def run_impl_hist(case):
    from props import C01 as P1
    m = new_rpe(case)
    outs = []
    prev = None
    for call in case["calls"]:
        if call.get("reuse_projected") is not None and prev is not None:
            from evo.core.trajectory import Plane
            ref, est = prev                       # the very objects of the previous call, projected in place
            plane = {2: Plane.XY, 1: Plane.XZ, 0: Plane.YZ}[call["reuse_projected"]]
            ref.project(plane)
            est.project(plane)
        else:
            ref, est = mc.make_path(case["mode"], call["ref"]), mc.make_path(case["mode"], call["est"])
        prev = (ref, est)
        out = {"seen_ref": mc.seen_poses(ref), "seen_est": mc.seen_poses(est)}
        out["res"] = run_rpe(case, ref, est, m)
        if "ok" in out["res"] and out["res"]["ok"]:
            P1.after_call(m, out, call.get("unit_after"))
        outs.append(out)
    # the pair selection the model takes as input is computed on fresh objects only after the whole history has run: no
    # call into evo's selection code may sit between two evaluations of the history (it would hide state kept between them)
    for call, out in zip(case["calls"], outs):
        out["pairs"] = evo_pairs(case, mc.make_path(case["mode"], call["ref"] if case["from_ref"] else call["est"])) \
            if len(call["ref"]) == len(call["est"]) else []
    return outs


def judge_hist(ctx, case, impls, outs_per_call):
    from props import C01 as P1
    rel = case["rel"]
    for k, (call, out, outs) in enumerate(zip(case["calls"], impls, outs_per_call)):
        sub = dict(case, kind="pd", stream="hist", ref=call["ref"], est=call["est"])
        del sub["calls"]
        judge_pd(ctx, sub, out, outs, report_case=case)
        res = out["res"]
        if "ok" in res and res["ok"] and out["pairs"] and len(call["ref"]) == len(call["est"]):
            P1.judge_stats(ctx, case, k, out, res["ok"], rel, call.get("unit_after"))
            native = {"trans_part": "m", "point_distance": "m", "angle_deg": "deg", "angle_rad": "rad",
                      "point_distance_error_ratio": "%"}.get(rel, "unit-less")
            if out.get("unit_before") != native:
                ctx.mismatch(case, f"call {k}: unit label after process_data is not the native unit of the relation",
                             out.get("unit_before"), native)
    ctx.count("branch", "hist-calls", len(case["calls"]))
    ctx.record(case, True)


# ------------------------------------------------------------------------------------------------ model
def pairlist(pairs):
    return " ".join([str(2 * len(pairs))] + [f"{i} {j}" for i, j in pairs])


def model_lines_pd(case, impl):
    if impl["pairs"] is None:
        return []
    a = f"{pairlist(impl['pairs'])} {mc.poselist(impl['seen_ref'])} {mc.poselist(impl['seen_est'])}"
    lines = [f"C02 rpe {case['rel']} {a}"]
    if case["rel"] in ANGLE:
        lines.append(f"C02 margin {a}")
    return lines


# ------------------------------------------------------------------------------------------------ judge
def exact_rows(case, which):
    rows = case[which]
    if case["mode"] == "mat":
        return [mc.F12(p) for p in rows]
    return [mc.exact_pose_from_quat(p) for p in rows]


def pose_of(R, t):
    return [R[0][0], R[0][1], R[0][2], t[0], R[1][0], R[1][1], R[1][2], t[1], R[2][0], R[2][1], R[2][2], t[2]]


def dist_sq(a, b):
    return sum((x - y) ** 2 for x, y in zip(mc.t_of(a), mc.t_of(b)))


def textbook_rpe(rel, qi, qj, pi, pj):
    """definition on exact rational poses (true inverses): None when the pair is to be skipped"""
    if rel == "point_distance":
        return float(abs(mc.dsqrt(dist_sq(qi, qj)) - mc.dsqrt(dist_sq(pi, pj))))
    if rel == "point_distance_error_ratio":
        dq = dist_sq(qi, qj)
        if dq == 0:
            return None
        a = mc.dsqrt(dq)
        return float(abs(a - mc.dsqrt(dist_sq(pi, pj))) / a * 100)
    qrel = pose_of(*mc.rel_true(qi, qj))
    prel = pose_of(*mc.rel_true(pi, pj))
    return mc.textbook_value(rel, mc.rel_true(qrel, prel))


def pair_tol(rel, impl, i, j, want, extra_poses=()):
    ps = [impl["seen_ref"][i], impl["seen_ref"][j], impl["seen_est"][i], impl["seen_est"][j]] + list(extra_poses)
    extra = 1.0
    if rel == "point_distance_error_ratio":
        d = mc.fsqrt(dist_sq(mc.F12(impl["seen_ref"][i]), mc.F12(impl["seen_ref"][j])))
        extra = 100.0 / d if d > 0 else 1.0
    return mc.tolerance(rel, ps, want, extra)


def frame_pairs(n, delta, all_pairs):
    """pairs for delta unit frames, from the documentation: consecutive = (0,d),(d,2d),…; all pairs = (i,i+d)"""
    d = int(delta)
    if all_pairs:
        return [(i, i + d) for i in range(0, n - d)]
    ids = list(range(0, n, d))
    return list(zip(ids, ids[1:]))


def judge_pd(ctx, case, impl, outs, report_case=None):
    rc = report_case or case
    rel = case["rel"]
    res = impl["res"]
    n_ref, n_est = len(case["ref"]), len(case["est"])
    pairs = impl["pairs"]
    borderline = False
    if rel in ANGLE and len(outs) > 1 and n_ref == n_est:
        borderline = core.parse_rat(outs[1]) < Fraction(1, 10 ** 10)
    # ---- correspondence
    if pairs is None:
        if res.get("err") != "E_FILTER":
            ctx.mismatch(rc, "id_pairs_from_delta refuses but RPE.process_data does not", res.get("err", "values"), "E_FILTER")
        ctx.count("branch", "no-pairs")
    elif borderline:
        ctx.skipped += 1
    else:
        m_out = outs[0]
        if "err" in res or not m_out.startswith("OK"):
            if res.get("err") != m_out:
                ctx.mismatch(rc, "RPE.process_data refusal differs from Rpe.rpe", res.get("err", "values"), m_out[:40])
            ctx.count("branch", "refused:" + m_out if not m_out.startswith("OK") else "model-ok-impl-refused")
        else:
            head, _, tail = m_out.partition("|")
            h = head.split()
            ids = [int(x) for x in h[2:]]
            toks = tail.split()
            if ids != res["ids"]:
                ctx.mismatch(rc, "RPE.delta_ids differ from the model", res["ids"][:20], ids[:20])
            elif len(toks) != len(res["ok"]):
                ctx.mismatch(rc, "number of RPE values differs from the model", len(res["ok"]), len(toks))
            else:
                kept = pairs
                if rel == "point_distance_error_ratio":
                    kept = [p for p, keep in zip(pairs, kept_mask(impl, pairs)) if keep]
                for k, (v, tok) in enumerate(zip(res["ok"], toks)):
                    mv = mc.value_of_core(tok)
                    i, j = kept[k]
                    if not abs(v - mv) <= pair_tol(rel, impl, i, j, mv):
                        ctx.mismatch(rc, f"RPE value {k} (pair {i},{j}) differs from the model core ({rel})", v, mv)
                        break
                ctx.count("branch", "values:" + rel)
                if len(kept) < len(pairs):
                    ctx.count("branch", "ratio-zero-reference-skipped")
    # ---- oracle
    if n_ref != n_est:
        if "ok" in res:
            ctx.fail(rc, "refuses-unequal-lengths", f"{n_ref} reference vs {n_est} estimate poses gave {len(res['ok'])} values")
    elif "ok" in res and pairs is not None:
        vals, ids = res["ok"], res["ids"]
        if case["unit"] == "f":
            want_pairs = frame_pairs(n_ref, case["delta"], case["all_pairs"])
            if want_pairs != pairs:
                ctx.notes["frame-pairs-differ"] = ctx.notes.get("frame-pairs-differ", 0) + 1
            else:
                ctx.count("branch", "oracle-own-frame-pairs")
        if len(vals) != len(ids):
            ctx.fail(rc, "ids-and-values-same-length", f"{len(vals)} values, {len(ids)} delta_ids")
        else:
            ref, est = exact_rows(case, "ref"), exact_rows(case, "est")
            want = []
            for (i, j) in pairs:
                w = textbook_rpe(rel, ref[i], ref[j], est[i], est[j])
                if w is not None:
                    want.append((i, j, w))
            if [j for _, j, _ in want] != ids:
                ctx.fail(rc, "delta-ids-are-pair-ends", f"delta_ids {ids[:12]} expected {[j for _, j, _ in want][:12]}")
            elif len(want) != len(vals):
                ctx.fail(rc, "one-value-per-pair", f"{len(vals)} values for {len(want)} pairs")
            else:
                for k, (i, j, w) in enumerate(want):
                    tol = 4 * pair_tol(rel, impl, i, j, w)
                    if not abs(vals[k] - w) <= tol:
                        ctx.fail(rc, "value-equals-definition",
                                 f"{rel}: pair {k} ({i},{j}): evo {vals[k]!r}, definition {w!r} (tol {tol:.3g})")
                        break
            consistent = [j for _, j, _ in want] == ids and len(want) == len(vals)
            for name, clause in (("moved", "unchanged-under-separate-rigid-motions"), ("same", "zero-for-same-relative-motion")):
                o = impl.get(name)
                if o is None or case["unit"] != "f" or not consistent:      # (inconsistent pair lists are reported above)
                    continue
                if name == "same" and rel == "point_distance_error_ratio":
                    # zero-distance pairs are skipped on both sides: lengths still equal
                    pass
                if "ok" not in o or o["ids"] != ids or len(o["ok"]) != len(vals):
                    ctx.fail(rc, clause, f"{name}: {str(o)[:200]}")
                    continue
                kept = [(i, j) for i, j, _ in want]
                for k, (i, j) in enumerate(kept):
                    if name == "moved":
                        extra = [impl["moved_inputs"][i], impl["moved_inputs"][j], impl["moved_inputs"][n_ref + i],
                                 impl["moved_inputs"][n_ref + j]]
                        w = vals[k]
                    else:
                        extra = [impl["same_inputs"][i], impl["same_inputs"][j]]
                        w = 0.0
                    tol = 8 * pair_tol(rel, impl, i, j, w, extra)
                    if not abs(o["ok"][k] - w) <= tol:
                        ctx.fail(rc, clause, f"{rel}: pair ({i},{j}): {o['ok'][k]!r} vs {w!r} (tol {tol:.3g})")
                        break
    # ---- bookkeeping
    ctx.count("dist", f"pd:{case['stream']}:{case['mode']}")
    ctx.count("dist", "rel:" + rel)
    ctx.count("dist", f"unit:{case['unit']}:{'all' if case['all_pairs'] else 'consecutive'}:{'ref' if case['from_ref'] else 'est'}")
    nontrivial = ("err" in res) or (sum(1 for v in res.get("ok", []) if v != 0.0) >= 2) or \
                 (pairs is not None and "ok" in res and len(res["ok"]) < len(pairs))
    ctx.record(rc if report_case is None else case, nontrivial)


def kept_mask(impl, pairs):
    return [dist_sq(mc.F12(impl["seen_ref"][i]), mc.F12(impl["seen_ref"][j])) != 0 for i, j in pairs]


def shrink(case):
    if case["kind"] == "hist":
        if len(case["calls"]) > 2:
            for k in range(len(case["calls"])):
                c = dict(case)
                c["calls"] = case["calls"][:k] + case["calls"][k + 1:]
                yield c
        return
    if case["kind"] != "pd":
        yield from cli.shrink(case)
        return
    n = min(len(case["ref"]), len(case["est"]))
    if n > 2:
        for k in range(n):
            c = dict(case)
            c["ref"] = case["ref"][:k] + case["ref"][k + 1:]
            c["est"] = case["est"][:k] + case["est"][k + 1:]
            yield c
    if case["all_pairs"]:
        c = dict(case)
        c["all_pairs"] = False
        yield c


def evaluate(ctx, cases):
    pd = [c for c in cases if c["kind"] == "pd"]
    impls = [run_impl_pd(c) for c in pd]
    lines, spans = [], []
    for c, im in zip(pd, impls):
        l = model_lines_pd(c, im)
        spans.append((len(lines), len(lines) + len(l)))
        lines += l
    outs = core.run_driver(lines, "C02")
    for c, im, (a, b) in zip(pd, impls, spans):
        try:
            judge_pd(ctx, c, im, outs[a:b])
        except Exception as e:  # noqa: BLE001 -- what evo returned could not even be judged: a finding about this case, never a tool error
            ctx.fail(c, "output-cannot-be-judged", f"the harness could not judge what evo returned: {type(e).__name__}: {str(e)[:200]}")
    hist = [c for c in cases if c["kind"] == "hist"]
    himpls = [run_impl_hist(c) for c in hist]
    lines, spans = [], []
    for c, ims in zip(hist, himpls):
        sp = []
        for im in ims:
            l = model_lines_pd(c, im)
            sp.append((len(lines), len(lines) + len(l)))
            lines += l
        spans.append(sp)
    outs = core.run_driver(lines, "C02")
    for c, ims, sp in zip(hist, himpls, spans):
        judge_hist(ctx, c, ims, [outs[a:b] for a, b in sp])
    cli.evaluate(ctx, [c for c in cases if c["kind"] == "cli"], "rpe")


OPEN = ["float rounding of evo's evaluation: values agree with the exact definition within 64*2^-53*(max|input|+|result|), checked per case, not proved",
        "the pair selection is property C10: the model takes evo's id_pairs_from_delta output as an input (for delta unit frames the oracle also derives the pairs itself)",
        "scipy's rotation-vector code is not modelled: its angle is compared with atan2(sqrt(s2), c) of the model's rational core",
        "a reference distance below ~1e-162 m underflows to 0.0 in float but is non-zero in the model (not generated)",
        "CLI inside the model (Pipeline.rpeRun): parameters, not computed: Umeyama triple (C03), projected directions (C14), distances/angles compared by the motion filter (C11) and by the pair selection (C10); file readers are C06/C07"]


def check(ctx):
    lean = core.lean_side(ctx.prop, ctx.tier)
    core.drift(ctx, MODELLED)
    cli.check_tables(ctx, "rpe")
    cases = list(gen_cases(ctx))
    evaluate(ctx, cases)
    core.shrink_all(ctx, shrink, evaluate)
    return core.finish(ctx, lean, rule=RULE, open_clauses=OPEN,
                       assumptions=["pose matrices are SE(3) up to float rounding",
                                    "pair indices are within the trajectories (true of id_pairs_from_delta's output)"])


def replay(ctx, data):
    core.sh("lake build drv_C02", cwd=core.LEAN)
    evaluate(ctx, [data["case"]])
    return core.finish_replay(ctx)
