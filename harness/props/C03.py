"""C03 — Umeyama alignment (evo/core/geometry.py: umeyama_alignment).
Model + certificate: lean/EvoModel/Model/Umeyama.lean; theorems: Props/C03.lean.

Correspondence: evo's float output (R, t, c), read as exact rationals, must pass the executable
certificate `umeCert ε` (ε = 2^-30, relative) evaluated by the driver on the exact inputs; the
refusal decision is compared exactly on the exactly degenerate classes and on well-conditioned
inputs; t and c are compared with the model's rational formulas at a few ulps.
Oracle (independent of evo and of the model): properness, positive scale / exactly 1, residual
not larger than Horn's quaternion optimum nor than random perturbations in SO(3)xR^3xR_+,
noise-free recovery, equivariance under similarity + permutation, refusal of the degenerate classes.
"""
import json
import math
import zlib
import numpy as np
import core
from core import Fraction, frac, rat

MODELLED = ["evo/core/geometry.py:umeyama_alignment", "evo/core/trajectory.py:PosePath3D.align"]
EPS_CERT = Fraction(1, 2 ** 30)
EPS_C = 2.0 ** -40
LD = np.longdouble

RULE = ("cases = (x, y, with_scale) with x,y 3xn float arrays; streams: generic / noisy (0-100% of extent) / mirrored "
        "(optimal orthogonal map is a reflection) / route: direct call or through PosePath3D.align on all poses / structured sizes n in {1..4, 2^k-1, 2^k, 2^k+1 (k<=11), 1000, 2000} / planar (rank 2) / large offsets (1e6) / scales 1e-3..1e6 / exact "
        "integer grid / degenerate (unequal sizes, coincident, one coordinate axis, collinear off-axis, n<=2); evo's "
        "(R,t,c) as exact rationals must pass umeCert eps=2^-30 in the driver, refusal decisions compared exactly on "
        "degenerate classes and well-conditioned inputs; non-trivial = result returned on noisy/mirrored/planar data "
        "or refusal of a degenerate class; distinct by content hash")


# ----------------------------------------------------------------------------- generators
def rand_rot(r):
    q = np.array([r.gauss(0, 1) for _ in range(4)])
    q /= np.linalg.norm(q)
    w, x, y, z = q
    return np.array([[1 - 2 * (y * y + z * z), 2 * (x * y - z * w), 2 * (x * z + y * w)],
                     [2 * (x * y + z * w), 1 - 2 * (x * x + z * z), 2 * (y * z - x * w)],
                     [2 * (x * z - y * w), 2 * (y * z + x * w), 1 - 2 * (x * x + y * y)]])


def small_rot(r, ang):
    ax = np.array([r.gauss(0, 1) for _ in range(3)])
    ax /= np.linalg.norm(ax) or 1.0
    K = np.array([[0, -ax[2], ax[1]], [ax[2], 0, -ax[0]], [-ax[1], ax[0], 0]])
    return np.eye(3) + math.sin(ang) * K + (1 - math.cos(ang)) * (K @ K)


GRID_ROTS = None


def grid_rots():
    global GRID_ROTS
    if GRID_ROTS is None:
        out = []
        import itertools
        for perm in itertools.permutations(range(3)):
            for signs in itertools.product([1, -1], repeat=3):
                m = np.zeros((3, 3))
                for i in range(3):
                    m[i, perm[i]] = signs[i]
                out.append(m)
        GRID_ROTS = out
    return GRID_ROTS


def logu(r, lo, hi):
    return 10 ** r.uniform(math.log10(lo), math.log10(hi))


def mk(kind, x, y, ws, **meta):
    c = {"kind": kind, "ws": bool(ws), "x": [list(map(float, p)) for p in np.asarray(x).T],
         "y": [list(map(float, p)) for p in np.asarray(y).T]}
    c.update(meta)
    return c


def gen_cases(ctx):
    r = ctx.rng
    nmax = 300 if not ctx.thorough else 2000
    budget = 260 if not ctx.thorough else 2600
    # ---- corpus / hand-made cases first
    sq = np.array([[0., 1, 1, 0, 0.5], [0, 0, 1, 1, 0.25], [0, 0, 0, 0, 0]])
    yield mk("planar", sq, np.diag([1., 1, 1]) @ sq, False, corpus="planar-identity", noise_free=True,
             R0=np.eye(3).tolist(), t0=[0., 0, 0], c0=1.0)
    yield mk("mirrored", np.array([[1., 0, 0, 2], [0, 1, 0, 1], [0, 0, 1, 3]]),
             np.array([[1., 0, 0, 2], [0, 1, 0, 1], [0, 0, -1, -3]]), True, corpus="mirror-z")
    yield mk("degenerate", np.zeros((3, 4)), np.array([[1., 2, 3, 4], [0, 1, 0, 2], [1, 1, 0, 0]]), False,
             corpus="coincident-x", deg="coincident")
    yield mk("degenerate", np.array([[1., 2, 3, 5], [0, 0, 0, 0], [0, 0, 0, 0]]),
             np.array([[1., 2, 3, 4], [0, 1, 0, 2], [1, 1, 0, 0]]), True, corpus="axis-x", deg="axis")
    yield mk("degenerate", np.array([[1., 2, 3], [0, 1, 0], [0, 0, 1]]), np.array([[1., 2], [0, 1], [0, 0]]), False,
             corpus="shape", deg="shape")
    yield mk("degenerate", np.array([[-1., 1, 1], [1, 1, 0], [1, 0, -2]]), np.array([[0., 0, 0], [1, -2, -3], [0, 0, 0]]), False,
             corpus="F12: axis-y input was not refused before the F12 fix (absolute eps in the rank test)", deg="axis")
    yield mk("degenerate", np.repeat(np.array([[0.1], [0.2], [0.3]]), 7, axis=1),
             np.array([[1., 2, 3, 4, 0, 1, 5], [0, 1, 0, 2, 7, 1, 1], [1, 1, 0, 0, 2, 3, 9]]), False,
             corpus="coincident non-dyadic x (float mean inexact): needs the absolute floor of the rank test", deg="coincident")
    yield mk("sentinel", SENT_X, SENT_Y, False, corpus="L2 sentinel input (re-evaluated after every case)")
    yield mk("sentinel", SENT_X, SENT_Y, True, corpus="L2 sentinel input (re-evaluated after every case)")
    # ---- L2, systematic order: reflection case -> ordinary case -> reflection case -> planar case ... in one process
    for j in range(6):
        n = r.randint(4, 20)
        x = np.array([[r.gauss(0, 1) * a for _ in range(n)] for a in (3.0, 2.0, 1.0)])
        Rm = rand_rot(r)
        y = Rm @ np.diag([1.0, 1.0, -1.0]) @ x + np.array([[r.gauss(0, 0.05) for _ in range(n)] for _ in range(3)])
        yield mk("mirrored", rand_rot(r) @ x, y, j % 2 == 0, order="reflection-then-ordinary")
        if j % 2 == 0:
            y2 = 1.5 * (Rm @ x) + np.array([[r.gauss(0, 0.1) for _ in range(n)] for _ in range(3)])
            yield mk("noisy", x, y2, j % 4 == 0, noise=0.05, order="ordinary-after-reflection")
        else:
            xp = np.array([[r.gauss(0, 1) for _ in range(n)], [r.gauss(0, 1) for _ in range(n)], [0.0] * n])
            yield mk("planar", xp, Rm @ xp + np.array([[1.0], [2.0], [3.0]]), False, sub="exact", order="planar-after-reflection")
    # ---- L3: array flavours of the same kind of data (values, hence expected results, unchanged)
    for fl in FLAVOURS:
        for ws in (False, True):
            if fl in ("int", "float32"):
                if fl == "float32" and ws:
                    continue      # float32 variance is only accurate to 1e-7: outside the 2^-30 certificate; rigid mode is exact here
                n = r.choice([4, 8])
                x = np.array([[float(r.randint(-6, 6)) for _ in range(n)] for _ in range(3)])
                G = r.choice(grid_rots())
                y = (2.0 if ws else 1.0) * (G @ x) + np.array([[float(r.randint(-8, 8))] for _ in range(3)])
                y[r.randrange(3), r.randrange(n)] += r.choice([1.0, -1.0])
                if fl == "float32":   # keep the float32 means exact: coordinate sums divisible by n
                    x[:, 0] -= x.sum(axis=1) % n
                    y[:, 0] -= y.sum(axis=1) % n
                yield mk("grid", x, y, ws, flavour=fl)
            else:
                n = r.randint(5, 40)
                x = np.array([[r.gauss(0, 1) * 5 * a for _ in range(n)] for a in (1.0, 0.6, 0.3)]) + 20.0
                R0 = rand_rot(r)
                y = (1.7 if ws else 1.0) * (R0 @ x) + np.array([[r.gauss(0, 0.5) for _ in range(n)] for _ in range(3)])
                if fl == "same-object":
                    y = x
                yield mk("noisy", x, y, ws, noise=0.1, flavour=fl, ws_as=r.choice(["bool", "int", "np.bool_"]))
    # ---- structured sizes: every run sees n in {1,2,3,4, 2^k-1, 2^k, 2^k+1 (k=2..11), 1000, 2000} on noisy data
    # (one dropped / doubled pair changes the optimum), both scale modes (large sizes: alternating in the quick tier)
    grid = sorted(set([1, 2, 3, 4, 1000, 2000] + [2 ** k + d for k in range(2, 12) for d in (-1, 0, 1)]))
    for idx, n in enumerate(grid):
        both = ctx.thorough or n <= 257 or n in (513, 1025)
        for ws in ([False, True] if both else [bool((idx + ctx.seed) % 2)]):
            ext = logu(r, 1e-1, 1e2)
            x = np.array([[r.gauss(0, 1) * ext * a for _ in range(n)] for a in (1.0, 0.7, 0.4)])
            x = rand_rot(r) @ x + np.array([[r.gauss(0, 1) * ext] for _ in range(3)])
            R0, c0 = rand_rot(r), (logu(r, 0.1, 10) if ws else 1.0)
            lvl = r.choice([0.05, 0.2, 0.5])
            y = c0 * (R0 @ x) + np.array([[r.gauss(0, 1) * ext] for _ in range(3)]) \
                + np.array([[r.gauss(0, 1) * ext * c0 * lvl for _ in range(n)] for _ in range(3)])
            yield mk("sized", x, y, ws, noise=lvl, size_grid=True)
    # ---- nearly aligned sets far from the origin (ECEF / UTM-like coordinates, every coordinate large): y is x rotated about
    # the common centre by 5..90 degrees plus a small shift; x and y agree to ~1e-5 *relatively* although they are metres
    # apart (an "already aligned" shortcut with a relative tolerance would return the identity)
    for j in range(10 if not ctx.thorough else 60):
        n = r.randint(4, 40)
        o = np.array([[r.choice([-1, 1]) * r.uniform(2e5, 7e6)] for _ in range(3)])
        if j % 3 == 2:
            o[2, 0] = r.uniform(0, 500.0)          # UTM-like: small height
        ext2 = r.choice([1.0, 3.0, 10.0])
        loc = np.array([[r.gauss(0, 1) * ext2 * a for _ in range(n)] for a in (1.0, 0.8, 0.5)])
        Rc = small_rot(r, math.radians(r.uniform(5, 90)))
        ws = j % 2 == 0
        c0 = r.uniform(0.9, 1.1) if ws else 1.0
        y = c0 * (Rc @ loc) + o + np.array([[r.uniform(-1, 1)] for _ in range(3)])
        yield mk("near-aligned", loc + o, y, ws, noise=0.0, rot_about_centre=True)
    # ---- thin but well-determined sets far from the origin: a nearly straight stretch of road (200 m long, centimetres of
    # lateral / vertical deviation: second singular value ~1e-7 of the first, far above rounding) in UTM/ECEF-like
    # coordinates; the rotation is determined, so the input must be aligned, not refused (the rank test is relative to
    # the spread of the data, not to the size of the coordinates)
    for j in range(6 if not ctx.thorough else 40):
        n = r.randint(20, 60)
        along = sorted(r.uniform(0, 200.0) for _ in range(n))
        loc = np.array([along, [r.gauss(0, 0.02) for _ in range(n)], [r.gauss(0, 0.01) for _ in range(n)]])
        o = np.array([[r.choice([-1, 1]) * r.uniform(2e5, 7e6)] for _ in range(3)])
        x = rand_rot(r) @ loc + o
        ws = j % 2 == 1
        c0 = r.uniform(0.5, 2.0) if ws else 1.0
        y = c0 * (rand_rot(r) @ (x - o)) + np.array([[r.choice([-1, 1]) * r.uniform(1e5, 5e6)] for _ in range(3)])
        yield mk("thin-offset", x, y, ws, noise=0.0)
    kinds = ["generic", "generic", "noisy", "noisy", "mirrored", "mirrored", "planar", "planar", "offset", "scales",
             "grid", "degenerate", "collinear", "tiny-n", "independent"]
    for k in range(budget):
        kind = kinds[k % len(kinds)]
        ws = r.random() < 0.5
        big = r.random() < (0.04 if not ctx.thorough else 0.03)
        n = r.randint(3, 12) if r.random() < 0.4 else r.randint(3, 60)
        if big:
            n = r.randint(nmax // 2, nmax)
        ext = logu(r, 1e-2, 1e3) if kind != "scales" else logu(r, 1e-3, 1e6)
        x = np.array([[r.gauss(0, 1) * ext * a for _ in range(n)] for a in (1.0, r.uniform(0.2, 1), r.uniform(0.05, 1))])
        x = rand_rot(r) @ x + np.array([[r.gauss(0, 1) * ext] for _ in range(3)])
        R0 = rand_rot(r)
        c0 = 1.0 if (not ws and r.random() < 0.7) else (logu(r, 1e-3, 1e6) if kind == "scales" else logu(r, 1e-2, 1e2))
        t0 = np.array([r.gauss(0, 1) * ext * max(c0, 1.0) for _ in range(3)])
        meta = {"R0": R0.tolist(), "t0": t0.tolist(), "c0": c0}
        if kind == "generic":
            y = c0 * (R0 @ x) + t0[:, None]
            yield mk(kind, x, y, ws, noise_free=True, **meta)
        elif kind == "noisy":
            lvl = r.choice([1e-6, 1e-3, 0.01, 0.1, 0.5, 1.0])
            y = c0 * (R0 @ x) + t0[:, None] + np.array([[r.gauss(0, 1) * ext * c0 * lvl for _ in range(n)] for _ in range(3)])
            yield mk(kind, x, y, ws, noise=lvl, **meta)
        elif kind == "mirrored":
            F = R0 @ np.diag([1.0, 1.0, -1.0]) @ rand_rot(r)
            lvl = r.choice([0.0, 1e-3, 0.05, 0.3])
            y = c0 * (F @ x) + t0[:, None] + np.array([[r.gauss(0, 1) * ext * c0 * lvl for _ in range(n)] for _ in range(3)])
            yield mk(kind, x, y, ws, noise=lvl)
        elif kind == "planar":
            P = rand_rot(r) if r.random() < 0.6 else np.eye(3)
            xp = np.array([[r.gauss(0, 1) * ext for _ in range(n)], [r.gauss(0, 1) * ext for _ in range(n)], [0.0] * n])
            off = np.array([[r.gauss(0, 1) * ext] for _ in range(3)]) if r.random() < 0.5 else np.zeros((3, 1))
            x = P @ xp + off
            sub = r.choice(["exact", "exact", "inplane-noise", "mirror", "noise"])
            if sub == "exact":
                y = c0 * (R0 @ x) + t0[:, None]
                yield mk(kind, x, y, ws, sub=sub, noise_free=bool(np.allclose(P, np.eye(3)) and not off.any()), **meta)
            elif sub == "inplane-noise":
                nz = np.array([[r.gauss(0, 1) * ext * 0.1 for _ in range(n)], [r.gauss(0, 1) * ext * 0.1 for _ in range(n)], [0.0] * n])
                y = c0 * (R0 @ (x + P @ nz)) + t0[:, None]
                yield mk(kind, x, y, ws, sub=sub)
            elif sub == "mirror":
                y = c0 * (R0 @ (P @ (np.diag([1.0, -1.0, 1.0]) @ xp) + off)) + t0[:, None]
                yield mk(kind, x, y, ws, sub=sub)
            else:
                y = c0 * (R0 @ x) + t0[:, None] + np.array([[r.gauss(0, 1) * ext * c0 * 0.2 for _ in range(n)] for _ in range(3)])
                yield mk(kind, x, y, ws, sub=sub)
        elif kind == "offset":
            o = np.array([[r.uniform(-1, 1) * 1e6] for _ in range(3)])
            ext2 = r.choice([1.0, 10.0, 100.0])
            x = np.array([[r.gauss(0, 1) * ext2 for _ in range(n)] for _ in range(3)]) + o
            lvl = r.choice([0.0, 0.01, 0.3])
            t0 = np.array([r.uniform(-1, 1) * 1e6 for _ in range(3)])
            y = c0 * (R0 @ x) + t0[:, None] + np.array([[r.gauss(0, 1) * ext2 * c0 * lvl for _ in range(n)] for _ in range(3)])
            yield mk(kind, x, y, ws, noise=lvl)
        elif kind == "scales":
            lvl = r.choice([0.0, 0.01, 0.2])
            y = c0 * (R0 @ x) + t0[:, None] + np.array([[r.gauss(0, 1) * ext * c0 * lvl for _ in range(n)] for _ in range(3)])
            yield mk(kind, x, y, ws, noise=lvl, c0=c0)
        elif kind == "grid":
            n = r.randint(3, 9)
            x = np.array([[float(r.randint(-6, 6)) for _ in range(n)] for _ in range(3)])
            G = r.choice(grid_rots())   # 24 rotations and 24 reflections
            s = r.choice([1.0, 2.0, 0.5, 4.0]) if ws else 1.0
            y = s * (G @ x) + np.array([[float(r.randint(-8, 8))] for _ in range(3)])
            if r.random() < 0.5:
                y[r.randrange(3), r.randrange(n)] += r.choice([1.0, -1.0, 0.5])
            yield mk(kind, x, y, ws, det=float(round(np.linalg.det(G))))
        elif kind == "degenerate":
            deg = r.choice(["shape", "coincident", "coincident", "axis", "axis"])
            y = c0 * (R0 @ x) + t0[:, None]
            which = r.choice(["x", "y"])
            exact = r.random() < 0.5
            if deg == "shape":
                cut = r.randint(1, n - 1)
                if which == "x":
                    x = x[:, :cut]
                else:
                    y = y[:, :cut]
            elif deg == "coincident":
                p = np.array([[float(r.randint(-9, 9))] for _ in range(3)]) if exact else \
                    np.array([[r.gauss(0, 1) * ext] for _ in range(3)])
                if which == "x":
                    x = np.repeat(p, n, axis=1)
                else:
                    y = np.repeat(p, n, axis=1)
            else:
                ax = r.randrange(3)
                vals = [float(r.randint(-20, 20)) for _ in range(n)] if exact else [r.gauss(0, 1) * ext for _ in range(n)]
                if len(set(vals)) < 2:
                    vals[0] += 1.0
                a = np.zeros((3, n))
                a[ax] = vals
                if which == "x":
                    x = a
                else:
                    y = a
            yield mk(kind, x, y, ws, deg=deg, which=which)
        elif kind == "collinear":
            d = np.array([r.gauss(0, 1) for _ in range(3)])
            o = np.array([r.gauss(0, 1) * ext for _ in range(3)])
            x = o[:, None] + d[:, None] * np.array([[r.gauss(0, 1) * ext for _ in range(n)]])
            if r.random() < 0.5:   # nearly collinear
                x = x + np.array([[r.gauss(0, 1) * ext * 1e-9 for _ in range(n)] for _ in range(3)])
            y = c0 * (R0 @ x) + t0[:, None]
            yield mk(kind, x, y, ws)
        elif kind == "tiny-n":
            n = r.choice([1, 2, 2, 3])
            x = np.array([[r.gauss(0, 1) * ext for _ in range(n)] for _ in range(3)])
            y = c0 * (R0 @ x) + t0[:, None]
            yield mk(kind, x, y, ws, noise_free=(n >= 3), **meta)
        else:   # independent: y unrelated to x (100 % noise)
            y = np.array([[r.gauss(0, 1) * ext * c0 for _ in range(n)] for _ in range(3)]) + t0[:, None]
            yield mk(kind, x, y, ws)


# ----------------------------------------------------------------------------- implementation
class _LinalgProxy:
    def __init__(self, la, log):
        self._la, self._log = la, log

    def __getattr__(self, k):
        return getattr(self._la, k)

    def det(self, a):
        d = self._la.det(a)
        self._log.append(float(d))
        return d


class _NpProxy:
    """numpy seen by evo.core.geometry during one call: records the determinants it takes
    (the product det(u)·det(v) decides the reflection branch); everything else is forwarded."""
    def __init__(self, log):
        self.linalg = _LinalgProxy(np.linalg, log)

    def __getattr__(self, k):
        return getattr(np, k)


def _via_align(x, y, ws, route="align"):
    """the same point sets handed to Umeyama through evo's trajectory API (`PosePath3D.align`, all poses): the triple it
    returns is the one umeyama_alignment computed; unequal sizes must be refused on this route too (never truncated)."""
    from evo.core.trajectory import PosePath3D
    ident = lambda n: np.tile(np.array([1.0, 0.0, 0.0, 0.0]), (n, 1))
    est = PosePath3D(positions_xyz=np.array(x, dtype=float).T.copy(), orientations_quat_wxyz=ident(x.shape[1]))
    ref = PosePath3D(positions_xyz=np.array(y, dtype=float).T.copy(), orientations_quat_wxyz=ident(y.shape[1]))
    if route == "align-scale-only":
        # scale-only mode (evo_ape -s without -a): the returned triple is still Umeyama's (with scale); degenerate sets refused
        return est.align(ref, correct_scale=True, correct_only_scale=True)
    return est.align(ref, correct_scale=bool(ws))


def call_evo(x, y, ws, probe=False, route="direct"):
    from evo.core import geometry
    log = []
    if probe:
        saved = geometry.np
        geometry.np = _NpProxy(log)
    try:
        try:
            r, t, c = _via_align(x, y, ws, route) if route.startswith("align") else geometry.umeyama_alignment(x, y, ws)
            out = {"R": np.array(r, dtype=float).reshape(3, 3).tolist(), "t": np.array(t, dtype=float).reshape(3).tolist(),
                   "c": float(c), "c_is_float": isinstance(c, float) or isinstance(c, np.floating)}
            if not (np.isfinite(np.array(out["R"])).all() and np.isfinite(np.array(out["t"])).all() and math.isfinite(out["c"])):
                out = {"err": "NONFINITE", "msg": f"non-finite result R={out['R']} t={out['t']} c={out['c']}"[:200]}
        except geometry.GeometryException as e:
            out = {"err": "E_GEOMETRY", "msg": str(e)[:60]}
        except Exception as e:   # anything else is not "evo's geometry error"
            out = {"err": "CRASH", "msg": f"{type(e).__name__}: {e}"[:120]}
    finally:
        if probe:
            geometry.np = saved
    if probe and len(log) >= 2:
        out["refl_branch"] = bool(log[0] * log[1] < 0.0)
    return out


FLAVOURS = ["T-view", "C", "strided", "readonly", "same-object", "shared-base", "int", "float32"]


def arrays(case):
    """the arrays handed to evo. Default: the transposed view of an n×3 array (what `positions_xyz.T` is for evo's own
    callers: Fortran-ordered, not C-contiguous). Other flavours (L3): C-contiguous copy, strided view into a wider base,
    read-only, one object in both slots, two views of one base array, int64 / float32 dtype (exact-grid data only)."""
    fl = case.get("flavour", "T-view")
    x = np.array(case["x"], dtype=float).T.reshape(3, -1) if case["x"] else np.zeros((3, 0))
    y = np.array(case["y"], dtype=float).T.reshape(3, -1) if case["y"] else np.zeros((3, 0))
    if fl == "C":
        x, y = np.ascontiguousarray(x), np.ascontiguousarray(y)
    elif fl == "strided":
        bx, by = np.full((3, 2 * x.shape[1] + 1), 7.5), np.full((6, y.shape[1]), -3.25)
        bx[:, 1::2] = x
        by[::2, :] = y
        x, y = bx[:, 1::2], by[::2, :]
    elif fl == "readonly":
        x, y = x.copy(), y.copy()
        x.setflags(write=False)
        y.setflags(write=False)
    elif fl == "same-object":
        y = x
    elif fl == "shared-base":
        base = np.vstack([x, y]) if x.shape == y.shape else None
        if base is not None:
            x, y = base[:3], base[3:]
    elif fl == "int":
        x, y = x.astype(np.int64), y.astype(np.int64)
    elif fl == "float32":
        x, y = x.astype(np.float32), y.astype(np.float32)
    return x, y


# L2: a fixed ordinary input, evaluated once before anything else in this process and again after *every* case: a
# call must not depend on what was computed before it (module-level caches, shared scratch arrays, mutated defaults).
SENT_X = np.array([[0.0, 1.0, 0.0, 0.0, 1.0, 2.0], [0.0, 0.0, 2.0, 0.0, 1.0, 1.0], [0.0, 0.0, 0.0, 3.0, 1.0, 0.5]])
SENT_Y = np.array([[1.0, 1.2, -3.1, 1.0, -0.9, -1.0], [2.0, 4.1, 2.0, 2.2, 4.0, 6.1], [3.0, 3.0, 3.1, 9.0, 5.1, 4.0]])
_SENT_BASE = {}


def sentinel():
    with np.errstate(all="ignore"):
        return {ws: call_evo(SENT_X.copy(), SENT_Y.copy(), ws) for ws in (False, True)}


def run_impl(case):
    if not _SENT_BASE:
        _SENT_BASE.update(sentinel())
    x, y = arrays(case)
    bx, by = x.tobytes(), y.tobytes()
    ws = case["ws"]
    if case.get("ws_as") == "int":
        ws = int(ws)
    elif case.get("ws_as") == "np.bool_":
        ws = np.bool_(ws)
    with np.errstate(all="ignore"):
        out = call_evo(x, y, ws, probe=True, route=case.get("route", "direct"))
    out["inputs_unchanged"] = x.tobytes() == bx and y.tobytes() == by
    after = sentinel()
    diff = [ws_ for ws_ in (False, True) if after[ws_] != _SENT_BASE[ws_]]
    if diff:
        out["sentinel_changed"] = {"with_scale": diff, "before": {str(k): _SENT_BASE[k] for k in diff},
                                   "after": {str(k): after[k] for k in diff}}
    return out


# ----------------------------------------------------------------------------- driver lines
def pts(a):
    """3xn array -> length-prefixed flat list x1 y1 z1 x2 …"""
    flat = [v for p in a for v in p]
    return " ".join([str(len(flat))] + [rat(v) for v in flat])


def model_lines(case, impl):
    X, Y = pts(case["x"]), pts(case["y"])
    lines = []
    if "R" not in impl:
        lines.append(f"C03 refuse {X} {Y}")     # a returned result gets its refusal class from the umecert line
    else:
        Rs = " ".join(rat(v) for row in impl["R"] for v in row)
        ts = " ".join(rat(v) for v in impl["t"])
        lines.append(f"C03 umecert {rat(EPS_CERT)} {1 if case['ws'] else 0} {X} {Y} {Rs} {ts} {rat(impl['c'])}")
        lines.append(f"C03 formulas {X} {Y} {Rs} {rat(impl['c'])}")
        q = quat_hint(np.array(impl["R"]))
        lines.append(f"C03 approx {1 if case['ws'] else 0} {X} {Y} {Rs} {ts} {rat(impl['c'])} " + " ".join(rat(v) for v in q))
    return lines


def quat_hint(m):
    """float quaternion (w,x,y,z) of a near-rotation matrix (Shepperd); only a hint: the driver builds the
    exact rational rotation of whatever non-zero quaternion it is given"""
    t = m[0, 0] + m[1, 1] + m[2, 2]
    if t > 0:
        s = math.sqrt(max(t + 1.0, 1e-300)) * 2
        q = [0.25 * s, (m[2, 1] - m[1, 2]) / s, (m[0, 2] - m[2, 0]) / s, (m[1, 0] - m[0, 1]) / s]
    else:
        i = int(np.argmax(np.diag(m)))
        j, k = (i + 1) % 3, (i + 2) % 3
        s = math.sqrt(max(1.0 + m[i, i] - m[j, j] - m[k, k], 1e-300)) * 2
        v = [0.0, 0.0, 0.0]
        v[i] = 0.25 * s
        v[j] = (m[j, i] + m[i, j]) / s
        v[k] = (m[k, i] + m[i, k]) / s
        q = [(m[k, j] - m[j, k]) / s] + v
    q = [float(v) if math.isfinite(v) else 0.0 for v in q]
    return q if any(q) else [1.0, 0.0, 0.0, 0.0]


# ----------------------------------------------------------------------------- oracle helpers (float, extended precision)
def centered(a):
    a = np.asarray(a, dtype=LD)
    mu = a.mean(axis=1)
    return a - mu[:, None], mu


def resid_ld(x, y, R, t, c):
    d = np.asarray(y, dtype=LD) - (LD(c) * (np.asarray(R, dtype=LD) @ np.asarray(x, dtype=LD)) + np.asarray(t, dtype=LD)[:, None])
    return float((d * d).sum())


def horn(x, y, ws):
    """Horn's closed-form absolute orientation with unit quaternions (independent of the SVD route)."""
    xc, mx = centered(x)
    yc, my = centered(y)
    M = np.asarray(xc @ yc.T, dtype=float)      # M[a,b] = Σ x_a y_b
    Sxx, Sxy, Sxz = M[0]
    Syx, Syy, Syz = M[1]
    Szx, Szy, Szz = M[2]
    N = np.array([[Sxx + Syy + Szz, Syz - Szy, Szx - Sxz, Sxy - Syx],
                  [Syz - Szy, Sxx - Syy - Szz, Sxy + Syx, Szx + Sxz],
                  [Szx - Sxz, Sxy + Syx, -Sxx + Syy - Szz, Syz + Szy],
                  [Sxy - Syx, Szx + Sxz, Syz + Szy, -Sxx - Syy + Szz]])
    w, v = np.linalg.eigh(N)
    q = v[:, -1]
    q0, qx, qy, qz = q
    R = np.array([[q0 * q0 + qx * qx - qy * qy - qz * qz, 2 * (qx * qy - q0 * qz), 2 * (qx * qz + q0 * qy)],
                  [2 * (qy * qx + q0 * qz), q0 * q0 - qx * qx + qy * qy - qz * qz, 2 * (qy * qz - q0 * qx)],
                  [2 * (qz * qx - q0 * qy), 2 * (qz * qy + q0 * qx), q0 * q0 - qx * qx - qy * qy + qz * qz]])
    sx = float((xc * xc).sum())
    c = float((yc * (np.asarray(R, dtype=LD) @ xc)).sum()) / sx if (ws and sx > 0) else 1.0
    t = np.asarray(my - LD(c) * (np.asarray(R, dtype=LD) @ mx), dtype=float)
    gap = float(w[-1] - w[-2]) / (abs(float(w[-1])) + abs(float(w[0])) + 1e-300)
    return R, t, c, gap


def conditioning(x, y):
    xc, _ = centered(x)
    yc, _ = centered(y)
    n = x.shape[1]
    cov = np.asarray(yc @ xc.T, dtype=float) / max(n, 1)
    d = np.linalg.svd(cov, compute_uv=False)
    return cov, d


def exact_ortho_det(R):
    F = [[frac(v) for v in row] for row in R]
    dev = Fraction(0)
    for i in range(3):
        for j in range(3):
            s = sum(F[k][i] * F[k][j] for k in range(3)) - (1 if i == j else 0)
            dev = max(dev, abs(s))
    det = (F[0][0] * (F[1][1] * F[2][2] - F[1][2] * F[2][1]) - F[0][1] * (F[1][0] * F[2][2] - F[1][2] * F[2][0])
           + F[0][2] * (F[1][0] * F[2][1] - F[1][1] * F[2][0]))
    return dev, det


def is_coincident(a):
    return a.shape[1] >= 1 and bool((a == a[:, :1]).all())


def is_on_axis(a):
    return a.shape[1] >= 1 and sum(1 for i in range(3) if (a[i] == 0).all()) >= 2


# ----------------------------------------------------------------------------- judge
def judge(ctx, case, impl, outs):
    r = np.random.default_rng(zlib.crc32(repr((case["x"][:3], case["y"][:3], case["ws"])).encode()))
    x, y = arrays(case)
    ws = case["ws"]
    n = x.shape[1]
    m_class = int(outs[0].split()[1]) if outs[0] is not None else int(outs[1].split()[-1])
    refused = "err" in impl
    ctx.count("dist", "kind:" + case["kind"])
    ctx.count("dist", "flavour:" + case.get("flavour", "T-view"))
    ctx.count("dist", "with_scale" if ws else "rigid")
    ctx.count("dist", "n<=3" if n <= 3 else "n<=12" if n <= 12 else "n<=100" if n <= 100 else "n>100")

    if not impl["inputs_unchanged"]:
        ctx.fail(case, "inputs-unmodified", "umeyama_alignment modified an input array")
    if "sentinel_changed" in impl:
        sc = impl["sentinel_changed"]
        ctx.fail(case, "call-independent-of-history",
                 "after this call a fixed ordinary input no longer gives the result it gave at process start: "
                 f"{json.dumps(sc)[:400]}")
    if impl.get("err") == "NONFINITE":
        ctx.fail(case, "finite-result", impl["msg"])
        ctx.record(case, False)
        return
    if impl.get("err") == "CRASH":
        ctx.fail(case, "no-unexpected-exception", "exception other than GeometryException: " + impl["msg"])
        ctx.record(case, False)
        return
    same_shape = x.shape == y.shape
    cov, d = (conditioning(x, y) if same_shape and n >= 1 else (None, None))
    well = same_shape and n >= 3 and d[1] > 1e-9 * d[0] + 1e-12 and d[0] > 0
    # ---------------- refusal: correspondence (exact classes, well-conditioned inputs) + oracle
    if m_class in (1, 2, 3):
        ctx.count("branch", {1: "refuse-shape", 2: "refuse-coincident", 3: "refuse-axis"}[m_class])
        if not refused:
            ctx.mismatch(case, "model refuses (exact degenerate class %d), evo returns a result" % m_class, impl.get("c"), "REFUSED")
    elif m_class == 4:
        ctx.count("branch", "rank-deficient-other")
        ctx.skipped += 1      # collinear off-axis / n<=2: the float rank test may go either way
    else:
        if well:
            if refused:
                ctx.mismatch(case, "evo refuses a well-conditioned input the model accepts", impl["msg"], "accepted")
        else:
            ctx.skipped += 1
    o_deg = (not same_shape) or is_coincident(x) or is_coincident(y) or is_on_axis(x) or is_on_axis(y)
    if o_deg and not refused:
        tags = {"class": "shape" if not same_shape else "coincident" if (is_coincident(x) or is_coincident(y)) else "axis"}
        ctx.fail(case, "degenerate-refused", "unequal sizes / coincident / one-axis input was not refused"
                 + (f" (singular values of the covariance {d.tolist()})" if d is not None else ""), tags)
    if refused:
        if well and not o_deg:
            ctx.fail(case, "determined-input-not-refused", f"input with singular values {d.tolist()} refused: {impl['msg']}")
        ctx.record(case, o_deg)
        return
    if not same_shape:       # a result for sets of unequal size (already reported above): nothing further can be judged
        ctx.record(case, True)
        return

    R, t, c = np.array(impl["R"]), np.array(impl["t"]), impl["c"]
    if not (np.isfinite(R).all() and np.isfinite(t).all() and math.isfinite(c)):
        ctx.fail(case, "finite-result", "non-finite result returned")
        ctx.record(case, False)
        return
    if impl.get("refl_branch") is True:
        ctx.count("branch", "reflection-fix-taken")
    elif impl.get("refl_branch") is False:
        ctx.count("branch", "reflection-fix-not-taken")
    if same_shape and n >= 3 and d[0] > 0 and d[2] <= 1e-9 * d[0] < d[1] * 1e-3:
        ctx.count("branch", "rank-2-data")
    ctx.count("branch", "with-scale" if ws else "without-scale")

    # ---------------- correspondence: certificate + formulas
    cert = outs[1].split()
    names = ["orthonormal", "det>=1-eps", "t-formula", "A-symmetric", "trA*I-A-psd", "scale-formula"]
    if m_class == 0 or m_class == 4:
        bad = [nm for nm, b in zip(names, cert[:6]) if b != "1"]
        if bad:
            ctx.mismatch(case, "umeCert(eps=2^-30) fails on evo's output: " + ",".join(bad),
                         {"R": impl["R"], "t": impl["t"], "c": c}, cert)
        f = outs[2].split()
        if f[0] != "REFUSED":
            tstar = [core.parse_rat(v) for v in f[:3]]
            trA, varx = core.parse_rat(f[3]), core.parse_rat(f[4])
            ctx.count("branch", "minimiser-unique(certPD)" if f[5] == "1" else "minimiser-not-certified-unique")
            mag = float(np.abs(y).max()) + 3 * abs(c) * float(np.abs(x).max())
            tol = 64 * 2.0 ** -53 * (mag + float(np.abs(t).max()))
            terr = max(abs(float(frac(t[i]) - tstar[i])) for i in range(3))
            if terr > tol:
                ctx.mismatch(case, f"t differs from mean_y - c*R*mean_x by {terr:.3e} > {tol:.3e}", impl["t"], [float(v) for v in tstar])
            if ws:
                lhs = abs(float(frac(c) * varx - trA))
                rhs = EPS_C * (abs(c) * float(varx) + float(np.abs(cov).max()))
                if lhs > rhs:
                    ctx.mismatch(case, f"c*sigma_x^2 differs from tr(R^T cov) by {lhs:.3e} > {rhs:.3e}", c, float(trA / varx) if varx else None)
            elif not (c == 1.0):
                ctx.mismatch(case, "c is not exactly 1 without scale estimation", c, 1)

        # quantified gap: the model's sound bound  resid(evo) <= resid(any) + n*b  (Props/C03.umeyama_optimal_approx_checked)
        if well:
            ap = outs[3].split()
            if ap[0] == "NONE":
                ctx.mismatch(case, "approxReport certifies no optimality bound for evo's output", {"R": impl["R"], "c": c}, "NONE")
            else:
                eta, e2, e3, e4, e5, gap, b, vy = [core.parse_rat(v) for v in ap]
                rel = float(b / vy) if vy > 0 else float("inf")
                B = ctx.notes.setdefault("optimality_bound", {"cases": 0, "max_b_over_var_y": 0.0, "max_b": 0.0, "max_eta": 0.0,
                                                              "max_rel_slacks": {"e2": 0.0, "e3": 0.0, "e5": 0.0}})
                B["cases"] += 1
                B["max_b_over_var_y"] = max(B["max_b_over_var_y"], rel)
                B["max_b"] = max(B["max_b"], float(b))
                B["max_eta"] = max(B["max_eta"], float(eta))
                cm = float(np.abs(cov).max()) or 1.0
                for nm, v in (("e2", e2), ("e3", e3), ("e5", e5)):
                    B["max_rel_slacks"][nm] = max(B["max_rel_slacks"][nm], float(v) / cm)
                if rel > 1e-7:
                    ctx.mismatch(case, f"certified optimality bound b/var(y) = {rel:.3e} exceeds 1e-7", float(b), float(vy))

    # ---------------- oracle
    dev, det = exact_ortho_det(impl["R"])
    if dev > Fraction(1, 10 ** 9):
        ctx.fail(case, "orthonormal", f"max |R^T R - I| = {float(dev):.3e}")
    if det < 1 - Fraction(1, 10 ** 9):
        ctx.fail(case, "proper-rotation", f"det R = {float(det):.12f}")
    if ws:
        if not c > 0:
            ctx.fail(case, "positive-scale", f"c = {c}")
    elif c != 1.0:
        ctx.fail(case, "scale-exactly-one", f"c = {c!r} without scale estimation")
    xc, mx = centered(x)
    yc, my = centered(y)
    syy, sxx = float((yc * yc).sum()), float((xc * xc).sum())
    scale2 = syy + c * c * sxx + n * float(((my - LD(c) * (np.asarray(R, dtype=LD) @ mx) - np.asarray(t, dtype=LD)) ** 2).sum())
    tol = 1e-9 * scale2 + 1e-300
    # large common offsets: evaluate residuals on centred data shifted consistently (no cancellation)
    x0, y0 = np.asarray(xc, dtype=LD), np.asarray(yc, dtype=LD)

    def res(Rq, tq, cq):
        # residual of (Rq,tq,cq) expressed on centred data: y - (c R x + t) = yc - c R xc + (my - c R mx - t)
        Rq = np.asarray(Rq, dtype=LD)
        off = my - LD(cq) * (Rq @ mx) - np.asarray(tq, dtype=LD)
        dd = y0 - LD(cq) * (Rq @ x0) + off[:, None]
        return float((dd * dd).sum())
    r_evo = res(R, t, c)
    Rh, th, ch, gap = horn(x, y, ws)
    r_horn = res(Rh, th, ch)
    if r_evo > r_horn + tol:
        ctx.fail(case, "least-squares-optimal", f"residual {r_evo:.6e} > residual of Horn's optimum {r_horn:.6e} (tol {tol:.1e})")
    npert = 40 if not ctx.thorough else 200
    worst = None
    for k in range(npert):
        ang = 10 ** r.uniform(-6, 0.5)
        ax = r.normal(size=3)
        ax /= np.linalg.norm(ax) or 1.0
        Kx = np.array([[0, -ax[2], ax[1]], [ax[2], 0, -ax[0]], [-ax[1], ax[0], 0]])
        Rp = (np.eye(3) + math.sin(ang) * Kx + (1 - math.cos(ang)) * (Kx @ Kx)) @ R
        u, _, vt = np.linalg.svd(Rp)
        Rp = u @ vt
        if k % 3 == 0:
            Rp = R
        mode = k % 4
        cp = c * (1 + r.normal() * 10 ** r.uniform(-6, 0)) if (ws and mode != 1) else c
        if ws and cp <= 0:
            cp = c
        if mode == 2:   # optimal translation for (Rp, cp): isolates the rotation/scale clause
            tp = np.asarray(my - LD(cp) * (np.asarray(Rp, dtype=LD) @ mx), dtype=float)
        else:
            tp = t + r.normal(size=3) * 10 ** r.uniform(-6, 0) * math.sqrt(scale2 / max(n, 1))
        rp = res(Rp, tp, cp)
        if rp < r_evo - tol and (worst is None or rp < worst[0]):
            worst = (rp, ang, cp)
    if worst:
        ctx.fail(case, "least-squares-optimal", f"a perturbed transformation has residual {worst[0]:.6e} < {r_evo:.6e}")
    unique = well and (d[1] + (d[2] if det > 0 and np.linalg.det(cov) > 0 else -d[2])) > 1e-3 * d[0]
    if unique:
        cond = d[0] / (d[1] + (d[2] if np.linalg.det(cov) > 0 else -d[2]))
        # noise-free data reproduce the generating transformation
        if case.get("noise_free") and "R0" in case and (ws or case["c0"] == 1.0) and case["kind"] != "planar":
            R0, t0, c0 = np.array(case["R0"]), np.array(case["t0"]), case["c0"]
            e = max(float(np.abs(R - R0).max()), abs(c / c0 - 1))
            rel = 1e-9 * cond * (1 + float(np.abs(x).max()) / (math.sqrt(sxx / n) + 1e-300))
            if e > rel:
                ctx.fail(case, "noise-free-recovery", f"rotation/scale differ from the generating ones by {e:.3e} (allowed {rel:.1e})")
            et = float(np.abs(t - t0).max())
            if et > rel * (float(np.abs(y).max()) + abs(c) * float(np.abs(x).max())) * 10:
                ctx.fail(case, "noise-free-recovery", f"translation differs from the generating one by {et:.3e}")
        # equivariance under similarity of both sets + a permutation
        RA, RB = rand_rot_np(r), rand_rot_np(r)
        sA, sB = 10 ** r.uniform(-1, 1), 10 ** r.uniform(-1, 1)
        ext_x, ext_y = math.sqrt(sxx / n), math.sqrt(syy / n) + 1e-300
        tA, tB = r.normal(size=3) * ext_x, r.normal(size=3) * ext_y
        perm = r.permutation(n)
        x2 = (sA * (RA @ x) + tA[:, None])[:, perm]
        y2 = (sB * (RB @ y) + tB[:, None])[:, perm]
        with np.errstate(all="ignore"):
            o2 = call_evo(np.ascontiguousarray(x2), np.ascontiguousarray(y2), ws)
        if "err" in o2:
            ctx.fail(case, "equivariance", "similarity-transformed, permuted copy of an accepted input is refused: " + o2["msg"])
        elif ws or (sA == sB):
            R2, t2, c2 = np.array(o2["R"]), np.array(o2["t"]), o2["c"]
            Re = RB @ R @ RA.T
            ce = sB * c / sA
            te = sB * (RB @ t) + tB - ce * (Re @ tA)
            slack = 1e-8 * cond * (1 + (float(np.abs(x).max()) + float(np.abs(tA).max())) / (ext_x + 1e-300))
            eR, ec = float(np.abs(R2 - Re).max()), abs(c2 / ce - 1)
            et = float(np.abs(t2 - te).max()) / (float(np.abs(y2).max()) + abs(ce) * float(np.abs(x2).max()) + 1e-300)
            if max(eR, ec, et) > slack:
                ctx.fail(case, "equivariance", f"result of transformed input deviates from the composition: dR={eR:.2e} dc={ec:.2e} dt={et:.2e} (allowed {slack:.1e})")
        else:
            # rigid mode with different scales on both sides: only the rotation composes
            R2 = np.array(o2["R"])
            Re = RB @ R @ RA.T
            if float(np.abs(R2 - Re).max()) > 1e-8 * cond * (1 + float(np.abs(x).max()) / (ext_x + 1e-300)):
                ctx.fail(case, "equivariance", "rotation of the transformed input is not the composed rotation")
    nontrivial = case["kind"] in ("noisy", "mirrored", "planar", "independent", "offset", "scales", "grid", "sized", "sentinel")
    ctx.record(case, nontrivial)


def rand_rot_np(r):
    q = r.normal(size=4)
    q /= np.linalg.norm(q)
    w, x, y, z = q
    return np.array([[1 - 2 * (y * y + z * z), 2 * (x * y - z * w), 2 * (x * z + y * w)],
                     [2 * (x * y + z * w), 1 - 2 * (x * x + z * z), 2 * (y * z - x * w)],
                     [2 * (x * z - y * w), 2 * (y * z + x * w), 1 - 2 * (x * x + y * y)]])


# ----------------------------------------------------------------------------- plumbing
def shrink(case):
    n = len(case["x"])
    if len(case["y"]) == n and n > 3:
        for cut in (n // 2, n // 4, 1):
            if cut < 1:
                continue
            for start in range(0, n, cut):
                if n - min(cut, n - start) >= 3:
                    c = dict(case)
                    c["x"] = case["x"][:start] + case["x"][start + cut:]
                    c["y"] = case["y"][:start] + case["y"][start + cut:]
                    c.pop("noise_free", None)
                    yield c
    for key in ("x", "y"):
        rounded = [[float(round(v, 3)) for v in p] for p in case[key]]
        if rounded != case[key]:
            c = dict(case)
            c[key] = rounded
            c.pop("noise_free", None)
            yield c


def evaluate(ctx, cases):
    impls = [run_impl(c) for c in cases]
    lines, spans = [], []
    for c, i in zip(cases, impls):
        ls = model_lines(c, i)
        spans.append((len(lines), len(lines) + len(ls)))
        lines += ls
    outs = core.run_driver(lines)
    for c, i, (a, b) in zip(cases, impls, spans):
        try:
            judge(ctx, c, i, ([None] if "R" in i else []) + outs[a:b])
        except Exception as e:  # noqa: BLE001 -- what evo returned could not even be judged: a finding about this case, never a tool error
            ctx.fail(c, "output-cannot-be-judged", f"the harness could not judge what evo returned: {type(e).__name__}: {str(e)[:200]}")


OPEN = ["numpy.linalg.svd is not modelled: the exact theorems start from the certificate umeCert 0; the gap to evo's float "
        "output is quantified per case by the sound executable bound approxReport (umeyama_optimal_approx_checked): "
        "resid(evo) <= resid(any) + n*b, max b/var(y) over the run is in notes.optimality_bound",
        "refusal of nearly rank-deficient inputs (collinear off-axis, n <= 2) depends on float rounding of the singular values "
        "against the threshold max(eps, 3*eps*d_max): counted as skipped, not compared",
        "uniqueness / equivariance / 'align twice' theorems need the decidable condition certPD (tr(A)I-A positive definite); "
        "where it fails (d2 = d3 in the reflection case, d2 = 0) the minimiser is genuinely not unique",
        "competitors in the optimality theorems are rational (the Q instance) or from any ordered field when the "
        "certificate is given as a proposition (umeyama_optimal_field, umeyama_optimal_approx); scale c' < 0 is outside the class"]


def check(ctx):
    lean = core.lean_side(ctx.prop, ctx.tier)
    core.drift(ctx, MODELLED)
    cases = list(gen_cases(ctx))
    # route stream: every unequal-size case and every fifth other plain case again through PosePath3D.align (all poses)
    via = [dict(c, route="align") for k, c in enumerate(cases)
           if c.get("flavour", "T-view") == "T-view" and "ws_as" not in c and c["x"] and c["y"]
           and (c.get("deg") == "shape" or c["kind"] in ("near-aligned", "offset", "thin-offset") or k % 5 == 0)]
    via += [dict(c, route="align-scale-only") for k, c in enumerate(cases)
            if c.get("flavour", "T-view") == "T-view" and "ws_as" not in c and c["x"] and c["y"] and c["ws"]
            and (c.get("deg") in ("shape", "axis", "coincident") or k % 7 == 3)]
    ctx.notes["route_align_cases"] = len(via)
    cases += via
    evaluate(ctx, cases)
    for b in ("reflection-fix-taken", "reflection-fix-not-taken", "rank-2-data", "with-scale", "without-scale",
              "refuse-shape", "refuse-coincident", "refuse-axis"):
        if not ctx.branches.get(b):
            ctx.notes.setdefault("branches_never_exercised", []).append(b)
    ctx.notes["certificate_eps"] = "2^-30 (relative to ||cov||_max resp. the magnitudes entering t and c)"
    core.shrink_all(ctx, shrink, evaluate, budget=120)
    return core.finish(ctx, lean, rule=RULE, open_clauses=OPEN,
                       assumptions=["inputs are finite float64 3xn arrays",
                                    "'determine a rotation' = second singular value of the covariance above 1e-9 of the first"])


def replay(ctx, data):
    core.sh("lake build drv_C03", cwd=core.LEAN)
    evaluate(ctx, [data["case"]])
    return core.finish_replay(ctx)
