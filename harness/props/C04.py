"""C04 — trajectory alignment applies exactly the returned transform, never worsens fit.
evo/core/trajectory.py: scale, transform, align, align_origin; evo/main_ape.py: ape(); evo/main_rpe.py: rpe().
Model: lean/EvoModel/Model/Align.lean; theorems: Props/C04.lean.

Correspondence: (1) `PosePath3D.align` in all three modes, three storage modes, n in {-1, 3..N}: the Umeyama triple
(R,t,s) returned by evo must pass the C03 certificate on the first-n positions *as the model selects them*, and the
model applied to the exact unaligned poses with that triple must reproduce evo's aligned poses, positions and
orientations; (2) `align_origin`: transformation and poses; (3) `main_ape.ape` / `main_rpe.rpe`: stored estimate and
`alignment_transformation_sim3` for every combination of align / correct_scale / align_origin.
Oracle (independent of evo's code and of the model): the clauses of the property sentence in extended precision.
"""
import copy
import math
import zlib
import numpy as np
import core
from core import Fraction, frac, rat

MODELLED = ["evo/core/trajectory.py:PosePath3D.scale", "evo/core/trajectory.py:PosePath3D.transform",
            "evo/core/trajectory.py:PosePath3D.align", "evo/core/trajectory.py:PosePath3D.align_origin",
            "evo/main_ape.py:ape", "evo/main_rpe.py:rpe", "evo/core/lie_algebra.py:se3", "evo/core/lie_algebra.py:sim3",
            "evo/core/lie_algebra.py:se3_inverse", "evo/core/geometry.py:umeyama_alignment"]
EPS_CERT = Fraction(1, 2 ** 30)
U = 2.0 ** -53
LD = np.longdouble

RULE = ("cases = (reference path, estimate path, operation) with operation in {align rigid/similarity/scale-only with "
        "n in {-1,3..N,>N}, align_origin, ape()/rpe() with every combination of align/correct_scale/align_origin}; "
        "estimate = similarity image of the reference (scale ratio 1e-2..1e2) + noise 0..100 % of extent + orientation "
        "noise; shapes generic / planar / offset 1e6 / short; storage se3 / positions+quaternions / se3 with cached "
        "positions; evo's aligned poses compared entry-wise with the model at 64 ulp of the magnitudes involved; "
        "non-trivial = noisy estimate or n restricting the poses used or a recorded matrix; distinct by content hash")


# ----------------------------------------------------------------------------- helpers
def q2m(q):
    w, x, y, z = q
    return np.array([[1 - 2 * (y * y + z * z), 2 * (x * y - z * w), 2 * (x * z + y * w)],
                     [2 * (x * y + z * w), 1 - 2 * (x * x + z * z), 2 * (y * z - x * w)],
                     [2 * (x * z - y * w), 2 * (y * z + x * w), 1 - 2 * (x * x + y * y)]])


def m2q(m):
    """rotation matrix -> unit quaternion wxyz (Shepperd)"""
    t = np.trace(m)
    if t > 0:
        s = math.sqrt(t + 1.0) * 2
        q = [0.25 * s, (m[2, 1] - m[1, 2]) / s, (m[0, 2] - m[2, 0]) / s, (m[1, 0] - m[0, 1]) / s]
    else:
        i = int(np.argmax(np.diag(m)))
        j, k = (i + 1) % 3, (i + 2) % 3
        s = math.sqrt(1.0 + m[i, i] - m[j, j] - m[k, k]) * 2
        v = [0.0, 0.0, 0.0]
        v[i] = 0.25 * s
        v[j] = (m[j, i] + m[i, j]) / s
        v[k] = (m[k, i] + m[i, k]) / s
        q = [(m[k, j] - m[j, k]) / s] + v
    q = np.array(q)
    return q / np.linalg.norm(q)


def rand_q(r):
    q = np.array([r.gauss(0, 1) for _ in range(4)])
    return q / np.linalg.norm(q)


def small_q(r, ang):
    ax = np.array([r.gauss(0, 1) for _ in range(3)])
    ax /= np.linalg.norm(ax) or 1.0
    return np.concatenate([[math.cos(ang / 2)], math.sin(ang / 2) * ax])


def rows(p):
    """4x4 -> 12 floats row-major 3x4"""
    return [float(v) for v in np.asarray(p)[:3, :].reshape(-1)]


def mat(row12):
    m = np.eye(4)
    m[:3, :] = np.array(row12, dtype=float).reshape(3, 4)
    return m


def logu(r, lo, hi):
    return 10 ** r.uniform(math.log10(lo), math.log10(hi))


# ----------------------------------------------------------------------------- generators
def gen_pair(r, N, shape, noise, ratio):
    ext = logu(r, 1.0, 100.0)
    step = ext / math.sqrt(N)
    pos = np.zeros((N, 3))
    p = np.array([r.gauss(0, 1) * ext for _ in range(3)])
    if shape == "offset":
        p = p + np.array([r.uniform(-1, 1) * 1e6 for _ in range(3)])
    v = np.array([r.gauss(0, 1) for _ in range(3)])
    Rcur = q2m(rand_q(r))
    refs = []
    for i in range(N):
        v = 0.8 * v + 0.6 * np.array([r.gauss(0, 1) for _ in range(3)])
        if shape == "planar":
            v[2] = 0.0
        p = p + step * v
        if shape == "planar" and i == 0:
            p[2] = 0.0
        Rcur = Rcur @ q2m(small_q(r, r.gauss(0, 0.2)))
        u, _, vt = np.linalg.svd(Rcur)
        Rcur = u @ vt
        if np.linalg.det(Rcur) < 0:
            Rcur = -Rcur
        m = np.eye(4)
        m[:3, :3] = Rcur
        m[:3, 3] = p
        refs.append(m)
    R0, t0 = q2m(rand_q(r)), np.array([r.gauss(0, 1) * ext for _ in range(3)])
    c0 = ratio
    ests = []
    sig = noise * ext / c0
    for m in refs:
        e = np.eye(4)
        e[:3, 3] = (R0.T @ (m[:3, 3] - t0)) / c0 + np.array([r.gauss(0, 1) * sig for _ in range(3)])
        Rn = R0.T @ m[:3, :3] @ q2m(small_q(r, r.gauss(0, 0.3 * min(noise, 1.0))))
        u, _, vt = np.linalg.svd(Rn)
        Rn = u @ vt
        e[:3, :3] = Rn if np.linalg.det(Rn) > 0 else -Rn
        ests.append(e)
    return [rows(m) for m in refs], [rows(m) for m in ests]


def gen_cases(ctx):
    r = ctx.rng
    budget = 150 if not ctx.thorough else 1500
    nbig = 300 if not ctx.thorough else 2000
    # hand-made: exact grid, scale-only + origin (the F5 shapes)
    I = [1.0, 0, 0, 0, 0, 1, 0, 0, 0, 0, 1, 0]
    def P(x, y, z):
        return [1.0, 0, 0, x, 0, 1, 0, y, 0, 0, 1, z]
    ref = [P(0, 0, 0), P(2, 0, 0), P(2, 4, 0), P(0, 4, 6)]
    est = [P(1, 1, 1), P(2, 1, 1), P(2, 3, 1), P(1, 3, 4)]
    for op in ("ape", "rpe"):
        for a in (False, True):
            for c in (False, True):
                for o in (False, True):
                    yield {"kind": "grid", "op": op, "ref": ref, "est": est, "align": a, "correct_scale": c,
                           "align_origin": o, "n": -1, "storage": "se3", "corpus": "F5-shapes"}
    # ---- structured sizes for n_to_align: {3, 4, 2^k-1, 2^k, 2^k+1 (k=2..11), 1000, 2000} on noisy data,
    # N = n, n+1 or n+7 poses, modes alternating (thorough: rigid and similarity for every size)
    grid = sorted(set([3, 4, 1000, 2000] + [2 ** k + d for k in range(2, 12) for d in (-1, 0, 1)]))
    for idx, n in enumerate(grid):
        modes = ["se3", "sim3"] if (ctx.thorough or n <= 65) else [["se3", "sim3"][(idx + ctx.seed) % 2]]
        for mode in modes:
            N = n + r.choice([0, 1, 7])
            noise = r.choice([0.05, 0.2])
            ref, est = gen_pair(r, N, "generic", noise, r.choice([1.0, logu(r, 0.1, 10)]))
            yield {"kind": "sized", "op": "align", "mode": mode, "ref": ref, "est": est, "storage": r.choice(STORAGES if n < 500 else ["se3", "quat", "se3+pos", "quat+poses"]),
                   "noise": noise, "ratio": 1.0, "n": n if N > n or r.random() < 0.5 else -1}
    for N in (1, 2):
        for storage in ("se3", "quat"):
            ref, est = gen_pair(r, N, "generic", 0.1, 1.0)
            yield {"kind": "tiny", "op": "origin", "ref": ref, "est": est, "storage": storage, "noise": 0.1, "ratio": 1.0, "n": -1}
    # unequal numbers of poses, both directions x n-options x modes x storages
    for di, (dn_ref, dn_est) in enumerate([(1, 0), (r.randint(3, 9), 0), (0, 1), (0, r.randint(3, 9))]):
        for ni, nopt in enumerate(["all", "le-min", "between", "gt-max"]):
            for mi, mode in enumerate(["se3", "sim3", "scale"]):
                base = r.randint(5, 12)
                Nr, Ne = base + dn_ref, base + dn_est
                refL, estL = gen_pair(r, max(Nr, Ne), "generic", 0.05, 1.0)
                nsel = {"all": -1, "le-min": r.randint(3, min(Nr, Ne)), "between": r.randint(min(Nr, Ne) + 1, max(Nr, Ne)),
                        "gt-max": max(Nr, Ne) + r.randint(1, 4)}[nopt]
                yield {"kind": "unequal", "op": "align", "mode": mode, "ref": refL[:Nr], "est": estL[:Ne],
                       "storage": ["se3", "quat"][(di + ni + mi) % 2], "noise": 0.05, "ratio": 1.0, "n": nsel}
    # origin alignment in UTM-like coordinates: large common offset (1e5..1e7), origins only 1e-4..10 m apart,
    # first orientations equal or slightly different
    for j in range(10 if not ctx.thorough else 60):
        N = r.randint(2, 12)
        ref, _ = gen_pair(r, N, "generic", 0.0, 1.0)
        off = [r.choice([-1, 1]) * logu(r, 1e5, 1e7), r.choice([-1, 1]) * logu(r, 1e5, 1e7), r.uniform(-500, 3000)]
        if j == 0:
            off = [4.5e5, 5.4e6, 312.0]
        d = [r.choice([-1, 1]) * logu(r, 1e-4, 10.0) * w for w in (1.0, r.random(), r.random())]
        ang = r.choice([0.0, 0.0, logu(r, 1e-7, 1e-3)])
        D = np.eye(4)
        D[:3, :3] = q2m(small_q(r, ang))
        refm = [mat(p) for p in ref]
        c0 = refm[0][:3, 3].copy()
        for m in refm:
            m[:3, 3] = m[:3, 3] - c0 + np.array(off)
        estm = []
        for m in refm:
            e = m.copy()
            e[:3, :3] = m[:3, :3] @ D[:3, :3] if ang else m[:3, :3]
            e[:3, 3] = m[:3, 3] + np.array(d)
            estm.append(e)
        yield {"kind": "utm-origin", "op": "origin", "ref": [rows(m) for m in refm], "est": [rows(m) for m in estm],
               "storage": r.choice(STORAGES), "noise": 0.0, "ratio": 1.0, "n": -1, "origin_gap": max(abs(v) for v in d), "angle": ang}
    ops = ["align", "align", "align", "origin", "ape", "rpe"]
    for k in range(budget):
        op = ops[k % len(ops)]
        big = r.random() < 0.03
        N = r.randint(nbig // 2, nbig) if big else (r.randint(3, 12) if r.random() < 0.4 else r.randint(3, 60))
        shape = r.choice(["generic", "generic", "planar", "offset"])
        noise = r.choice([0.0, 1e-6, 1e-3, 0.01, 0.1, 0.5, 1.0])
        ratio = r.choice([1.0, logu(r, 1e-2, 1e2)])
        drift = op != "origin" and r.random() < 0.3
        if drift:
            N = max(N, 6)
        ref, est = gen_pair(r, N, shape, noise, ratio)
        storage = STORAGES[k % len(STORAGES)] if r.random() < 0.7 else r.choice(STORAGES)
        nsel = r.choice([-1, -1, r.randint(3, N), r.randint(3, N), N, N + r.randint(1, 5)])
        if N >= 6 and r.random() < 0.08:
            nsel = -r.randint(2, N - 3)          # Python slicing: all but the last |n| poses
        if drift:
            # the first n0 pairs fit (up to the noise level), afterwards the estimate drifts away strongly:
            # the optimum over the first n0 pairs differs from the optimum over all pairs
            nsel = r.randint(3, N - 2)
            ext_e = max(abs(v) for p in est for v in (p[3], p[7], p[11])) + 1.0
            dvec = [r.gauss(0, 1) for _ in range(3)]
            for i in range(nsel, N):
                f = 0.5 * (i - nsel + 1) / (N - nsel) + 0.3
                for j, col in enumerate((3, 7, 11)):
                    est[i][col] += f * ext_e * dvec[j]
            shape = shape + "+drift"
        if storage == "quat+int" or r.random() < 0.04:
            # position-only data: the estimate's orientations are fillers (identity, or a half turn about an axis) — whole-number
            # quaternions, handed over as an integer array in the quat+int storage
            storage = "quat+int"
            filler = r.choice([[1.0, 0.0, 0.0, 0.0, 1.0, 0.0, 0.0, 0.0, 1.0], [1.0, 0.0, 0.0, 0.0, -1.0, 0.0, 0.0, 0.0, -1.0]])
            for p_ in est:
                p_[0:3], p_[4:7], p_[8:11] = filler[0:3], filler[3:6], filler[6:9]
        case = {"kind": shape, "op": op, "ref": ref, "est": est, "storage": storage, "ref_storage": r.choice(STORAGES),
                "noise": noise, "ratio": ratio, "n": nsel}
        if N >= 4 and r.random() < 0.2:
            kk, jj = sorted(r.sample(range(N), 2))
            est[jj] = list(est[kk])                # equal values ...
            case["alias"] = [kk, jj]               # ... and (for matrix storage) one ndarray object in both slots
        if r.random() < 0.25:
            # object reuse: the same estimate object was aligned before, to a different reference
            ref1, _ = gen_pair(r, N, "generic", 0.0, 1.0)
            case["first"] = {"ref": ref1, "mode": r.choice(["se3", "sim3", "scale", "origin"]), "n": r.choice([-1, -1, min(N, 5)])}
        if op == "align":
            case["mode"] = r.choice(["se3", "sim3", "scale"])
        elif op in ("ape", "rpe"):
            case["align"], case["correct_scale"], case["align_origin"] = (r.random() < 0.6, r.random() < 0.5, r.random() < 0.4)
        yield case


# ----------------------------------------------------------------------------- implementation
STORAGES = ["se3", "se3+pos", "se3+quat", "se3+cache", "se3+check", "quat", "quat+poses", "quat+check", "quat+views", "quat+fortran", "quat+int"]


def build(rows12, storage, alias=None):
    """L4: construction route x what has been read (materialised) before the call under test.
    se3 = pose matrices only; +pos / +quat / +cache (= both) / +check = those views read once before the call;
    quat = positions + quaternions; +poses = poses_se3 materialised; +views = built from strided read-only views.
    L3: `alias` = (k, j): the pose list holds the *same ndarray object* at both indices (equal values)."""
    from evo.core.trajectory import PosePath3D
    poses = [mat(p) for p in rows12]
    if alias and storage.startswith("se3"):
        poses[alias[1]] = poses[alias[0]]
    if storage.startswith("quat"):
        xyz = np.array([p[:3, 3] for p in poses])
        quat = np.array([m2q(p[:3, :3]) for p in poses])
        if storage == "quat+views":
            bx, bq = np.full((len(poses), 7), 9.0), np.full((2 * len(poses), 4), 0.5)
            bx[:, 2:5] = xyz
            bq[::2] = quat
            xyz, quat = bx[:, 2:5], bq[::2]
            xyz.setflags(write=False)
            quat.setflags(write=False)
        if storage == "quat+int" and all(np.array_equal(q_, np.rint(q_)) for q_ in quat):
            # quaternions that are whole numbers (identity / half turns about an axis: the usual filler for position-only data)
            # handed over as an integer array: orientations must still be composed in floating point
            quat = np.rint(quat).astype(np.int64)
        if storage == "quat+fortran":
            # column-major arrays (np.vstack((x, y, z)).T, DataFrame.to_numpy()): `positions_xyz.T` is then C-contiguous, so an
            # "ascontiguousarray" inside an alignment routine is the trajectory's own memory
            xyz, quat = np.asfortranarray(xyz), np.asfortranarray(quat)
        t = PosePath3D(positions_xyz=xyz, orientations_quat_wxyz=quat)
        if storage == "quat+poses":
            _ = t.poses_se3
        elif storage == "quat+check":
            _ = t.check()
        return t
    t = PosePath3D(poses_se3=poses)
    if storage in ("se3+pos", "se3+cache"):
        _ = t.positions_xyz
    if storage in ("se3+quat", "se3+cache"):
        _ = t.orientations_quat_wxyz
    if storage == "se3+check":
        _ = t.check()
    return t


def snap(t):
    return (np.array(t.poses_se3).tobytes(), np.array(t.positions_xyz).tobytes(), np.array(t.orientations_quat_wxyz).tobytes())


def state(t):
    return {"poses": [rows(p) for p in t.poses_se3], "bottom_ok": all((np.asarray(p)[3] == [0, 0, 0, 1]).all() for p in t.poses_se3),
            "xyz": np.array(t.positions_xyz, dtype=float).tolist(), "quat": np.array(t.orientations_quat_wxyz, dtype=float).tolist()}


def run_impl(case):
    from evo.core import geometry, trajectory, metrics
    out = {}
    ref = build(case["ref"], case.get("ref_storage", case["storage"]))
    est = build(case["est"], case["storage"], case.get("alias"))
    view = build(case["est"], case["storage"], case.get("alias"))     # identically built twin: expected values come from it
    if "first" in case:
        # L1/L9 object reuse: the estimate has already been aligned once (to another reference / to the origin)
        f = case["first"]
        try:
            for obj in (est, view):
                other = build(f["ref"], "se3")
                with np.errstate(all="ignore"):
                    if f["mode"] == "origin":
                        obj.align_origin(other)
                    else:
                        obj.align(other, correct_scale=(f["mode"] == "sim3"), correct_only_scale=(f["mode"] == "scale"), n=f["n"])
        except Exception as e:      # the preparatory alignment is not the call under test
            return {"first_failed": f"{type(e).__name__}: {e}"[:100], "ref_unchanged": True}
    view = copy.deepcopy(view)
    out["pre"] = state(view)                      # evo's view of the unaligned estimate
    out["pre_ref"] = state(copy.deepcopy(ref))
    ref_before = snap(copy.deepcopy(ref))
    op = case["op"]
    try:
        with np.errstate(all="ignore"):
            if op == "align":
                m = case["mode"]
                r_a, t_a, s = est.align(ref, correct_scale=(m == "sim3"), correct_only_scale=(m == "scale"), n=case["n"])
                out["rts"] = {"R": np.array(r_a, dtype=float).tolist(), "t": np.array(t_a, dtype=float).tolist(), "s": float(s)}
                again = copy.deepcopy(est)
                r2, t2, s2 = again.align(ref, correct_scale=(m == "sim3"), correct_only_scale=(m == "scale"), n=case["n"])
                out["again"] = {"R": np.array(r2, dtype=float).tolist(), "t": np.array(t2, dtype=float).tolist(), "s": float(s2)}
            elif op == "origin":
                T = est.align_origin(ref)
                out["T"] = rows(T)
                out["T_bottom_ok"] = bool((np.asarray(T)[3] == [0, 0, 0, 1]).all())
            else:
                a, c, o = case["align"], case["correct_scale"], case["align_origin"]
                if a or c:
                    probe_e, probe_r = copy.deepcopy(est), copy.deepcopy(ref)
                    r_a, t_a, s = probe_e.align(probe_r, c, c and not a, n=case["n"])
                    out["rts"] = {"R": np.array(r_a, dtype=float).tolist(), "t": np.array(t_a, dtype=float).tolist(), "s": float(s)}
                if op == "ape":
                    from evo import main_ape
                    res = main_ape.ape(ref, est, metrics.PoseRelation.translation_part, align=a, correct_scale=c,
                                       n_to_align=case["n"], align_origin=o)
                else:
                    from evo import main_rpe
                    res = main_rpe.rpe(ref, est, metrics.PoseRelation.translation_part, 1.0, metrics.Unit.frames,
                                       align=a, correct_scale=c, n_to_align=case["n"], align_origin=o)
                M = res.np_arrays.get("alignment_transformation_sim3")
                out["M"] = None if M is None else rows(M)
                out["M_bottom_ok"] = True if M is None else bool((np.asarray(M)[3] == [0, 0, 0, 1]).all())
                est = res.trajectories["estimate"]
                out["ref_stored_same"] = snap(res.trajectories["reference"]) == ref_before
        out["post"] = state(est)
        vals = [v for p in out["post"]["poses"] for v in p] + [v for q in out["post"]["quat"] for v in q]
        if "rts" in out:
            vals += [v for row in out["rts"]["R"] for v in row] + out["rts"]["t"] + [out["rts"]["s"]]
        vals += (out.get("T") or []) + (out.get("M") or [])
        if not all(math.isfinite(v) for v in vals):
            out["err"] = "CRASH non-finite value in the aligned trajectory / returned transformation"
    except geometry.GeometryException as e:
        out["err"] = "E_GEOMETRY"
    except trajectory.TrajectoryException as e:
        out["err"] = "E_TRAJ"
    except Exception as e:
        out["err"] = "CRASH " + f"{type(e).__name__}: {e}"[:120]
    out["ref_unchanged"] = snap(ref) == ref_before
    return out


# ----------------------------------------------------------------------------- driver lines
def poselist(ps):
    return " ".join([str(len(ps))] + [rat(v) for p in ps for v in p])


def pts(a):
    flat = [v for p in a for v in p]
    return " ".join([str(len(flat))] + [rat(v) for v in flat])


def rts_str(rts):
    return " ".join([rat(v) for row in rts["R"] for v in row] + [rat(v) for v in rts["t"]] + [rat(rts["s"])])


ID_RTS = {"R": [[1.0, 0, 0], [0, 1.0, 0], [0, 0, 1.0]], "t": [0.0, 0, 0], "s": 1.0}


def used_count(n, N):
    """Python slicing semantics of evo's `[:n]` (independent of the model's firstN)"""
    return N if n == -1 else len(range(N)[:n])


def model_lines(case, impl):
    N = len(case["est"])
    lines = [f"C04 firstn {case['n']} {N}"]
    if "err" in impl or "first_failed" in impl:
        return lines
    pre = impl["pre"]["poses"]
    op = case["op"]
    if op == "align":
        ws = case["mode"] in ("sim3", "scale")
        mode = case["mode"]
        lines.append(f"C04 align {mode} {rts_str(impl['rts'])} {poselist(pre)}")
    elif op == "origin":
        lines.append(f"C04 origin {poselist(impl['pre_ref']['poses'][:1])} {poselist(pre)}")
    else:
        a, c, o = case["align"], case["correct_scale"], case["align_origin"]
        rts = impl.get("rts", ID_RTS)
        lines.append(f"C04 ape {int(a)} {int(c)} {int(o)} {rts_str(rts)} {poselist(impl['pre_ref']['poses'][:1])} {poselist(pre)}")
    return lines


def cert_line(case, impl, k):
    ws = (case["mode"] in ("sim3", "scale")) if case["op"] == "align" else case["correct_scale"]
    x = impl["pre"]["xyz"][:k]
    y = impl["pre_ref"]["xyz"][:k]
    return f"C04 umecert {rat(EPS_CERT)} {int(ws)} {pts(x)} {pts(y)} {rts_str(impl['rts'])}"


# ----------------------------------------------------------------------------- judge
def parse_poses(s):
    v = [core.parse_rat(t) for t in s.split()]
    return [v[i:i + 12] for i in range(0, len(v), 12)]


def cmp_poses(ctx, case, what, evo_rows, model_rows, mag_pos):
    """entry-wise comparison of evo's poses with the model's exact ones"""
    if len(evo_rows) != len(model_rows):
        ctx.mismatch(case, f"{what}: {len(evo_rows)} poses, model {len(model_rows)}")
        return False
    worst = 0.0
    for i, (e, m) in enumerate(zip(evo_rows, model_rows)):
        for j in range(12):
            tol = 64 * U * ((mag_pos + abs(e[j])) if j % 4 == 3 else 4.0)
            d = abs(float(frac(e[j]) - m[j]))
            if d > tol:
                ctx.mismatch(case, f"{what}: pose {i} entry {j} differs by {d:.3e} > {tol:.3e}", e[j], float(m[j]))
                return False
            worst = max(worst, d)
    return True


def horn(x, y, ws):
    xc, mx = x - x.mean(axis=0), x.mean(axis=0)
    yc, my = y - y.mean(axis=0), y.mean(axis=0)
    M = np.asarray(xc.T @ yc, dtype=float)
    Sxx, Sxy, Sxz = M[0]
    Syx, Syy, Syz = M[1]
    Szx, Szy, Szz = M[2]
    Nm = np.array([[Sxx + Syy + Szz, Syz - Szy, Szx - Sxz, Sxy - Syx],
                   [Syz - Szy, Sxx - Syy - Szz, Sxy + Syx, Szx + Sxz],
                   [Szx - Sxz, Sxy + Syx, -Sxx + Syy - Szz, Syz + Szy],
                   [Sxy - Syx, Szx + Sxz, Syz + Szy, -Sxx - Syy + Szz]])
    w, v = np.linalg.eigh(Nm)
    R = q2m(v[:, -1])
    sx = float((xc * xc).sum())
    c = float((yc * (xc @ R.T)).sum()) / sx if (ws and sx > 0) else 1.0
    t = my - c * (R @ mx)
    return R, np.asarray(t, dtype=float), c


def sse(x, y, R, t, c):
    """Σ‖y − (cRx + t)‖² evaluated on centred data (no cancellation with large offsets)"""
    x, y = np.asarray(x, dtype=LD), np.asarray(y, dtype=LD)
    mx, my = x.mean(axis=0), y.mean(axis=0)
    R = np.asarray(R, dtype=LD)
    off = my - LD(c) * (R @ mx) - np.asarray(t, dtype=LD)
    d = (y - my) - LD(c) * ((x - mx) @ R.T) + off
    return float((d * d).sum())


def judge(ctx, case, impl, outs, extra):
    rr = np.random.default_rng(zlib.crc32(repr((case["est"][:2], case["op"], case["n"])).encode()))
    N = len(case["est"])
    op = case["op"]
    ctx.count("dist", "op:" + op + (":" + case["mode"] if op == "align" else ""))
    ctx.count("dist", "storage:" + case["storage"])
    if "first" in case:
        ctx.count("dist", "reused-object:first=" + case["first"]["mode"])
    if case.get("alias"):
        ctx.count("dist", "aliased-pose-objects")
    ctx.count("dist", "n=-1" if case["n"] == -1 else "n<N" if case["n"] < N else "n>=N")
    ctx.count("dist", "kind:" + case["kind"])
    if "first_failed" in impl:
        ctx.skipped += 1
        ctx.record(case, False)
        return
    if not impl["ref_unchanged"]:
        ctx.fail(case, "reference-unchanged", "the reference trajectory was modified by the alignment")
    k_model = int(outs[0])
    k = used_count(case["n"], N)
    if k_model != k:
        ctx.mismatch(case, "firstN selects a different number of poses than Python slicing", k, k_model)
    if op == "align" and len(case["ref"]) != N:
        # unequal numbers of poses: the point sets handed to Umeyama are the first-n positions of each trajectory
        # (n = -1: all of them); unequal sizes must be refused with evo's geometry error, equal ones aligned as usual
        kr = used_count(case["n"], len(case["ref"]))
        if impl["k_ref_model"] != kr:
            ctx.mismatch(case, "firstN (reference) selects a different number of poses than Python slicing", kr, impl["k_ref_model"])
        ctx.count("dist", "unequal-lengths:" + ("ref-longer" if len(case["ref"]) > N else "est-longer")
                  + (":sets-equal" if k == kr else ":sets-unequal"))
        if k_model != impl["k_ref_model"]:
            ctx.count("branch", "unequal-point-sets(model refuses)")
            if impl.get("err") != "E_GEOMETRY" and not str(impl.get("err", "")).startswith("CRASH"):
                ctx.mismatch(case, "model refuses (point sets of unequal size), evo returns a result", impl.get("rts"), "E_GEOMETRY")
        if k != kr:
            if impl.get("err") == "E_GEOMETRY":
                ctx.record(case, True)
                return
            if str(impl.get("err", "")).startswith("CRASH"):
                ctx.fail(case, "no-unexpected-exception", impl["err"])
            else:
                ctx.fail(case, "unequal-sizes-refused",
                         f"align(n={case['n']}) of {N} estimate poses to {len(case['ref'])} reference poses uses point sets of "
                         f"{k} and {kr} points but returned a transformation instead of raising GeometryException")
            ctx.record(case, True)
            return
    if "err" in impl:
        if impl["err"].startswith("CRASH"):
            ctx.fail(case, "no-unexpected-exception", impl["err"])
        else:
            ctx.count("branch", "refused:" + impl["err"])
            # oracle: a refusal is legitimate only when the poses used do not determine the alignment
            Pe = np.array([mat(p) for p in case["est"]])[:k, :3, 3]
            Pr = np.array([mat(p) for p in case["ref"]])[:k, :3, 3]
            needs_umeyama = op == "align" or (op in ("ape", "rpe") and (case["align"] or case["correct_scale"]))
            dsv = (np.linalg.svd(np.asarray((Pr - Pr.mean(axis=0)).T @ (Pe - Pe.mean(axis=0)), dtype=float), compute_uv=False)
                   if k >= 1 else np.zeros(3))
            if (not needs_umeyama) or (k >= 3 and dsv[1] > 1e-6 * dsv[0] > 0):
                ctx.fail(case, "alignment-refused", f"{impl['err']} although the {k} pose pairs used determine the alignment")
            else:
                ctx.skipped += 1
        ctx.record(case, False)
        return
    pre, post = impl["pre"], impl["post"]
    P0 = np.array([mat(p) for p in pre["poses"]])
    P1 = np.array([mat(p) for p in post["poses"]])
    Rf = np.array([mat(p) for p in impl["pre_ref"]["poses"]])
    x_all, y_all = P0[:, :3, 3], Rf[:, :3, 3]
    if P1.shape != P0.shape or np.array(post["xyz"]).shape != (len(P0), 3) or np.array(post["quat"]).shape != (len(P0), 4):
        ctx.fail(case, "pose-count", f"alignment changed the number of poses / views: {P0.shape} -> {P1.shape}, "
                                     f"xyz {np.array(post['xyz']).shape}, quat {np.array(post['quat']).shape}")
        ctx.record(case, False)
        return
    # sanity of the views: evo's view of the inputs is the case's matrices (quaternion storage: to 1e-12)
    if "first" not in case and float(np.abs(P0 - np.array([mat(p) for p in case["est"]])).max()) > 1e-9 * (1 + float(np.abs(x_all).max())):
        ctx.fail(case, "input-view", "evo's poses of the freshly built estimate differ from the data it was built from")
    # views of the result consistent with each other
    if not post["bottom_ok"]:
        ctx.fail(case, "valid-poses", "bottom row of an aligned pose is not 0 0 0 1")
    if float(np.abs(np.array(post["xyz"]) - P1[:, :3, 3]).max()) > 0:
        ctx.fail(case, "views-consistent", "positions_xyz differ from the translation column of poses_se3 after alignment")
    Q1 = np.array([q2m(np.array(q) / np.linalg.norm(q)) for q in post["quat"]])
    if float(np.abs(Q1 - P1[:, :3, :3]).max()) > 1e-9:
        ctx.fail(case, "views-consistent", "orientations_quat_wxyz differ from the rotation blocks of poses_se3 after alignment")

    rts = impl.get("rts")
    if rts is not None:
        R, t, s = np.array(rts["R"]), np.array(rts["t"]), rts["s"]
    mag = float(np.abs(x_all).max()) * (abs(rts["s"]) if rts else 1.0) * 3 + (float(np.abs(rts["t"]).max()) if rts else 0.0) \
        + float(np.abs(y_all[0]).max())
    well = False
    if rts is not None:
        # ---- correspondence: certificate on the first-k positions as the model selects them
        cert = extra.split()
        names = ["orthonormal", "det>=1-eps", "t-formula", "A-symmetric", "trA*I-A-psd", "scale-formula"]
        bad = [nm for nm, b in zip(names, cert[:6]) if b != "1"]
        if bad:
            ctx.mismatch(case, f"umeCert(eps=2^-30) on the first {k_model} position pairs fails for evo's (R,t,s): " + ",".join(bad),
                         rts, cert)
        ws = (case["mode"] in ("sim3", "scale")) if op == "align" else case["correct_scale"]
        # ---- oracle: determined from the first n pairs only; optimal; not worse than before
        xk, yk = x_all[:k], y_all[:k]
        Rh, th, ch = horn(np.asarray(xk, dtype=float), np.asarray(yk, dtype=float), ws)
        s_e, s_h = sse(xk, yk, R, t, s), sse(xk, yk, Rh, th, ch)
        scale2 = float(((yk - yk.mean(axis=0)) ** 2).sum()) + s * s * float(((xk - xk.mean(axis=0)) ** 2).sum())
        tol = 1e-9 * scale2 + 1e-300
        if s_e > s_h + tol:
            ctx.fail(case, "uses-first-n-optimal", f"over the first {k} pairs the returned transformation has squared error {s_e:.6e} > optimum {s_h:.6e}")
        dsv = np.linalg.svd(np.asarray((yk - yk.mean(axis=0)).T @ (xk - xk.mean(axis=0)), dtype=float), compute_uv=False)
        well = k >= 3 and dsv[0] > 0 and dsv[1] - dsv[2] * (1 if np.linalg.det(R) > 0 else 1) > 1e-3 * dsv[0] and dsv[1] > 1e-3 * dsv[0]
        if not (op == "align" and case["mode"] == "scale") and not (op != "align" and case["correct_scale"] and not case["align"]):
            before = sse(xk, yk, np.eye(3), np.zeros(3), 1.0)
            if s_e > before + 1e-9 * (before + scale2):
                ctx.fail(case, "rmse-not-worse", f"squared error over the poses used grew from {before:.6e} to {s_e:.6e}")
            for j in range(20 if not ctx.thorough else 60):
                ang = 10 ** rr.uniform(-5, 0)
                Rp = q2m(small_q_np(rr, ang)) @ R
                cp = s * (1 + rr.normal() * 10 ** rr.uniform(-5, -1)) if ws else s
                tp = np.asarray(yk.mean(axis=0) - cp * (Rp @ xk.mean(axis=0)), dtype=float) if j % 2 else t + rr.normal(size=3) * 1e-3 * math.sqrt(scale2 / k)
                sp = sse(xk, yk, Rp, tp, cp)
                if sp < s_e - tol:
                    ctx.fail(case, "rmse-optimal", f"another transformation of the same class has squared error {sp:.6e} < {s_e:.6e}")
                    break

    def expect_pose(Mrot, Mt, sc, p):
        """image of pose p under the 4x4 with block Mrot (= sc·rotation) and translation Mt"""
        q = np.eye(4, dtype=LD)
        q[:3, 3] = np.asarray(Mrot, dtype=LD) @ np.asarray(p[:3, 3], dtype=LD) + np.asarray(Mt, dtype=LD)
        q[:3, :3] = (np.asarray(Mrot, dtype=LD) / LD(sc)) @ np.asarray(p[:3, :3], dtype=LD)
        return q

    def check_moved(clause, Mrot, Mt, sc, scale_rot=True):
        worst_p, worst_r = 0.0, 0.0
        for a, b in zip(P0, P1):
            q = expect_pose(Mrot, Mt, sc, a)
            if not scale_rot:
                q[:3, :3] = a[:3, :3]
            worst_p = max(worst_p, float(np.abs(q[:3, 3] - b[:3, 3]).max()))
            worst_r = max(worst_r, float(np.abs(q[:3, :3] - b[:3, :3]).max()))
        tolp = 1e-9 * (float(np.abs(np.asarray(Mrot)).max()) * float(np.abs(x_all).max()) * 3 + float(np.abs(np.asarray(Mt)).max()) + 1e-300)
        if worst_p > tolp:
            ctx.fail(case, clause, f"a position deviates by {worst_p:.3e} (allowed {tolp:.1e}) from the image under the returned/recorded transformation")
        if worst_r > 1e-9:
            ctx.fail(case, clause, f"an orientation deviates by {worst_r:.3e} from R*R_p")

    if op == "align":
        m = case["mode"]
        ctx.count("branch", "mode-" + m)
        model_poses = parse_poses(outs[1])
        cmp_poses(ctx, case, f"align({m}) poses_se3", post["poses"], model_poses, mag)
        if m == "scale":
            # nothing but the positions changes: rotation blocks and quaternions bit-identical
            if any(a[j] != b[j] for a, b in zip(pre["poses"], post["poses"]) for j in (0, 1, 2, 4, 5, 6, 8, 9, 10)):
                ctx.fail(case, "scale-only-positions-only", "a rotation block changed in scale-only mode")
            if case["storage"] != "se3" and pre["quat"] != post["quat"]:
                ctx.fail(case, "scale-only-positions-only", "a quaternion changed in scale-only mode")
            check_moved("applies-returned-scale", s * np.eye(3), np.zeros(3), s)
        elif m == "sim3":
            check_moved("applies-returned-similarity", s * R, t, s)
        else:
            if s != 1.0:
                ctx.fail(case, "rigid-scale-one", f"rigid alignment returned scale {s!r}")
            check_moved("applies-returned-similarity", R, t, 1.0)
        # aligning the aligned trajectory again is the identity
        ag = impl["again"]
        if well and m != "scale":
            cond = dsv[0] / max(dsv[1] - dsv[2], 1e-300) if False else dsv[0] / dsv[1]
            lim = 1e-7 * cond * (1 + float(np.abs(y_all).max()) / (math.sqrt(scale2 / k) + 1e-300))
            eR = float(np.abs(np.array(ag["R"]) - np.eye(3)).max())
            es = abs(ag["s"] - 1.0)
            et = float(np.abs(np.array(ag["t"])).max()) / (float(np.abs(y_all).max()) + 1e-300)
            if max(eR, es, et) > lim:
                ctx.fail(case, "align-twice-identity", f"second alignment is not the identity: dR={eR:.2e} ds={es:.2e} dt={et:.2e} (allowed {lim:.1e})")
        elif m == "scale" and abs(ag["s"] - 1.0) > 1e-9:
            ctx.fail(case, "align-twice-identity", f"second scale correction returns {ag['s']!r}")
        nontrivial = case["noise"] > 0 or k < N
    elif op == "origin":
        ctx.count("branch", "origin")
        Ts, ps = outs[1].split("|")
        Tm = [core.parse_rat(v) for v in Ts.split()]
        T = mat(impl["T"])
        magT = float(np.abs(x_all[0]).max()) * 3 + float(np.abs(y_all[0]).max())
        for j in range(12):
            tolj = 64 * U * ((magT + abs(impl["T"][j])) if j % 4 == 3 else 4.0)
            if abs(float(frac(impl["T"][j]) - Tm[j])) > tolj:
                ctx.mismatch(case, f"align_origin: returned matrix entry {j} differs from ref0*inv(est0)", impl["T"][j], float(Tm[j]))
                break
        cmp_poses(ctx, case, "align_origin poses_se3", post["poses"], parse_poses(ps), magT + float(np.abs(x_all).max()) * 3)
        if not impl["T_bottom_ok"]:
            ctx.fail(case, "valid-poses", "origin transformation has a bad bottom row")
        # oracle: first pose onto the reference's first pose; relative poses preserved; moved by the returned matrix.
        # Tolerances are a few hundred ulp of the coordinates involved (large common offsets: ulp(1e7) = 2e-9), so that
        # "origins a few mm / m apart in UTM coordinates" cannot pass as aligned.
        pmag = float(np.abs(x_all).max()) + float(np.abs(P1[:, :3, 3]).max()) + float(np.abs(y_all[0]).max())
        tol_p, tol_r = 256 * U * (pmag + 1e-300), 1e-12
        dp0 = float(np.abs(P1[0][:3, 3] - Rf[0][:3, 3]).max())
        dr0 = float(np.abs(P1[0][:3, :3] - Rf[0][:3, :3]).max())
        if dp0 > tol_p or dr0 > tol_r:
            ctx.fail(case, "origin-first-pose", f"first pose after origin alignment deviates from the reference's first pose by "
                                                f"{dp0:.3e} (position, allowed {tol_p:.1e}) / {dr0:.3e} (orientation)")
        for i in range(len(P0) - 1):
            def relp(A, B):
                Ra = np.asarray(A[:3, :3], dtype=LD)
                return Ra.T @ np.asarray(B[:3, :3], dtype=LD), Ra.T @ (np.asarray(B[:3, 3], dtype=LD) - np.asarray(A[:3, 3], dtype=LD))
            (ra, ta), (rb, tb) = relp(P0[i], P0[i + 1]), relp(P1[i], P1[i + 1])
            er, et = float(np.abs(ra - rb).max()), float(np.abs(ta - tb).max())
            if er > tol_r or et > 4 * tol_p:
                ctx.fail(case, "origin-preserves-relative-poses", f"relative pose {i}->{i+1} changed by {er:.3e} (rotation) / {et:.3e} (translation, allowed {4 * tol_p:.1e})")
                break
        check_moved("applies-returned-similarity", T[:3, :3], T[:3, 3], 1.0)
        nontrivial = True
    else:
        a, c, o = case["align"], case["correct_scale"], case["align_origin"]
        ctx.count("branch", f"{op}:align={int(a)},scale={int(c)},origin={int(o)}")
        ps, Ms = outs[1].split("|")
        cmp_poses(ctx, case, f"{op}() stored estimate", post["poses"], parse_poses(ps), mag + float(np.abs(y_all[0]).max()))
        if Ms.strip() == "none":
            if impl["M"] is not None:
                ctx.mismatch(case, "alignment_transformation_sim3 recorded although nothing was aligned", impl["M"], None)
        elif impl["M"] is None:
            ctx.mismatch(case, "alignment_transformation_sim3 missing", None, Ms.strip()[:80])
        else:
            Mm = [core.parse_rat(v) for v in Ms.split()]
            sc = abs(impl["rts"]["s"]) if "rts" in impl else 1.0
            for j in range(12):
                tolj = 64 * U * ((mag + float(np.abs(y_all[0]).max()) + abs(impl["M"][j])) if j % 4 == 3 else 4.0 * max(sc, 1.0))
                if abs(float(frac(impl["M"][j]) - Mm[j])) > tolj:
                    ctx.mismatch(case, f"{op}(): alignment_transformation_sim3 entry {j} differs from the model's recorded matrix",
                                 impl["M"][j], float(Mm[j]))
                    break
        # oracle: the recorded matrix maps the unaligned estimate onto the stored one
        if impl["M"] is not None:
            if not impl["M_bottom_ok"]:
                ctx.fail(case, "recorded-matrix-maps-estimate", "recorded matrix has a bad bottom row")
            M = mat(impl["M"])
            det = float(np.linalg.det(M[:3, :3]))
            if not det > 0:
                ctx.fail(case, "recorded-matrix-maps-estimate", f"recorded matrix block has determinant {det}")
            else:
                check_moved("recorded-matrix-maps-estimate", M[:3, :3], M[:3, 3], det ** (1.0 / 3.0))
                # "determined from the first n pose pairs only when n is given", decided on the recorded matrix itself
                # (independent optimum over the first k pairs of the *unaligned* inputs, k by Python slicing semantics)
                if (a or c) and k >= 3:
                    xk, yk = x_all[:k], y_all[:k]
                    dk = np.linalg.svd(np.asarray((yk - yk.mean(axis=0)).T @ (xk - xk.mean(axis=0)), dtype=float), compute_uv=False)
                    if dk[0] > 0 and dk[1] > 1e-3 * dk[0]:
                        Rh, th, ch = horn(np.asarray(xk, dtype=float), np.asarray(yk, dtype=float), c)
                        sM = det ** (1.0 / 3.0)
                        if c and abs(sM / ch - 1.0) > 1e-7 * dk[0] / dk[1]:
                            ctx.fail(case, "uses-first-n-optimal",
                                     f"{op}(): recorded scale {sM!r} is not the optimal scale {ch!r} over the first {k} pose pairs")
                        if a and not o:
                            s_M, s_h = sse(xk, yk, M[:3, :3] / sM, M[:3, 3], sM), sse(xk, yk, Rh, th, ch)
                            sc2 = float(((yk - yk.mean(axis=0)) ** 2).sum()) + sM * sM * float(((xk - xk.mean(axis=0)) ** 2).sum())
                            if s_M > s_h + 1e-9 * sc2:
                                ctx.fail(case, "uses-first-n-optimal",
                                         f"{op}(): over the first {k} pose pairs the recorded transformation has squared error "
                                         f"{s_M:.6e} > optimum {s_h:.6e}")
        elif a or c or o:
            ctx.fail(case, "recorded-matrix-maps-estimate", "no alignment matrix recorded although an alignment was requested")
        else:
            if float(np.abs(P1 - P0).max()) > 0:
                ctx.fail(case, "unaligned-untouched", "estimate changed although no alignment was requested")
        if not impl.get("ref_stored_same", True):
            ctx.fail(case, "reference-unchanged", "the reference stored in the result differs from the input reference")
        nontrivial = a or c or o
    ctx.record(case, bool(nontrivial))


def small_q_np(r, ang):
    ax = r.normal(size=3)
    ax /= np.linalg.norm(ax) or 1.0
    return np.concatenate([[math.cos(ang / 2)], math.sin(ang / 2) * ax])


# ----------------------------------------------------------------------------- plumbing
def shrink(case):
    N = len(case["est"])
    if N > 3:
        for cut in (N // 2, N // 4, 1):
            if cut < 1:
                continue
            for start in range(0, N, cut):
                if N - min(cut, N - start) >= 3:
                    c = dict(case)
                    c["est"] = case["est"][:start] + case["est"][start + cut:]
                    c["ref"] = case["ref"][:start] + case["ref"][start + cut:]
                    c.pop("alias", None)
                    if "first" in case:
                        c["first"] = dict(case["first"], ref=case["first"]["ref"][:start] + case["first"]["ref"][start + cut:])
                    if c["n"] != -1:
                        c["n"] = max(3, min(c["n"], len(c["est"])))
                    yield c
    if case["n"] != -1:
        c = dict(case)
        c["n"] = -1
        yield c
    if case["storage"] != "se3":
        c = dict(case)
        c["storage"] = "se3"
        yield c


def evaluate(ctx, cases):
    impls = [run_impl(c) for c in cases]
    # first pass: model's firstN (needed to slice the certificate inputs the way the model does)
    first = core.run_driver([f"C04 firstn {c['n']} {len(c['est'])}" for c in cases])
    first_ref = core.run_driver([f"C04 firstn {c['n']} {len(c['ref'])}" for c in cases])
    for i, kr in zip(impls, first_ref):
        i["k_ref_model"] = int(kr)
    lines, spans = [], []
    for c, i, k in zip(cases, impls, first):
        ls = model_lines(c, i)
        if "err" not in i and "first_failed" not in i and "rts" in i:
            ls.append(cert_line(c, i, int(k)))
        spans.append((len(lines), len(lines) + len(ls)))
        lines += ls
    outs = core.run_driver(lines)
    for c, i, (a, b) in zip(cases, impls, spans):
        o = outs[a:b]
        extra = o[-1] if ("err" not in i and "first_failed" not in i and "rts" in i) else None
        try:
            judge(ctx, c, i, o, extra)
        except Exception as e:  # noqa: BLE001 -- what evo returned could not even be judged: a finding about this case, never a tool error
            ctx.fail(c, "output-cannot-be-judged", f"the harness could not judge what evo returned: {type(e).__name__}: {str(e)[:200]}")


OPEN = ["the Umeyama triple is evo's own (numpy SVD, not modelled): it is certified per case by umeCert eps=2^-30 on the "
        "first-n positions; the optimality theorems are corollaries of C03 under umeCert 0",
        "align_twice_identity is proved under the decidable uniqueness condition certPD on the second alignment problem "
        "(tr(A)I-A positive definite); where it fails the minimiser is genuinely not unique; the oracle tests it on "
        "well-conditioned data",
        "RMSE clauses are stated for the sum of squared position errors over the poses used (RMSE is its monotone image)",
        "quaternion view of the orientations: compared through the rotation matrix at 1e-9 (quaternion extraction is C08's certificate)",
        "frame condition 'reference unchanged': the model is purely functional; checked by byte snapshots on every case"]


def check(ctx):
    lean = core.lean_side(ctx.prop, ctx.tier)
    core.drift(ctx, MODELLED)
    cases = list(gen_cases(ctx))
    evaluate(ctx, cases)
    need = ["mode-se3", "mode-sim3", "mode-scale", "origin"] + [f"{op}:align={a},scale={c},origin={o}"
                                                               for op in ("ape", "rpe") for a in (0, 1) for c in (0, 1) for o in (0, 1)]
    for b in need:
        if not ctx.branches.get(b):
            ctx.notes.setdefault("branches_never_exercised", []).append(b)
    ctx.notes["certificate_eps"] = "2^-30 (relative)"
    core.shrink_all(ctx, shrink, evaluate, budget=80)
    return core.finish(ctx, lean, rule=RULE, open_clauses=OPEN,
                       assumptions=["trajectories are synchronized (equal numbers of poses) and hold valid SE(3) poses"])


def replay(ctx, data):
    core.sh("lake build drv_C04", cwd=core.LEAN)
    evaluate(ctx, [data["case"]])
    return core.finish_replay(ctx)
