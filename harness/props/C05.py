"""C05 — time association (evo/core/sync.py). Model: lean/EvoModel/Model/Sync.lean."""
import copy
import numpy as np
import core
from core import Fraction, frac, rat, ratlist

MODELLED = ["evo/core/sync.py:matching_time_indices", "evo/core/sync.py:associate_trajectories",
            "evo/core/trajectory.py:PoseTrajectory3D.reduce_to_ids", "evo/core/trajectory.py:PosePath3D.reduce_to_ids"]

RULE = ("cases = (stamps1, stamps2, max_diff, offset); exact-grid stream (dyadic stamps, differences exactly equal to "
        "max_diff, exact ties, contested counterparts) compared exactly; random stream (epoch-sized stamps, jitter, gaps, "
        "disjoint ranges, both length orderings) compared when the model's decision margin exceeds the float slack; "
        "non-trivial = at least one pair matched and at least one stamp unmatched or contested; distinct by content hash")


def gen_cases(ctx):
    """raw cases + constructor route and pre-read history of the trajectories (seeded)"""
    for c in gen_cases_raw(ctx):
        c.setdefault("route", ctx.rng.choice(["xyzquat", "se3"]))
        c.setdefault("pre", ctx.rng.choice(PRE_READS))
        c.setdefault("flavour", ctx.rng.choice(["plain", "plain", "strided", "readonly"]))
        yield c
        # L1 with an in-place edit: the same two objects were associated before, when the second one held other stamps
        if c.get("kind") == "grid" and len(c["s1"]) <= 64 and ctx.rng.random() < 0.08:
            yield dict(c, earlier_shift=ctx.rng.choice([0.25, -0.5, 1.0, 0.03125, 64.0]))
        # L9: the very same trajectory object passed for both arguments (every 12th case), also with an offset
        if ctx.rng.random() < 1 / 12 and len(c["s1"]) >= 2:
            d = dict(c)
            d["s2"] = list(c["s1"])
            d["same_obj"] = True
            d["off"] = ctx.rng.choice([0.0, c["off"], (c["s1"][1] - c["s1"][0]), -(c["s1"][1] - c["s1"][0])])
            yield d


def gen_cases_raw(ctx):
    r = ctx.rng
    n_grid = 1500 if not ctx.thorough else 6000
    n_rand = 200 if not ctx.thorough else 400
    maxlen = 100 if not ctx.thorough else 600
    # corpus of minimised past failures first
    yield {"kind": "grid", "s1": [0.0, 0.1], "s2": [0.05, 5.0, 6.0], "md": 0.06, "off": 0.0, "corpus": "F8"}
    yield {"kind": "grid", "s1": [0.0, 0.125], "s2": [0.0625, 5.0, 6.0], "md": 0.0625, "off": 0.0, "corpus": "F8-exact"}
    yield {"kind": "grid", "s1": [1.0, 2.0], "s2": [10.0, 11.0, 12.0], "md": 0.5, "off": 0.0, "corpus": "empty"}
    yield {"kind": "grid", "s1": [10.0, 11.0, 12.0], "s2": [1.0, 2.0], "md": 0.5, "off": 9.0, "corpus": "off-first-longer"}
    yield {"kind": "grid", "s1": [1.0, 2.0], "s2": [10.0, 11.0, 12.0], "md": 0.5, "off": -9.0, "corpus": "off-second-longer"}
    # structured sizes: 1, 2, 2^k-1, 2^k, 2^k+1 on both sides (equal stamps shifted by a quarter step)
    # long trajectories (beyond any block size of a block-wise implementation: 256, 512, 1024) with drop-outs in the longer one,
    # so that neighbouring poses of the shorter one contest the same counterpart — also across index 255/256, 511/512, 1023/1024
    for drops in ((512, 1024), (511, 1023, 256), (513, 1025, 255, 700), (256, 257, 512, 513)):
        n1 = 1100
        s1 = [float(k) for k in range(n1)]
        s2 = [float(k) for k in range(n1 + 150) if k not in drops]
        yield {"kind": "grid", "s1": s1, "s2": s2, "md": 1.0, "off": 0.0, "corpus": "long-contested"}
        yield {"kind": "grid", "s1": s2, "s2": s1, "md": 1.0, "off": 0.0, "corpus": "long-contested-swapped"}
    # near misses of max_diff: |t1 - (t2 + offset)| = max_diff -/+ a relative 2^-18 .. 2^-30 (dyadic: every operation exact);
    # a pair is formed iff the difference is <= max_diff, exactly (no isclose-style slack)
    for k in range(24):
        md = r.choice([0.5, 0.25, 1.0, 0.0078125])
        eps = md * 2.0 ** -r.choice([18, 22, 26, 30])
        n = r.randint(2, 7)
        s1 = [4.0 * j for j in range(n)]
        s2 = [t + r.choice([md - eps, md + eps, md, -md - eps, -md + eps, md / 2]) for t in s1]
        if k % 3 == 0:
            s2 = s2 + [s2[-1] + 4.0]
        off = r.choice([0.0, 0.0, 0.5, -1.0])
        yield {"kind": "grid", "s1": s1, "s2": [t - off for t in s2], "md": md, "off": off, "corpus": "max-diff-near-miss"}
    for n1 in (1, 2, 3, 4, 5, 7, 8, 9, 15, 16, 17, 31, 32, 33, 63, 64, 65):
        n2 = r.choice([n1, n1 + 1, max(1, n1 - 1), 2 * n1])
        yield {"kind": "grid", "s1": [k / 2 for k in range(n1)], "s2": [k / 2 + 0.125 for k in range(n2)],
               "md": r.choice([0.125, 0.25, 0.0]), "off": r.choice([0.0, -0.125, 0.5])}
    for _ in range(n_grid):
        n1, n2 = r.randint(1, 8), r.randint(1, 8)
        q = r.choice([1, 2, 4, 8])
        def stamps(n):
            s, t = [], r.randint(-8, 8)
            for _ in range(n):
                s.append(t / q)
                t += r.randint(1, 6)
            return s
        yield {"kind": "grid", "s1": stamps(n1), "s2": stamps(n2), "md": r.randint(0, 8) / q,
               "off": r.choice([0, 0, r.randint(-12, 12) / q])}
    for _ in range(n_rand):
        shape = r.choice(["same-rate", "diff-rate", "gaps", "disjoint", "short"])
        base = r.choice([0.0, 1.5e9 + r.random() * 1e6])
        n1 = r.randint(1, maxlen if shape != "short" else 6)
        rate1 = r.choice([10.0, 20.0, 30.0, 100.0])
        rate2 = rate1 if shape == "same-rate" else r.choice([7.0, 10.0, 25.0, 200.0])
        dur = n1 / rate1
        def mk(rate, start, dur, jitter):
            out, t = [], start
            while t < start + dur and len(out) < maxlen:
                out.append(t + r.uniform(-jitter, jitter))
                t += 1.0 / rate
                if shape == "gaps" and r.random() < 0.05:
                    t += r.uniform(0.2, 2.0)
            out = sorted(set(out))
            return out or [start]
        off = r.choice([0.0, 0.0, r.uniform(-2, 2), r.uniform(-1e-2, 1e-2)])
        s1 = mk(rate1, base, dur, 0.2 / rate1)
        start2 = base - off + (r.uniform(-0.5, 0.5) / rate2) + (dur + 5 if shape == "disjoint" else 0.0)
        s2 = mk(rate2, start2, dur * r.uniform(0.5, 1.5), 0.2 / rate2)
        md = r.choice([0.01, 0.5 / max(rate1, rate2), 1.0 / rate1, 0.0, 1e-3])
        yield {"kind": "random", "shape": shape, "s1": s1, "s2": s2, "md": md, "off": off}


PRE_READS = [[], ["poses_se3"], ["positions_xyz"], ["orientations_quat_wxyz"], ["poses_se3", "orientations_quat_wxyz"],
             ["check"], ["positions_xyz", "poses_se3"]]


def make_traj(stamps, tid, route="xyzquat", pre=()):
    """a trajectory whose pose k is identifiable (x = k); `route` = constructor route, `pre` = which lazily
    cached representations are materialised before the call under test (a stale cache must not be masked)"""
    from evo.core.trajectory import PoseTrajectory3D
    n = len(stamps)
    xyz = np.array([[float(k), float(2 * k + 1), float(tid)] for k in range(n)])
    ang = np.array([0.1 * (k + 1) + tid for k in range(n)])
    if route == "se3":
        poses = []
        for k in range(n):
            c, s_ = np.cos(ang[k]), np.sin(ang[k])
            m = np.eye(4)
            m[:3, :3] = [[c, -s_, 0.0], [s_, c, 0.0], [0.0, 0.0, 1.0]]
            m[:3, 3] = xyz[k]
            poses.append(m)
        tr = PoseTrajectory3D(poses_se3=poses, timestamps=np.array(stamps, dtype=float))
    else:
        quat = np.column_stack([np.cos(ang / 2), np.zeros(n), np.zeros(n), np.sin(ang / 2)])
        tr = PoseTrajectory3D(positions_xyz=xyz, orientations_quat_wxyz=quat, timestamps=np.array(stamps, dtype=float))
    for view in pre:
        if view == "check":
            tr.check()
        else:
            getattr(tr, view)
    return tr


def snap(tr):
    return (tr.timestamps.tobytes(), tr.positions_xyz.tobytes(), tr.orientations_quat_wxyz.tobytes(),
            b"".join(np.asarray(m).tobytes() for m in tr.poses_se3))


def run_impl(case):
    try:
        return run_impl_(case)
    except Exception as e:  # an unexpected exception of evo is an observable failure, not a tool error
        return {"crash": f"{type(e).__name__}: {e}"}


def run_impl_(case):
    from evo.core import sync
    s1, s2 = np.array(case["s1"], dtype=float), np.array(case["s2"], dtype=float)
    flavour = case.get("flavour", "plain")
    if flavour == "strided":       # non-contiguous views of larger arrays
        s1 = np.column_stack([s1, s1 + 1e6])[:, 0]
        s2 = np.repeat(s2, 2)[::2]
    elif flavour == "readonly":
        s1.setflags(write=False)
        s2.setflags(write=False)
    b1, b2 = s1.tobytes(), s2.tobytes()
    i1, i2 = sync.matching_time_indices(s1, s2, case["md"], case["off"])
    j1, j2 = sync.matching_time_indices(s1, s2, case["md"], case["off"])       # a second call sees the same inputs
    out = {"match": list(zip(map(int, i1), map(int, i2))),
           "match_repeatable": (list(i1), list(i2)) == (list(j1), list(j2)),
           "match_inputs_unchanged": s1.tobytes() == b1 and s2.tobytes() == b2}
    route, pre = case.get("route", "xyzquat"), case.get("pre", [])
    t1 = make_traj(case["s1"], 1, route, pre)
    t2 = t1 if case.get("same_obj") else make_traj(case["s2"], 2, route, pre)
    # twins built the same way are what the inputs must still look like afterwards; the objects under test
    # are not read before the call beyond what `pre` says
    w1 = make_traj(case["s1"], 1, route, pre)
    w2 = w1 if case.get("same_obj") else make_traj(case["s2"], 2, route, pre)
    before = (snap(w1), snap(w2))
    if case.get("earlier_shift") is not None and not case.get("same_obj") \
            and np.array_equal((np.asarray(t2.timestamps) - case["earlier_shift"]) + case["earlier_shift"], np.asarray(t2.timestamps)):
        # history on the SAME objects: the second trajectory held other timestamps (shifted by a dyadic amount) when the two
        # were associated a first time; its stamps were then edited in place (evo_traj's own `traj.timestamps += offset`
        # idiom). The association judged below must be that of the stamps the objects hold now.
        d_ = case["earlier_shift"]
        t2.timestamps -= d_
        try:
            sync.associate_trajectories(t1, t2, case["md"], case["off"])
        except sync.SyncException:
            pass
        t2.timestamps += d_
    try:
        o1, o2 = sync.associate_trajectories(t1, t2, case["md"], case["off"])
        ids = []
        exact = True
        for o, w in ((o1, w1), (o2, w2)):
            k = [int(round(m[0, 3])) for m in o.poses_se3]
            ids.append(k)
            n_out = len(k)
            if not (o.positions_xyz.shape[0] == n_out and o.orientations_quat_wxyz.shape[0] == n_out
                    and len(o.timestamps) == n_out and o.num_poses == n_out):
                exact = False
                continue
            for a, idx in enumerate(k):
                if not (0 <= idx < w.num_poses and o.timestamps[a].tobytes() == w.timestamps[idx].tobytes()
                        and o.positions_xyz[a].tobytes() == w.positions_xyz[idx].tobytes()
                        and o.orientations_quat_wxyz[a].tobytes() == w.orientations_quat_wxyz[idx].tobytes()
                        and np.asarray(o.poses_se3[a]).tobytes() == np.asarray(w.poses_se3[idx]).tobytes()):
                    exact = False
        out["assoc"] = {"ids1": ids[0], "ids2": ids[1], "copies_exact": exact,
                        "n1": int(o1.num_poses), "n2": int(o2.num_poses),
                        "independent": not (o1 is o2 or np.shares_memory(o1.timestamps, o2.timestamps)
                                            or np.shares_memory(o1.timestamps, t1.timestamps)
                                            or np.shares_memory(o2.positions_xyz, t2.positions_xyz)
                                            or any(a is b for a in o1.poses_se3 for b in t1.poses_se3)
                                            or any(a is b for a in o2.poses_se3 for b in t2.poses_se3))}
    except sync.SyncException:
        out["assoc"] = "E_SYNC"
    # object reuse: associating the same input objects again must give the same result
    try:
        p1, p2 = sync.associate_trajectories(t1, t2, case["md"], case["off"])
        again = [int(round(m[0, 3])) for m in p1.poses_se3], [int(round(m[0, 3])) for m in p2.poses_se3]
        out["assoc_repeatable"] = out["assoc"] != "E_SYNC" and again == (out["assoc"]["ids1"], out["assoc"]["ids2"]) \
            and snap(p1) == snap(o1) and snap(p2) == snap(o2)
    except sync.SyncException:
        out["assoc_repeatable"] = out["assoc"] == "E_SYNC"
    out["assoc_inputs_unchanged"] = (snap(t1), snap(t2)) == before
    return out


def model_lines(case):
    a = f"{rat(case['md'])} {rat(case['off'])} {ratlist(case['s1'])} {ratlist(case['s2'])}"
    return [f"C05 match {a}", f"C05 assoc {a}", f"C05 margin {a}"]


def slack(case):
    if case["kind"] == "grid":
        return Fraction(0)  # every float operation of evo is exact on the dyadic grid
    mag = max([abs(x) for x in case["s1"] + case["s2"]] + [abs(case["off"]), abs(case["md"]), 1e-300])
    return frac(mag) * Fraction(8, 2 ** 52)


def parse_pairs(s):
    return [tuple(map(int, p.split(":"))) for p in s.split()] if s.strip() else []


def judge(ctx, case, impl, outs):
    if "crash" in impl:
        ctx.fail(case, "no-unexpected-exception", impl["crash"])
        ctx.record(case, False)
        return
    m_match, m_assoc, m_margin = outs
    model_pairs = parse_pairs(m_match)
    sl = slack(case)
    exact = case["kind"] == "grid"
    # margin of the associate call (driving list = shorter one)
    comparable = exact or core.parse_rat(m_margin) > sl
    # ---- correspondence
    if comparable:
        if impl["match"] != model_pairs:
            ctx.mismatch(case, "matching_time_indices differs from Sync.matchIdx", impl["match"], model_pairs)
    else:
        ctx.skipped += 1
    if m_assoc == "E_SYNC":
        model_assoc = "E_SYNC"
    else:
        a, b = m_assoc.split("|")
        model_assoc = (list(map(int, a.split())), list(map(int, b.split())))
    impl_assoc = impl["assoc"] if impl["assoc"] == "E_SYNC" else (impl["assoc"]["ids1"], impl["assoc"]["ids2"])
    # margin for assoc uses swapped roles when the first is longer/equal: recompute exactness there
    assoc_comparable = exact or assoc_margin_ok(case, sl)
    if assoc_comparable and impl_assoc != model_assoc:
        ctx.mismatch(case, "associate_trajectories differs from Sync.associateIds", impl_assoc, model_assoc)
    # ---- oracle (the property sentence, exact rationals, float slack only at the thresholds)
    oracle(ctx, case, impl, sl)
    # ---- coverage bookkeeping
    ctx.count("dist", case["kind"] + ":" + case.get("shape", ""))
    ctx.count("dist", "route:" + case.get("route", "xyzquat") + "/pre:" + "+".join(case.get("pre", [])))
    ctx.count("dist", "array-flavour:" + case.get("flavour", "plain"))
    if case.get("same_obj"):
        ctx.count("dist", "same-object-for-both-arguments")
    ctx.count("dist", "len1%s2" % ("<" if len(case["s1"]) < len(case["s2"]) else "=" if len(case["s1"]) == len(case["s2"]) else ">"))
    ctx.count("dist", "offset" + ("0" if case["off"] == 0 else "+" if case["off"] > 0 else "-"))
    if model_assoc == "E_SYNC":
        ctx.count("branch", "refused-empty")
    else:
        ctx.count("branch", "second-longer" if len(case["s2"]) > len(case["s1"]) else "first-longer-or-equal")
    nshort = min(len(case["s1"]), len(case["s2"]))
    nontrivial = model_assoc != "E_SYNC" and len(model_assoc[0]) < nshort
    if has_contest(case):
        ctx.count("branch", "contested-counterpart")
        nontrivial = True
    if has_exact_threshold(case):
        ctx.count("branch", "difference-equals-max_diff")
    ctx.record(case, nontrivial)


def scale_of(case):
    """common denominator of all (dyadic) numbers of the case: distances are then exact Python ints"""
    den = 1
    for x in case["s1"] + case["s2"] + [case["off"], case["md"]]:
        den = max(den, frac(x).denominator)
    return den


def driving(case):
    """(short stamps, long stamps, offset as applied to the long list, second_longer), scaled to ints"""
    sc = scale_of(case)
    s1, s2 = [int(frac(x) * sc) for x in case["s1"]], [int(frac(x) * sc) for x in case["s2"]]
    off = int(frac(case["off"]) * sc)
    if len(s2) > len(s1):
        return s1, s2, off, True
    return s2, s1, -off, False


_DC = {}


def dists(case):
    """scaled integer distances |long + off - short| (rows: poses of the shorter trajectory)"""
    k = (tuple(case["s1"]), tuple(case["s2"]), case["off"], case["md"])
    if k not in _DC:
        _DC.clear()
        short, long_, off, _ = driving(case)
        _DC[k] = [[abs(u + off - t) for u in long_] for t in short]
    return _DC[k]


def assoc_margin_ok(case, sl):
    sc = scale_of(case)
    md, sl = frac(case["md"]) * sc, sl * sc
    for row in dists(case):
        srt = sorted(row)
        if abs(srt[0] - md) <= sl:
            return False
        if len(srt) > 1 and srt[1] - srt[0] <= sl:
            return False
    return True


def has_contest(case):
    md = frac(case["md"]) * scale_of(case)
    near = [min(range(len(row)), key=lambda j: (row[j], j)) for row in dists(case)]
    ok = [j for j, row in zip(near, dists(case)) if row[j] <= md]
    return len(ok) != len(set(ok))


def has_exact_threshold(case):
    md = frac(case["md"]) * scale_of(case)
    return any(min(row) == md for row in dists(case))


def oracle(ctx, case, impl, sl):
    sc = scale_of(case)
    md, sl = frac(case["md"]) * sc, sl * sc
    off = int(frac(case["off"]) * sc)
    s1, s2 = [int(frac(x) * sc) for x in case["s1"]], [int(frac(x) * sc) for x in case["s2"]]
    if not impl["match_inputs_unchanged"] or not impl["assoc_inputs_unchanged"]:
        ctx.fail(case, "inputs-unmodified", "an input array/trajectory was modified")
    if not impl.get("match_repeatable", True) or not impl.get("assoc_repeatable", True):
        ctx.fail(case, "same-inputs-same-result", "a second call on the same (unmodified) input objects gave a different result")
    short, long_, offl, snd_longer = driving(case)
    D = dists(case)
    a = impl["assoc"]
    # which short poses must be matched: nearest within md (clear of the slack), uncontested
    near = [min(range(len(row)), key=lambda j: (row[j], j)) for row in D]
    clear = [len(row) == 1 or sorted(row)[1] - sorted(row)[0] > sl for row in D]
    cand = {}
    for i, j in enumerate(near):
        if D[i][j] <= md + sl:
            cand.setdefault(j, []).append(i)
    must = [(i, near[i]) for i in range(len(short))
            if D[i][near[i]] <= md - sl and clear[i] and cand.get(near[i]) == [i]]
    if a == "E_SYNC":
        if must:
            ctx.fail(case, "refused-although-matches-exist", f"must-pairs {must[:3]}")
        return
    ids1, ids2 = a["ids1"], a["ids2"]
    if a["n1"] != a["n2"] or len(ids1) != len(ids2):
        ctx.fail(case, "equal-length", f"{a['n1']} vs {a['n2']}")
        return
    if len(ids1) == 0:
        ctx.fail(case, "empty-result-not-refused", "no pairs but no SyncException")
    if not a["copies_exact"]:
        ctx.fail(case, "unmodified-copies", "an output pose is not a bit-identical copy of an input pose (pose+stamp)")
    if not a["independent"]:
        ctx.fail(case, "outputs-independent", "output shares memory with an input")
    for name, ids, n in (("first", ids1, len(s1)), ("second", ids2, len(s2))):
        if len(set(ids)) != len(ids):
            ctx.fail(case, "pose-used-once", f"{name} trajectory: indices {ids[:10]}")
        elif any(b <= a_ for a_, b in zip(ids, ids[1:])):
            ctx.fail(case, "increasing-time-order", f"{name} trajectory: indices {ids[:10]}")
    for k, (i1, i2) in enumerate(zip(ids1, ids2)):
        if not (0 <= i1 < len(s1) and 0 <= i2 < len(s2)):
            ctx.fail(case, "valid-indices", f"pair {k}: {i1},{i2}")
            return
        d = abs(s1[i1] - (s2[i2] + off))
        if d > md + sl:
            ctx.fail(case, "within-max_diff", f"pair {k} ({i1},{i2}) |t1-(t2+off)|={float(d / sc)} > {float(md / sc)}")
        i, j = (i1, i2) if snd_longer else (i2, i1)
        if D[i][j] > min(D[i]) + sl:
            ctx.fail(case, "nearest-counterpart", f"pair {k}: short pose {i} paired with {j}, nearest is {near[i]}")
    got = set(zip(ids1, ids2)) if snd_longer else set(zip(ids2, ids1))
    for (i, j) in must:
        if (i, j) not in got:
            ctx.fail(case, "completeness", f"short pose {i} has uncontested nearest counterpart {j} within max_diff but is not paired")
            break


def shrink(case):
    for key in ("s1", "s2"):
        s = case[key]
        if len(s) > 1:
            for cut in (len(s) // 2, 1):
                for start in range(0, len(s), cut):
                    c = dict(case)
                    c[key] = s[:start] + s[start + cut:]
                    if c[key]:
                        yield c
    if case["off"] != 0:
        c = dict(case); c["off"] = 0.0
        yield c


def evaluate(ctx, cases):
    impls = [run_impl(c) for c in cases]
    lines = []
    for c in cases:
        lines += model_lines(c)
    outs = core.run_driver(lines)
    for k, c in enumerate(cases):
        try:
            judge(ctx, c, impls[k], outs[3 * k: 3 * k + 3])
        except Exception as e:  # noqa: BLE001 -- what evo returned could not even be judged: a finding about this case, never a tool error
            ctx.fail(c, "output-cannot-be-judged", f"the harness could not judge what evo returned: {type(e).__name__}: {str(e)[:200]}")


def check(ctx):
    lean = core.lean_side(ctx.prop, ctx.tier)
    core.drift(ctx, MODELLED)
    cases = list(gen_cases(ctx))
    evaluate(ctx, cases)
    core.shrink_all(ctx, shrink, evaluate)
    return core.finish(ctx, lean, rule=RULE,
                       open_clauses=["'inputs are not modified' is a frame condition: checked by snapshot on every case, the model is purely functional",
                                     "float rounding of stamps+offset and of the differences: cases within 8 ulp of a decision threshold are skipped, not compared"],
                       assumptions=["timestamps strictly increasing for the 'increasing time order' clause (as the property states)"])


def replay(ctx, data):
    lean = {"obligations": 0, "discharged": 0, "broken": [], "theorems": [], "cmds": []}
    core.sh("lake build drv_C05", cwd=core.LEAN)
    evaluate(ctx, [data["case"]])
    return core.finish_replay(ctx)
