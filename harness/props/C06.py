"""C06 — writing and re-reading is lossless (evo/tools/file_interface.py writers/readers, result
archives, pandas_bridge, ROS1 bag export).  Model: Model/F64.lean (rne), Model/TextFormats.lean
(parseDec, close, readers, bag stamps), Model/Json.lean; translator: harness/translate/formats.py.
Oracle: bit patterns of what was given to the writer vs. what the reader returns."""
import io
import json
import math
import os
import re
import struct
import tempfile
import warnings
import zipfile
import numpy as np
import core
import textfmt as tf
from core import Fraction, frac, rat
from translate import formats, dfcols

warnings.filterwarnings("ignore", category=RuntimeWarning)
RULE = ("cases = trajectory/result objects with doubles needing 17 digits (neighbours of powers of 2 and 10, random bit patterns), "
        "1e-300..1e300, subnormals, 5e-324, max double, -0.0, epoch stamps with ns fractions; written and re-read through every "
        "variant (TUM/KITTI x path/handle, result zip x path/handle x with/without trajectories, DataFrame, ROS1 bag); every token "
        "checked against the literal grammar and closeness 2^-55, every parsed value against rne(parseDec token); outputs compared "
        "as bit patterns; non-trivial = more than one pose or a non-ASCII / escaped info string; distinct by content hash")
MODELLED = ["evo/tools/file_interface.py:write_tum_trajectory_file", "evo/tools/file_interface.py:read_tum_trajectory_file",
            "evo/tools/file_interface.py:write_kitti_poses_file", "evo/tools/file_interface.py:read_kitti_poses_file",
            "evo/tools/file_interface.py:csv_read_matrix", "evo/tools/file_interface.py:save_res_file",
            "evo/tools/file_interface.py:load_res_file", "evo/tools/file_interface.py:write_bag_trajectory",
            "evo/tools/file_interface.py:read_bag_trajectory", "evo/tools/pandas_bridge.py:trajectory_to_df",
            "evo/tools/pandas_bridge.py:df_to_trajectory", "evo/core/result.py:Result.add_np_array",
            "evo/core/result.py:Result.add_trajectory"]
TMP = None
NHIST = 0
MODEL_ROWS = 4000        # rows of a huge file that are also pushed through the Lean driver


def od(c, key):
    """(name, value) pairs of a dict field in the recorded insertion order (replay files are written with sorted keys)"""
    d = c[key]
    order = [k for k in c.get(key + "_order", []) if k in d]
    return [(k, d[k]) for k in order + [k for k in d if k not in order]]


def with_orders(c):
    if c.get("kind") == "result":
        for key in ("info", "stats", "arrays", "trajs"):
            c.setdefault(key + "_order", list(c[key]))
    elif c.get("kind") == "history" and c.get("target") == "res":
        for st in c["steps"]:
            for key in ("info", "stats", "arrays", "trajs"):
                st["payload"].setdefault(key + "_order", list(st["payload"][key]))
    return c


def tmpdir():
    global TMP
    if TMP is None:
        TMP = tempfile.mkdtemp(prefix="c06_")
    return TMP


# ------------------------------------------------------------------ values
def hard_double(r):
    k = r.random()
    if k < 0.15:
        e = r.randint(-300, 300)
        x = float("1e%d" % e)
        return r.choice([x, math.nextafter(x, math.inf), math.nextafter(x, -math.inf)]) * r.choice([1, -1])
    if k < 0.3:
        x = math.ldexp(1.0, r.randint(-1022, 1023))
        return r.choice([x, math.nextafter(x, math.inf), math.nextafter(x, 0.0)]) * r.choice([1, -1])
    if k < 0.55:
        b = r.getrandbits(64)
        x = struct.unpack(">d", struct.pack(">Q", b))[0]
        if math.isfinite(x):
            return x
        return 1.0
    if k < 0.65:
        return r.choice([0.0, -0.0, 5e-324, -5e-324, 1.7976931348623157e308, -1.7976931348623157e308, 2.2250738585072014e-308,
                         2.225073858507201e-308, 0.1, 0.2, 0.30000000000000004, 1 / 3, 9007199254740993.0, 1e22, 1e23, 8.41e21,
                         5e-324 * 3, 2 ** -1074 * (2 ** 52 - 1), 123456.789e-300, 9.999999999999999e22])
    if k < 0.8:
        return r.uniform(-1, 1) * 10.0 ** r.randint(-300, 300)
    return r.uniform(-100, 100)


def stamps(r, n):
    k = r.random()
    if k < 0.6:
        t0 = 1.5e9 + r.randint(0, 10 ** 8)
        out, t = [], t0 + r.randint(0, 10 ** 9) / 1e9
        for _ in range(n):
            out.append(t)
            t = t + r.choice([0.01, 0.05, 1.0, r.uniform(1e-4, 0.1)]) + r.randint(0, 999) / 1e9
        return out
    if k < 0.8:
        return sorted(set(r.uniform(0, 1000) for _ in range(n))) or [0.0]
    return sorted(set(abs(hard_double(r)) % 2.0e9 for _ in range(n))) or [0.0]


def gen_traj(r, n):
    st = stamps(r, n)
    n = len(st)
    return {"stamps": st, "xyz": [[hard_double(r) for _ in range(3)] for _ in range(n)],
            "quat": [[hard_double(r) if r.random() < 0.5 else r.uniform(-1, 1) for _ in range(4)] for _ in range(n)]}


def gen_mats(r, n):
    return [[[hard_double(r) if r.random() < 0.6 else r.uniform(-1, 1) for _ in range(4)] for _ in range(3)] for _ in range(n)]


STRINGS = ["plain", "", "with \"quotes\" and \\ backslash", "tab\tnewline\ncr\r", "\x00\x01\x1f\x7f", "ünïcödé", "位置と姿勢", "\U0001F600 emoji \U0001F680",
           "APE w.r.t. translation part (m)", "/path/to/est.tum", "  ", "\ufeff bom", "mixed é\"\\\n\U00010000\U0010FFFF", "</script>", "퟿"]


def rand_string(r):
    if r.random() < 0.6:
        return r.choice(STRINGS)
    n = r.randint(0, 12)
    out = []
    for _ in range(n):
        k = r.random()
        if k < 0.4:
            out.append(chr(r.randint(32, 126)))
        elif k < 0.55:
            out.append(chr(r.randint(0, 31)))
        elif k < 0.75:
            c = r.randint(128, 0xFFFF)
            out.append(chr(c) if not (0xD800 <= c <= 0xDFFF) else "é")
        else:
            out.append(chr(r.randint(0x10000, 0x10FFFF)))
    return "".join(out)


def gen_cases(ctx):
    for c in gen_cases_raw(ctx):
        yield with_orders(c)


def gen_cases_raw(ctx):
    r = ctx.rng
    th = ctx.thorough
    # corpus (runs first): DataFrame round trip of trajectories whose stamps are integer-valued floats 0, 1, ..., n-1 (they look like
    # the integer index of a path: seeded change C06-3), single pose at 0.0 / -0.0, and the same shifted to 5.0 as a control
    for st in ([0.0], [-0.0], [0.0, 1.0, 2.0], [float(k) for k in range(10)], [5.0], [5.0, 6.0, 7.0], [float(k) for k in range(5, 15)], [1.0, 2.0]):
        n = len(st)
        yield {"kind": "df", "type": "tum", "stamps": st, "xyz": [[hard_double(r) for _ in range(3)] for _ in range(n)],
               "quat": [[r.uniform(-1, 1) for _ in range(4)] for _ in range(n)], "corpus": "arange-like-stamps"}
    # corpus (runs first): F14, the stamp that came back 1.86 ns off before the repair; the carry of the repaired code
    cp = core.VERIF / "harness" / "corpus" / "C06" / "bag-stamp-2p23.json"
    if cp.exists():
        yield dict(json.loads(cp.read_text())["case"], corpus="F14")
    yield {"kind": "bag", "stamps": [5.999999999999, 7.9999999996, 8.9999999995, 9.99999999949, 1499999999.9999998], "xyz": [[1.0, 2.0, 3.0]] * 5,
           "quat": [[1.0, 0.0, 0.0, 0.0]] * 5, "frame": "map", "corpus": "carry"}
    yield {"kind": "text", "fmt": "tum", "variant": "h", "rw": "h", "stamps": [1500000000.1234567], "xyz": [[5e-324, 1.7976931348623157e308, -0.0]],
           "quat": [[0.1, 0.2, 0.30000000000000004, 1 / 3]], "corpus": "extremes"}
    yield {"kind": "bag", "stamps": [1500000000.1234567, 1500000001.0000000], "xyz": [[1.0, 2.0, 3.0]] * 2, "quat": [[1.0, 0.0, 0.0, 0.0]] * 2,
           "frame": "map", "corpus": "epoch"}
    for _ in range(800 if not th else 8000):
        n = r.choice([1, 1, 2, 3, 5, 10, 30])
        fmt = r.choice(["tum", "kitti"])
        c = {"kind": "text", "fmt": fmt, "variant": r.choice(["h", "p"]), "rw": r.choice(["h", "p", "ho"])}
        c.update(gen_traj(r, n) if fmt == "tum" else {"mats": gen_mats(r, n)})
        if fmt == "tum" and r.random() < 0.12:          # L6: the writers accept unsorted / duplicate stamps
            st = c["stamps"]
            c["stamps"] = r.choice([st[::-1], st[:1] * len(st), r.sample(st, len(st))])
        yield c
    # L5: structured pose counts
    for n in ([1, 2, 3, 4, 7, 8, 9, 15, 16, 17, 31, 32, 33, 63, 64, 65, 127, 128, 129, 255, 256, 257, 511, 512, 513, 1023, 1024, 1025]
              + ([4095, 4096, 4097, 65535, 65536, 65537] if th else [])):
        fmt = r.choice(["tum", "kitti"])
        c = {"kind": "text", "fmt": fmt, "variant": r.choice(["h", "p"]), "rw": r.choice(["h", "p"]), "sized": True}
        c.update(gen_traj(r, n) if fmt == "tum" else {"mats": gen_mats(r, n)})
        yield c
    # L3: array flavours (int / float32 / non-contiguous / Fortran order / read-only / lists / views of one base) through every writer
    for _ in range(260 if not th else 1500):
        n = r.choice([1, 2, 3, 5, 9])
        k = r.random()
        if k < 0.4:
            fmt = r.choice(["tum", "kitti"])
            c = {"kind": "text", "fmt": fmt, "variant": r.choice(["h", "p"]), "rw": r.choice(["h", "p"])}
            c.update(gen_flavoured(r, n) if fmt == "tum" else gen_flavoured_mats(r, n))
        elif k < 0.6:
            c = {"kind": "df", "type": r.choice(["tum", "kitti"])}
            c.update(gen_flavoured(r, n))
            if c["flavour"] == "int":
                c["stamp_flavour"] = None       # an integer index makes df_to_trajectory return a path (documented observation, DESIGN 6)
        elif k < 0.75:
            c = {"kind": "bag", "frame": "map"}
            c.update(gen_flavoured(r, n))
            if c["flavour"] == "f32":
                # float32 *timestamps* make write_bag_trajectory do its sec/nanosec arithmetic in float32 (several ns off): outside the
                # property's domain (float64 values; decided), see notes/observations/C06-bag-stamp-float32.json — not generated
                c["stamp_flavour"] = None
        else:
            afl = r.choice(["int", "f32", "noncontig", "readonly", "fortran"])
            arr = flavour_values(r, afl, 1, r.randint(1, 6))[0]
            trajs = {"traj_est": {"type": "tum", **gen_flavoured(r, n)}}
            if r.random() < 0.5:
                trajs["path"] = {"type": "kitti", **gen_flavoured_mats(r, n)}
            c = {"kind": "result", "variant": r.choice(["h", "p"]), "load_traj": True, "info": {"title": "flavours"}, "stats": {"rmse": hard_double(r)},
                 "arrays": {"error_array": arr}, "array_flavour": afl, "trajs": trajs}
        yield c
    # L1: one object written twice, read back, the loaded object written again, read again
    for _ in range(80 if not th else 400):
        n = r.choice([1, 2, 5, 12])
        fmt = r.choice(["tum", "kitti"])
        c = {"kind": "reuse", "fmt": fmt}
        c.update(gen_traj(r, n) if fmt == "tum" else {"mats": gen_mats(r, n)})
        yield c
    # L4: construction routes x pre-read caches (expected values from an identically built twin)
    for _ in range(80 if not th else 400):
        n = r.choice([1, 2, 4, 9])
        t = gen_traj(r, n)
        t["quat"] = [[q / math.sqrt(sum(v * v for v in qq)) for q in qq] for qq in
                     [[r.gauss(0, 1) for _ in range(4)] for _ in range(len(t["stamps"]))]]
        t["xyz"] = [[r.uniform(-1e3, 1e3) for _ in range(3)] for _ in t["stamps"]]
        yield {"kind": "route", "built_from": r.choice(["xyz_quat", "poses"]), "write": r.choice(["tum", "kitti", "df", "zip"]),
               "preread": r.sample(["positions_xyz", "orientations_quat_wxyz", "poses_se3", "check", "distances"], r.randint(0, 3)), **t}
    big = 6000 if not th else 100000
    c = {"kind": "text", "fmt": "tum", "variant": "p", "rw": "p", "big": True}
    c.update(gen_traj(r, big))
    yield c
    yield {"kind": "text", "fmt": "kitti", "variant": "h", "rw": "p", "mats": gen_mats(r, big // 4), "big": True}
    for _ in range(400 if not th else 4000):
        n = r.choice([1, 2, 5, 20])
        info = {}
        for _ in range(r.randint(0, 5)):
            info[rand_string(r) if r.random() < 0.3 else r.choice(["title", "label", "ref_name", "est_name", "k%d" % r.randint(0, 9)])] = rand_string(r)
        statsd = {k: hard_double(r) for k in r.sample(["rmse", "mean", "median", "std", "min", "max", "sse"], r.randint(0, 7))}
        arrays = {"error_array": [hard_double(r) for _ in range(n)]}
        if r.random() < 0.7:
            arrays["timestamps"] = stamps(r, n)
        if r.random() < 0.3:
            arrays["distances_from_start"] = [abs(hard_double(r)) for _ in range(n)]
        case_fl = None
        if r.random() < 0.35:
            # a matrix-valued entry (evo stores the 4x4 alignment transformation): every entry comes back in its own place,
            # whatever the memory order of the array that was stored (column-major / a transposed view included)
            arrays["alignment_transformation_sim3"] = [[hard_double(r) for _ in range(4)] for _ in range(r.choice([4, 4, 3]))]
            case_fl = r.choice(["fortran", "fortran", "noncontig", None])
        trajs = {}
        if r.random() < 0.7:
            trajs["traj_est"] = {"type": "tum", **gen_traj(r, n)}
            if r.random() < 0.7:
                trajs["traj_ref"] = {"type": "tum", **gen_traj(r, n)}
            if r.random() < 0.3:
                trajs["path"] = {"type": "kitti", "mats": gen_mats(r, n)}
        yield {"kind": "result", "variant": r.choice(["h", "p"]), "load_traj": r.random() < 0.6, "info": info, "stats": statsd,
               "arrays": arrays, "trajs": trajs, **({"array_flavour": case_fl} if case_fl else {})}
    tnames = ["traj_est", "traj_ref", "位置", "tr é", "a.b", ".hidden", "x.tum", "y.npy", "z.kitti", "名前 with space",
              "emoji\U0001F600", "UPPER.TUM", "t.", "info.json", "stats", "1e3", "-1", "traj_est ", " traj_est", "..", ".", "a..b", "CON", "*", "a\\b",
              "traj_est.tum.tum", "0", "nan", "TRAJ_EST", "tab\there", "b.kitti.npy"]
    anames = ["error_array", "timestamps", "dist é", "a.npy", "b.tum", "seconds_from_start", "位置", "c.kitti", "info.json", "1e3", "-1",
              "error_array ", "..", "ERROR_ARRAY", "x.npz"]
    for _ in range(150 if not th else 600):
        k = r.choice([2, 3, 3, 4, 5])
        lens = sorted(r.sample([1, 2, 3, 4, 6, 9, 14, 20], k), reverse=True)
        if r.random() < 0.25:
            r.shuffle(lens)
        trajs = {}
        for name, n in zip(r.sample(tnames, k), lens):
            trajs[name] = {"type": "tum", **gen_traj(r, n)} if r.random() < 0.65 else {"type": "kitti", "mats": gen_mats(r, n)}
        arrays = {name: [hard_double(r) for _ in range(r.randint(1, 5))] for name in r.sample(anames, r.randint(1, 3))}
        base = {"kind": "result", "variant": r.choice(["h", "p"]), "load_traj": r.random() < 0.85, "info": {"title": rand_string(r)},
                "stats": {"rmse": hard_double(r)}, "arrays": arrays, "trajs": trajs, "multi": True}
        if r.random() < 0.3 and len(trajs) >= 2:        # L3/L9: one object stored under two names
            names = list(trajs)
            base["same_object"] = {names[-1]: names[0]}
            trajs[names[-1]] = trajs[names[0]]
        yield base
        if r.random() < 0.35:                            # L9: the same names, inserted in the reverse order
            rev = {k: v for k, v in base.items() if not k.endswith("_order")}
            rev["trajs"] = dict(reversed(list(trajs.items())))
            rev["arrays"] = dict(reversed(list(arrays.items())))
            if "same_object" in base:
                a, b = next(iter(base["same_object"].items()))
                rev["same_object"] = {b: a}
            yield rev
    for _ in range(250 if not th else 1000):
        n = r.choice([1, 2, 5, 40])
        c = {"kind": "df", "type": r.choice(["tum", "kitti"])}
        c.update(gen_traj(r, n))
        if r.random() < 0.25:       # integer-valued float stamps, also starting at 0 / -0.0
            m = len(c["stamps"])
            start = r.choice([0, 0, 1, 5, r.randint(0, 10 ** 6)])
            c["stamps"] = [float(start + i) for i in range(m)]
            if start == 0 and r.random() < 0.3:
                c["stamps"][0] = -0.0
        yield c
    for _ in range(120 if not th else 500):
        n = r.choice([1, 2, 5, 30])
        t = gen_traj(r, n)
        if r.random() < 0.3:      # fractions that round up to the next second / sit in the range of F14
            base = r.randint(0, 10 ** 6)
            t["stamps"] = sorted(set([base + i + r.choice([0.9999999995, 0.9999999996, 0.999999999999, 0.25]) for i in range(n)]
                                     + [r.uniform(2 ** 23, 2 ** 24)]))[:n]
        t["stamps"] = [s for s in t["stamps"] if s < 2 ** 31] or [0.5]
        m = len(t["stamps"])
        yield {"kind": "bag", "stamps": t["stamps"], "xyz": t["xyz"][:m], "quat": t["quat"][:m],
               "frame": r.choice(["map", "", "odom", "wörld/位置", "base link", "/world", "world/", "//a", "/", "/a/b/", " map", "map ", " ", "\\tf", "/ x",
                                  "MAP", "1e3", "-1", "a//b", "/wörld", "tab\tid"])}
    # path-reuse histories: save X to p; load p; save Y to p; load p; ... with p spelled in several ways
    for _ in range(120 if not th else 600):
        target = r.choice(["res", "res", "res", "tum", "kitti", "euroc", "tf"])
        nsteps = r.choice([2, 2, 3, 4])
        steps = []
        for _i in range(nsteps):
            n = r.choice([1, 2, 3, 5, 8])
            if target == "res":
                trajs = {}
                if r.random() < 0.7:
                    trajs["traj_est"] = {"type": "tum", **gen_traj(r, n)}
                if r.random() < 0.3:
                    trajs["path"] = {"type": "kitti", "mats": gen_mats(r, n)}
                payload = {"info": {"title": rand_string(r)}, "stats": {"rmse": hard_double(r), "max": hard_double(r)},
                           "arrays": {"error_array": [hard_double(r) for _ in range(n)], "timestamps": stamps(r, n)}, "trajs": trajs}
            elif target == "tum":
                payload = gen_traj(r, n)
            elif target == "kitti":
                payload = {"mats": gen_mats(r, n)}
            elif target == "euroc":
                w = 7 + r.choice([0, 9])
                payload = {"text": "#timestamp,p\n" + "".join(
                    ",".join([str(r.randint(14 * 10 ** 17, 17 * 10 ** 17))] + [tf.spellings(r, r.uniform(-5, 5)) for _ in range(w)]) + "\n"
                    for _ in range(n))}
            else:
                a = r.uniform(0, 6.28)
                sc = r.choice([1.0, 2.0, 0.5])
                payload = {"store": r.choice(["npy", "txt", "json"]), "json": json.dumps({"x": r.uniform(-9, 9), "y": r.uniform(-9, 9), "z": 0.5, "qx": 0.0, "qy": 0.0,
                                                                                     "qz": math.sin(a / 2), "qw": math.cos(a / 2), "scale": sc}),
                           "mat": [[sc * math.cos(a), -sc * math.sin(a), 0.0, r.uniform(-9, 9)], [sc * math.sin(a), sc * math.cos(a), 0.0, r.uniform(-9, 9)],
                                   [0.0, 0.0, sc, r.uniform(-9, 9)], [0.0, 0.0, 0.0, 1.0]]}
            steps.append({"payload": payload, "save_spell": r.choice(["rel", "dot", "dotdot", "abs"]), "load_spell": r.choice(["rel", "dot", "dotdot", "abs"]),
                          "save_ptype": r.choice(["str", "Path"]), "load_ptype": r.choice(["str", "Path"]),
                          "flags": [r.random() < 0.6 for _ in range(r.choice([1, 1, 2]))]})
        if r.random() < 0.5:        # the same spelling throughout (the most common use)
            sp, pt = r.choice(["rel", "dot", "dotdot", "abs"]), r.choice(["str", "Path"])
            for st in steps:
                st.update(save_spell=sp, load_spell=sp, save_ptype=pt, load_ptype=pt)
        yield {"kind": "history", "target": target, "steps": steps}
    # bag stamp model alone: many stamps, no bag file
    yield {"kind": "bagstamps", "stamps": [abs(hard_double(r)) % 2.0 ** 31 for _ in range(300 if not th else 5000)]
           + [s for _ in range(50) for s in stamps(r, 20)] + [r.uniform(2 ** 23, 2 ** 24) for _ in range(300)]
           + [float(r.randint(0, 2 ** 22)) + r.choice([0.9999999995, 0.9999999996, 0.99999999949, 0.999999999999, 1 - 2 ** -30, 0.4999999995, 0.5000000005])
              for _ in range(200)] + [0.0, 0.999999999, 0.9999999999, 1.0 - 2 ** -53, 2 ** 31 - 2 ** -22, 1e-10, 4.9e-324]}
    # rne against CPython's correctly rounded division (validation of the executable rounding)
    yield {"kind": "rne", "qs": [rand_rational(r) for _ in range(2000 if not th else 20000)]}


def rand_rational(r):
    k = r.random()
    if k < 0.3:
        m = r.getrandbits(r.choice([53, 54, 60, 64, 120]))
        e = r.randint(-1140, 1030)
        v = Fraction(m) * Fraction(2) ** e
    elif k < 0.5:   # exact ties and their neighbours
        m = r.getrandbits(53) | (1 << 52)
        e = r.randint(-1074, 970)
        v = (Fraction(2 * m + 1) + r.choice([0, 0, Fraction(1, 10 ** 30), -Fraction(1, 10 ** 30)])) * Fraction(2) ** (e - 1)
    elif k < 0.7:
        v = Fraction(r.getrandbits(80) + 1, r.getrandbits(80) + 1) * Fraction(10) ** r.randint(-320, 308)
    elif k < 0.85:
        v = Fraction(r.randint(0, 10 ** 19), 10 ** r.randint(0, 30)) * Fraction(10) ** r.randint(-330, 300)
    else:
        v = Fraction(r.getrandbits(12), 1 << 12) * Fraction(2) ** r.choice([-1074, -1075, -1076, -1022, -1023, 1023, 1024])
    v = -v if r.random() < 0.3 else v
    return [v.numerator, v.denominator]


# ------------------------------------------------------------------ evo side
FLAVOURS = ["int", "f32", "noncontig", "fortran", "readonly", "list", "alias"]


def flav(a, fl):
    """the same element values in another array flavour (L3); the case data already hold the exact float64 values"""
    a = np.array(a, dtype=float)
    if fl == "int":
        return a.astype(np.int64)
    if fl == "f32":
        return a.astype(np.float32)
    if fl == "noncontig":
        base = np.full(tuple(2 * d for d in a.shape), 7.0)
        view = base[tuple(slice(None, None, 2) for _ in a.shape)]
        view[...] = a
        return view
    if fl == "fortran":
        return np.asfortranarray(a)
    if fl == "readonly":
        a.setflags(write=False)
        return a
    if fl == "list":
        return a.tolist()
    if fl == "alias":           # rows are views of one base array holding all the data
        base = np.concatenate([a.reshape(-1), a.reshape(-1)])
        return base[:a.size].reshape(a.shape)
    return a


def mk_traj(c):
    from evo.core.trajectory import PoseTrajectory3D
    fl = c.get("flavour")
    return PoseTrajectory3D(flav(c["xyz"], fl), flav(c["quat"], fl), flav(c["stamps"], c.get("stamp_flavour", fl)))


def mk_path(c):
    from evo.core.trajectory import PosePath3D
    fl = c.get("flavour")
    if fl == "alias" and len({json.dumps(m) for m in c["mats"]}) == 1:
        P = np.array(c["mats"][0] + [[0.0, 0.0, 0.0, 1.0]], dtype=float)
        return PosePath3D(poses_se3=[P] * len(c["mats"]))            # one matrix object in every slot
    fl = None if fl == "list" else fl
    return PosePath3D(poses_se3=[flav(m + [[0.0, 0.0, 0.0, 1.0]], fl) for m in c["mats"]])


def flavour_values(r, fl, n, role):
    """element values that the flavour can hold exactly"""
    if fl == "int":
        return [[float(r.randint(-10 ** 6, 10 ** 6)) for _ in range(role)] for _ in range(n)]
    if fl == "f32":
        return [[float(np.float32(r.choice([r.uniform(-100, 100), hard_double(r) % 1e30, 0.1, 1 / 3, 16777217.0]))) for _ in range(role)] for _ in range(n)]
    return [[hard_double(r) for _ in range(role)] for _ in range(n)]


def gen_flavoured(r, n):
    fl = r.choice(FLAVOURS)
    if fl == "int":
        st = sorted(float(v) for v in r.sample(range(0, 10 ** 6), n))
    elif fl == "f32":
        st = sorted(set(float(np.float32(r.uniform(0, 5000))) for _ in range(n)))
    else:
        st = stamps(r, n)
    n = len(st)
    return {"flavour": fl, "stamps": st, "xyz": flavour_values(r, fl, n, 3), "quat": flavour_values(r, fl, n, 4)}


def gen_flavoured_mats(r, n):
    fl = r.choice([f for f in FLAVOURS if f != "list"])
    if fl == "alias":
        m = gen_mats(r, 1)[0]
        return {"flavour": fl, "mats": [m] * n}
    if fl in ("int", "f32"):
        vals = flavour_values(r, fl, n, 12)
        return {"flavour": fl, "mats": [[v[0:4], v[4:8], v[8:12]] for v in vals]}
    return {"flavour": fl, "mats": gen_mats(r, n)}


def traj_bits(obj):
    """bit patterns of everything a trajectory object holds, in evo's slot order"""
    from evo.core.trajectory import PoseTrajectory3D
    if isinstance(obj, PoseTrajectory3D):
        return {"type": "tum", "rows": [[tf.bits(t)] + [tf.bits(v) for v in x] + [tf.bits(v) for v in q]
                                        for t, x, q in zip(obj.timestamps, obj.positions_xyz, obj.orientations_quat_wxyz)],
                "lens": [len(obj.timestamps), len(obj.positions_xyz), len(obj.orientations_quat_wxyz)]}
    return {"type": "kitti", "rows": [[tf.bits(v) for v in np.asarray(p).flatten()] for p in obj.poses_se3]}


def want_bits(c):
    if "mats" in c:
        return {"type": "kitti", "rows": [[tf.bits(v) for row in m for v in row] + [tf.bits(v) for v in (0.0, 0.0, 0.0, 1.0)] for m in c["mats"]]}
    return {"type": "tum", "rows": [[tf.bits(t)] + [tf.bits(v) for v in x] + [tf.bits(v) for v in q]
                                    for t, x, q in zip(c["stamps"], c["xyz"], c["quat"])]}


def guarded(f):
    def g(case):
        try:
            return f(case)
        except Exception as e:  # noqa
            return {"status": "EXC:" + type(e).__name__, "msg": str(e)[:200]}
    return g


@guarded
def impl_text(c):
    from evo.tools import file_interface as fi
    obj = mk_traj(c) if c["fmt"] == "tum" else mk_path(c)
    wr = fi.write_tum_trajectory_file if c["fmt"] == "tum" else fi.write_kitti_poses_file
    rd = fi.read_tum_trajectory_file if c["fmt"] == "tum" else fi.read_kitti_poses_file
    if c["variant"] == "h":
        buf = io.StringIO()
        wr(buf, obj)
        text = buf.getvalue()
    else:
        p = os.path.join(tmpdir(), "w.txt")
        if os.path.exists(p):
            os.remove(p)
        wr(p, obj)
        with open(p, "rb") as fh:
            text = fh.read().decode("utf-8")
    if c["rw"] == "h":
        back = rd(io.StringIO(text))
    elif c["rw"] == "ho":
        # a handle that is not at offset 0: another trajectory was written into
        # the same stream before; the reader gets the handle where this one starts
        buf = io.StringIO()
        wr(buf, obj)
        at = buf.tell()
        wr(buf, obj)
        buf.seek(at)
        back = rd(buf)
    else:
        p = os.path.join(tmpdir(), "r.txt")
        with open(p, "wb") as fh:
            fh.write(text.encode("utf-8"))
        back = rd(p)
    return {"status": "ok", "text": text, "back": traj_bits(back)}


def result_of(c):
    from evo.core import result
    res = result.Result()
    for k, v in od(c, "info"):
        res.add_info({k: v})
    res.add_stats(dict(od(c, "stats")))
    for k, v in od(c, "arrays"):
        res.add_np_array(k, np.asarray(flav(v, c.get("array_flavour"))))
    built = {}
    for k, t in od(c, "trajs"):
        src = c.get("same_object", {}).get(k)
        built[k] = built[src] if src in built else (mk_traj(t) if t["type"] == "tum" else mk_path(t))
        res.add_trajectory(k, built[k])
    return res


@guarded
def impl_result(c):
    from evo.tools import file_interface as fi
    res = result_of(c)
    if c["variant"] == "h":
        buf = io.BytesIO()
        fi.save_res_file(buf, res)
        raw = buf.getvalue()
        back = fi.load_res_file(io.BytesIO(raw), load_trajectories=c["load_traj"])
    else:
        p = os.path.join(tmpdir(), "res.zip")
        if os.path.exists(p):
            os.remove(p)
        fi.save_res_file(p, res)
        with open(p, "rb") as fh:
            raw = fh.read()
        back = fi.load_res_file(p, load_trajectories=c["load_traj"])
    with zipfile.ZipFile(io.BytesIO(raw)) as z:
        names = z.namelist()
        info_txt = z.read("info.json").decode("utf-8")
        stats_txt = z.read("stats.json").decode("utf-8")
        members = {n: z.read(n).decode("utf-8") for n in names if n.endswith((".tum", ".kitti"))}
    return {"status": "ok", "names": names, "info_txt": info_txt, "stats_txt": stats_txt, "members": members,
            "info": back.info, "stats": {k: tf.bits(v) for k, v in back.stats.items()},
            "stats_types": {k: type(v).__name__ for k, v in back.stats.items()},
            "arrays": {k: {"dtype": str(a.dtype), "shape": list(a.shape), "bits": [tf.bits(v) for v in a.flatten()]}
                       for k, a in back.np_arrays.items()},
            "trajs": {k: traj_bits(t) for k, t in back.trajectories.items()},
            "array_order": list(back.np_arrays.keys()), "traj_order": list(back.trajectories.keys())}


@guarded
def impl_df(c):
    from evo.tools import pandas_bridge as pb
    from evo.core.trajectory import PosePath3D, PoseTrajectory3D
    tr = mk_traj(c)
    if c["type"] == "kitti":
        tr = PosePath3D(tr.positions_xyz, tr.orientations_quat_wxyz)
    df = pb.trajectory_to_df(tr)
    cols = {k: [tf.bits(v) for v in df[k].to_numpy()] for k in ("x", "y", "z", "qw", "qx", "qy", "qz")}
    back = pb.df_to_trajectory(df)
    out = {"status": "ok", "cols": cols, "columns": [str(k) for k in df.columns], "index": [tf.bits(v) for v in df.index.to_numpy()] if c["type"] == "tum" else [int(v) for v in df.index],
           "back_type": type(back).__name__,
           "xyz": [[tf.bits(v) for v in x] for x in back.positions_xyz], "quat": [[tf.bits(v) for v in q] for q in back.orientations_quat_wxyz]}
    if isinstance(back, PoseTrajectory3D):
        out["stamps"] = [tf.bits(v) for v in back.timestamps]
    return out


@guarded
def impl_bag(c):
    from evo.tools import file_interface as fi
    from rosbags.rosbag1 import Reader, Writer
    p = os.path.join(tmpdir(), "t.bag")
    if os.path.exists(p):
        os.remove(p)
    tr = mk_traj(c)
    with Writer(p) as w:
        fi.write_bag_trajectory(w, tr, "/traj", frame_id=c["frame"])
    with Reader(p) as rd:
        back = fi.read_bag_trajectory(rd, "/traj")
    from rosbags.typesys import get_typestore, Stores
    ts = get_typestore(Stores.ROS1_NOETIC)
    hdr, raw_frames = [], []
    with Reader(p) as rd:
        for conn, _, raw in rd.messages():
            m = ts.deserialize_ros1(raw, conn.msgtype)
            hdr.append([int(m.header.stamp.sec), int(m.header.stamp.nanosec)])
            raw_frames.append(m.header.frame_id)
    return {"status": "ok", "back": traj_bits(back), "frame": back.meta.get("frame_id"), "hdr": hdr, "raw_frames": raw_frames}


def result_seen(back):
    return {"info": back.info, "stats": {k: tf.bits(v) for k, v in back.stats.items()},
            "arrays": {k: [str(a.dtype), list(a.shape), [tf.bits(v) for v in a.flatten()]] for k, a in back.np_arrays.items()},
            "trajs": {k: traj_bits(t) for k, t in back.trajectories.items()}}


def result_want(c, flag):
    return {"info": c["info"], "stats": {k: tf.bits(v) for k, v in od(c, "stats")},
            "arrays": {k: ["float64", [len(v)], [tf.bits(x) for x in v]] for k, v in od(c, "arrays")},
            "trajs": {k: {kk: vv for kk, vv in want_bits(t).items()} for k, t in od(c, "trajs")} if flag else {}}


def strip_lens(d):
    if isinstance(d, dict):
        return {k: strip_lens(v) for k, v in d.items() if k != "lens"}
    return d


@guarded
def impl_history(c):
    """one scratch directory, one file name, several save/load rounds; what every load returned"""
    import pathlib
    from evo.tools import file_interface as fi
    d = tempfile.mkdtemp(prefix="hist_", dir=tmpdir())
    os.mkdir(os.path.join(d, "sub"))
    global NHIST
    NHIST += 1      # a name of its own per history: relative spellings of different cases must not meet in any path-keyed state
    ext = {"res": "r_%d.zip", "tum": "t_%d.tum", "kitti": "k_%d.kitti", "euroc": "data_%d.csv", "tf": "tf_%d.bin"}[c["target"]] % NHIST
    old = os.getcwd()
    os.chdir(d)
    seen = []
    try:
        def spell(kind, ptype):
            p = {"rel": ext, "dot": "./" + ext, "dotdot": "sub/../" + ext, "abs": os.path.join(d, ext)}[kind]
            return pathlib.Path(p) if ptype == "Path" else p
        for st in c["steps"]:
            pl = st["payload"]
            ps, pload = spell(st["save_spell"], st["save_ptype"]), spell(st["load_spell"], st["load_ptype"])
            if c["target"] == "res":
                fi.save_res_file(ps, result_of(pl))
                seen.append([strip_lens(result_seen(fi.load_res_file(pload, load_trajectories=f))) for f in st["flags"]])
            elif c["target"] == "tum":
                fi.write_tum_trajectory_file(ps, mk_traj(pl))
                seen.append([strip_lens(traj_bits(fi.read_tum_trajectory_file(pload)))])
            elif c["target"] == "kitti":
                fi.write_kitti_poses_file(ps, mk_path(pl))
                seen.append([strip_lens(traj_bits(fi.read_kitti_poses_file(pload)))])
            elif c["target"] == "euroc":
                with open(ps, "wb") as fh:
                    fh.write(pl["text"].encode())
                seen.append([strip_lens(traj_bits(fi.read_euroc_csv_trajectory(pload)))])
            else:
                a = np.array(pl["mat"], dtype=float)
                if pl["store"] == "json":
                    with open(ps, "w") as fh:
                        fh.write(pl["json"])
                    twin = os.path.join(d, "twin_%d_%d.json" % (NHIST, len(seen)))      # same content under a name never seen before
                    with open(twin, "w") as fh:
                        fh.write(pl["json"])
                    seen.append([[[tf.bits(v) for v in row] for row in fi.load_transform(pload)],
                                 [[tf.bits(v) for v in row] for row in fi.load_transform(twin)]])
                    continue
                if pl["store"] == "npy":
                    with open(ps, "wb") as fh:
                        np.save(fh, a)
                else:
                    np.savetxt(ps, a)
                seen.append([[[tf.bits(v) for v in row] for row in fi.load_transform(pload)]])
    finally:
        os.chdir(old)
    return {"status": "ok", "seen": seen}


def history_want(c):
    out = []
    for st in c["steps"]:
        pl = st["payload"]
        if c["target"] == "res":
            out.append([strip_lens(result_want(pl, f)) for f in st["flags"]])
        elif c["target"] in ("tum", "kitti"):
            out.append([strip_lens(want_bits(pl))])
        elif c["target"] == "euroc":
            ref = tf.ref_read("euroc", pl["text"], True)
            out.append([{"type": "tum", "rows": [[tf.bits(v) for v in row] for row in ref]}])
        elif pl.get("store") == "json":
            out.append(None)            # expected = what the twin file gives (second entry of the step)
        else:
            out.append([[[tf.bits(v) for v in row] for row in pl["mat"]]])
    return out


@guarded
def impl_reuse(c):
    """L1: the same object written twice; the loaded object written again"""
    from evo.tools import file_interface as fi
    tum = c["fmt"] == "tum"
    obj = mk_traj(c) if tum else mk_path(c)
    wr = fi.write_tum_trajectory_file if tum else fi.write_kitti_poses_file
    rd = fi.read_tum_trajectory_file if tum else fi.read_kitti_poses_file
    b1 = io.StringIO()
    wr(b1, obj)
    p = os.path.join(tmpdir(), "reuse_%d.txt" % id(obj))
    wr(p, obj)
    with open(p, "rb") as fh:
        t2 = fh.read().decode("utf-8")
    os.remove(p)
    back = rd(io.StringIO(b1.getvalue()))
    first = traj_bits(back)
    b3 = io.StringIO()
    wr(b3, back)
    again = traj_bits(rd(io.StringIO(b3.getvalue())))
    b4 = io.StringIO()
    wr(b4, obj)                     # the original object once more, after everything else
    return {"status": "ok", "t1": b1.getvalue(), "same12": b1.getvalue() == t2, "same13": b1.getvalue() == b3.getvalue(),
            "same14": b1.getvalue() == b4.getvalue(), "first": first, "again": again}


def build_route(c):
    from evo.core.trajectory import PoseTrajectory3D
    xyz, quat, st = np.array(c["xyz"], dtype=float), np.array(c["quat"], dtype=float), np.array(c["stamps"], dtype=float)
    t = PoseTrajectory3D(xyz, quat, st)
    if c["built_from"] == "poses":
        t = PoseTrajectory3D(poses_se3=[np.array(p) for p in t.poses_se3], timestamps=st)
    return t


@guarded
def impl_route(c):
    """L4: object under test A (with the caches of the history materialised) and an identically built twin B for the expected values"""
    from evo.tools import file_interface as fi
    from evo.tools import pandas_bridge as pb
    from evo.core import result
    A, B = build_route(c), build_route(c)
    for name in c["preread"]:
        if name == "check":
            A.check()
        else:
            getattr(A, name)
    if c["write"] == "tum":
        buf = io.StringIO()
        fi.write_tum_trajectory_file(buf, A)
        back = traj_bits(fi.read_tum_trajectory_file(io.StringIO(buf.getvalue())))
        want = traj_bits(B)
    elif c["write"] == "kitti":
        buf = io.StringIO()
        fi.write_kitti_poses_file(buf, A)
        back = traj_bits(fi.read_kitti_poses_file(io.StringIO(buf.getvalue())))
        want = {"type": "kitti", "rows": [[tf.bits(v) for v in np.asarray(p).flatten()] for p in B.poses_se3]}
    elif c["write"] == "df":
        back = traj_bits(pb.df_to_trajectory(pb.trajectory_to_df(A)))
        want = traj_bits(B)
    else:
        res = result.Result()
        res.add_trajectory("t", A)
        buf = io.BytesIO()
        fi.save_res_file(buf, res)
        back = traj_bits(fi.load_res_file(io.BytesIO(buf.getvalue()), load_trajectories=True).trajectories["t"])
        want = traj_bits(B)
    return {"status": "ok", "back": strip_lens(back), "want": strip_lens(want)}


def impl_bagstamps(c):
    """the arithmetic of write_bag_trajectory / read_bag_trajectory on the stamps alone (same float operations)"""
    out = []
    for s in c["stamps"]:
        stamp = np.float64(s)
        sec = int(stamp // 1)
        nanosec = int(round((stamp - sec) * 1e9))
        if nanosec == 10 ** 9:
            sec, nanosec = sec + 1, 0
        out.append([sec, nanosec, tf.bits(sec + (nanosec * 1e-9))])
    return {"status": "ok", "out": out}


def run_impl(c):
    k = c["kind"]
    if k == "text":
        return impl_text(c)
    if k == "result":
        return impl_result(c)
    if k == "df":
        return impl_df(c)
    if k == "bag":
        return impl_bag(c)
    if k == "bagstamps":
        return impl_bagstamps(c)
    if k == "history":
        return impl_history(c)
    if k == "reuse":
        return impl_reuse(c)
    if k == "route":
        return impl_route(c)
    return {"status": "ok", "out": [tf.bits(n / d) if abs(Fraction(n, d)) < tf.F64_MAX + Fraction(2 ** 970) else "inf" for n, d in c["qs"]]}


# ------------------------------------------------------------------ model side
def head_text(text, nrows):
    if text.count("\n") <= nrows:
        return text
    idx = -1
    for _ in range(nrows):
        idx = text.index("\n", idx + 1)
    return text[:idx + 1]


def text_lines(fmt, text, want_rows):
    """driver lines for one written text: token check + model reader"""
    t = head_text(text, MODEL_ROWS)
    w = 8 if fmt == "tum" else 12
    xs = []
    for row in want_rows[:MODEL_ROWS]:
        vals = [tf.from_bits(b) for b in row[:w]]
        if fmt == "tum":       # file order: t x y z qx qy qz qw
            vals = vals[:4] + vals[5:8] + vals[4:5]
        xs += vals
    return [f"C06 tokrows {tf.hexs(t)} {core.ratlist(xs)}", f"C06 {fmt} h {tf.hexs(t)}"]


NUM = re.compile(r'"((?:[^"\\]|\\.)*)": (-?[0-9.eE+\-]+|NaN|-?Infinity)')


def model_lines(c, impl):
    k = c["kind"]
    if impl.get("status") != "ok":
        return []
    if k == "text":
        return text_lines(c["fmt"], impl["text"], want_bits(c)["rows"])
    if k == "result":
        ls = []
        for kk, v in od(c, "info"):
            ls += [f"C06 esc {tf.hexs(kk)}", f"C06 esc {tf.hexs(v)}"]
        for kk, v in od(c, "info"):
            ls += [f"C06 unesc {tf.hexs(json.dumps(v)[1:-1])}"]
        for key, tok in NUM.findall(impl["stats_txt"]):
            ls += [f"C06 num {tf.hexs(tok)}"]
        for name, t in od(c, "trajs"):
            member = name + (".tum" if t["type"] == "tum" else ".kitti")
            if member in impl["members"]:
                ls += text_lines(t["type"], impl["members"][member], want_bits(t)["rows"])
        ls.append("C06 zip %d %d %s %d %s" % (1 if c["load_traj"] else 0, len(c["arrays"]), " ".join(tf.hexs(n) for n, _ in od(c, "arrays")),
                                             len(c["trajs"]), " ".join(("t " if t["type"] == "tum" else "k ") + tf.hexs(n) for n, t in od(c, "trajs"))))
        return [" ".join(l.split()) for l in ls]
    if k == "df":
        n = len(c["stamps"])
        vals = []
        for i in range(n):
            vals += ([c["stamps"][i]] if c["type"] == "tum" else []) + c["xyz"][i] + c["quat"][i]
        return ["C06 df %s %d %s" % ("t" if c["type"] == "tum" else "p", n, " ".join(rat(v) for v in vals))]
    if k == "reuse":
        return text_lines(c["fmt"], impl["t1"], want_bits(c)["rows"])
    if k == "bag" or k == "bagstamps":
        return [f"C06 bag {rat(s)}" for s in c["stamps"]]
    if k == "rne":
        return [f"C06 rne {n}/{d}" for n, d in c["qs"]]
    return []


# ------------------------------------------------------------------ judging
def cmp_traj(ctx, case, what, want, got, clause="lossless"):
    if got is None:
        ctx.fail(case, clause + "-missing", f"{what}: not returned by the reader")
        return
    if want["type"] != got["type"]:
        ctx.fail(case, clause + "-type", f"{what}: written {want['type']}, read {got['type']}")
        return
    if len(want["rows"]) != len(got["rows"]) or len(set(got.get("lens", [0]))) != 1:
        ctx.fail(case, clause + "-pose-count", f"{what}: {len(want['rows'])} poses written, {len(got['rows'])} read")
        return
    if want["rows"] != got["rows"]:
        i, j, a, b = tf_first_diff(got["rows"], want["rows"])
        ctx.fail(case, clause + "-values", f"{what}: pose {i} slot {j}: read {tf.from_bits(a)!r} ({a}), written {tf.from_bits(b)!r} ({b})",
                 {"slot": j})


def tf_first_diff(a, b):
    for i, (ra, rb) in enumerate(zip(a, b)):
        for j, (x, y) in enumerate(zip(ra, rb)):
            if x != y:
                return i, j, x, y
    return -1, -1, "", ""


def judge_text_model(ctx, case, what, fmt, outs, want_rows, text):
    tokres, rd = outs
    if tokres != "OK":
        ctx.mismatch(case, f"{what}: token {tokres} of the written text is not a literal of the grammar within 2^-55 of its double", text[:120], tokres)
    w = 8 if fmt == "tum" else 12
    if rd in ("E_FORMAT", "E_RANGE"):
        ctx.mismatch(case, f"{what}: model reader answers {rd} on the text evo wrote", text[:120], rd)
        return
    toks = rd.split()
    vals = [core.parse_rat(t) for t in toks[1:]]
    rows = [vals[i * w:(i + 1) * w] for i in range(int(toks[0]))]
    want = [[frac(tf.from_bits(b)) for b in row[:w]] for row in want_rows[:MODEL_ROWS]]
    if rows != want:
        ctx.mismatch(case, f"{what}: rne(parseDec token) differs from the double that was written", None, None)
    ctx.count("branch", "tokens-checked", len(vals))


def judge(ctx, c, impl, outs):
    k = c["kind"]
    ctx.count("dist", k + ":" + c.get("fmt", c.get("type", "")) + ":" + c.get("variant", "") + c.get("rw", ""))
    if c.get("flavour") or c.get("array_flavour"):
        ctx.count("branch", "flavour:%s:%s" % (k, c.get("flavour") or c.get("array_flavour")))
    if c.get("sized"):
        ctx.count("branch", "structured-size")
    if impl.get("status") != "ok":
        ctx.fail(c, "writer-or-reader-crashed", f"{impl.get('status')}: {impl.get('msg')}")
        ctx.record(c, True)
        return
    if k == "text":
        cmp_traj(ctx, c, c["fmt"] + " file", want_bits(c), impl["back"])
        judge_text_model(ctx, c, c["fmt"] + " file", c["fmt"], outs, want_bits(c)["rows"], impl["text"])
        n = len(want_bits(c)["rows"])
        ctx.count("dist", "poses:" + ("1" if n == 1 else "2-99" if n < 100 else "100+"))
        ctx.record(c, n > 1)
    elif k == "result":
        judge_result(ctx, c, impl, outs)
    elif k == "df":
        judge_df(ctx, c, impl, outs)
    elif k == "bag":
        judge_bag(ctx, c, impl, outs)
    elif k == "reuse":
        for flag, what in (("same12", "second write of the same object (path) differs from the first (handle)"),
                           ("same14", "the same object written again after it was read back differs"),
                           ("same13", "re-writing the loaded trajectory gives another text")):
            if not impl[flag]:
                ctx.fail(c, "object-reuse", what)
        cmp_traj(ctx, c, "first read", want_bits(c), impl["first"])
        cmp_traj(ctx, c, "read of the re-written loaded object", want_bits(c), impl["again"], clause="object-reuse")
        judge_text_model(ctx, c, "reused object", c["fmt"], outs, want_bits(c)["rows"], impl["t1"])
        ctx.count("branch", "reuse:" + c["fmt"])
        ctx.record(c, True)
    elif k == "route":
        if impl["back"] != impl["want"]:
            ctx.fail(c, "construction-route", f"built from {c['built_from']}, pre-read {c['preread']}, via {c['write']}: what comes back differs from an identically built, untouched twin")
        ctx.count("branch", f"route:{c['built_from']}:{c['write']}")
        ctx.record(c, bool(c["preread"]))
    elif k == "history":
        want = history_want(c)
        for i, (w, g, st) in enumerate(zip(want, impl["seen"], c["steps"])):
            if w is None:
                w, g = [g[1]], [g[0]]
            for j, (ww, gg) in enumerate(zip(w, g)):
                if ww != gg:
                    what = [kk for kk in ww if ww[kk] != gg.get(kk)] if isinstance(ww, dict) and isinstance(gg, dict) else "values"
                    ctx.fail(c, "load-returns-current-file-content",
                             f"{c['target']}: round {i + 1} of {len(want)} (saved as {st['save_spell']}/{st['save_ptype']}, loaded as "
                             f"{st['load_spell']}/{st['load_ptype']}, load #{j + 1}): the loaded {what} are not what was just saved"
                             + (" but what an earlier round saved" if i > 0 and any(gg == o for prev in want[:i] for o in prev) else ""),
                             {"round": i + 1})
                    break
        ctx.count("branch", "history:" + c["target"])
        for st in c["steps"]:
            ctx.count("dist", "history-spelling:" + st["save_spell"] + ">" + st["load_spell"])
        ctx.record(c, True)
    elif k == "bagstamps":
        for s, (sec, ns, joined), m in zip(c["stamps"], impl["out"], outs):
            if m.split() != [str(sec), str(ns), rat(tf.from_bits(joined))]:
                ctx.mismatch(c, f"bag stamp arithmetic for {s!r} differs from Text.bagSplit/bagJoin", [sec, ns, tf.from_bits(joined)], m)
            err = abs(frac(tf.from_bits(joined)) - frac(s))
            if err > Fraction(1, 10 ** 9):
                ctx.fail(c, "bag-stamp-within-1ns", f"{s!r} -> {tf.from_bits(joined)!r}: {float(err)}")
            ctx.count("branch", "bag:exact" if err == 0 else "bag:inexact")
        ctx.record(c, True)
    elif k == "rne":
        for (n, d), b, m in zip(c["qs"], impl["out"], outs):
            want = "inf" if b == "inf" else rat(tf.from_bits(b))
            if m != want:
                ctx.mismatch(c, f"F64.rne({n}/{d}) differs from CPython's correctly rounded division", want, m)
            ctx.count("branch", "rne:overflow" if b == "inf" else "rne:subnormal" if abs(tf.from_bits(b)) < 2.3e-308 else "rne:normal")
        ctx.record(c, True)


def judge_result(ctx, c, impl, outs):
    # ---- oracle: everything comes back identical
    if impl["info"] != c["info"]:
        ctx.fail(c, "lossless-info", f"info written {c['info']!r}, read {impl['info']!r}")
    if impl["stats"] != {k: tf.bits(v) for k, v in od(c, "stats")}:
        bad = [k for k in c["stats"] if impl["stats"].get(k) != tf.bits(c["stats"][k])]
        ctx.fail(c, "lossless-stats", f"statistics {bad}: written {[c['stats'][k] for k in bad][:3]}, read {[tf.from_bits(impl['stats'][k]) if k in impl['stats'] else None for k in bad][:3]}")
    if set(impl["arrays"]) != set(c["arrays"]):
        ctx.fail(c, "lossless-arrays", f"arrays written {sorted(c['arrays'])}, read {sorted(impl['arrays'])}")
    else:
        for k, v in od(c, "arrays"):
            a = impl["arrays"][k]
            want_dtype = {"int": "int64", "f32": "float32"}.get(c.get("array_flavour"), "float64")
            want_shape = [len(v), len(v[0])] if v and isinstance(v[0], list) else [len(v)]
            flat = [x for row in v for x in row] if v and isinstance(v[0], list) else v        # entry (i, j) in its own place
            if a["dtype"] != want_dtype or a["shape"] != want_shape or a["bits"] != [tf.bits(x) for x in flat]:
                ctx.fail(c, "lossless-arrays", f"array {k}: dtype {a['dtype']} shape {a['shape']}, or values differ")
    if c["load_traj"]:
        if set(impl["trajs"]) != set(c["trajs"]):
            ctx.fail(c, "lossless-trajectories", f"written {sorted(c['trajs'])}, read {sorted(impl['trajs'])}")
        else:
            for k, t in od(c, "trajs"):
                cmp_traj(ctx, c, "embedded trajectory " + k, want_bits(t), impl["trajs"][k])
    elif impl["trajs"]:
        ctx.fail(c, "trajectories-loaded-unasked", f"{sorted(impl['trajs'])}")
    # ---- correspondence: JSON strings and numbers, embedded texts
    pos = 0
    parts = []
    for kk, v in od(c, "info"):
        parts.append('"' + unhex(outs[pos]) + '": "' + unhex(outs[pos + 1]) + '"')
        pos += 2
    expect_info = "{" + ", ".join(parts) + "}"
    if expect_info != impl["info_txt"]:
        ctx.mismatch(c, "info.json differs from the model's escaping (Json.escape)", impl["info_txt"][:200], expect_info[:200])
    for kk, v in od(c, "info"):
        if outs[pos] == "E_FORMAT" or unhex(outs[pos]) != v:
            ctx.mismatch(c, "Json.unescape differs from json.loads on an info string", v, outs[pos])
        pos += 1
        ctx.count("branch", "json-string:" + ("ascii" if v.isascii() and v.isprintable() and '"' not in v and "\\" not in v else "escaped"))
    toks = NUM.findall(impl["stats_txt"])
    if [json.loads('"' + k + '"') for k, _ in toks] != [k for k, _ in od(c, "stats")]:
        ctx.mismatch(c, "stats.json keys/order unexpected", impl["stats_txt"][:200], [k for k, _ in od(c, "stats")])
    else:
        for (k, tok), x in zip(toks, [v for _, v in od(c, "stats")]):
            if outs[pos] != rat(x):
                ctx.mismatch(c, f"stats.json token {tok} for {k}: rne(parseDec token) is not the statistic {x!r}", tok, outs[pos])
            pos += 1
            ctx.count("branch", "json-number")
    for name, t in od(c, "trajs"):
        member = name + (".tum" if t["type"] == "tum" else ".kitti")
        if member in impl["members"]:
            judge_text_model(ctx, c, "archive member " + member, t["type"], outs[pos:pos + 2], want_bits(t)["rows"], impl["members"][member])
            pos += 2
        else:
            ctx.mismatch(c, f"archive has no member {member}", impl["names"], member)
    # ---- correspondence: member layout of the archive
    zp = [x.strip() for x in outs[pos].split("|")] if pos < len(outs) else ["NONE"]
    if zp[0] == "NONE" or len(zp) != 4:
        ctx.mismatch(c, "model cannot load the archive layout", impl["names"], outs[pos] if pos < len(outs) else None)
    else:
        m_members = [unhex(h) for h in zp[0].split()]
        m_arr = [unhex(h) for h in zp[1].split()]
        m_trj = [unhex(h) for h in zp[2].split()]
        if m_members != impl["names"]:
            ctx.mismatch(c, "archive member names/order differ from Cont.saveRes", impl["names"], m_members)
        if m_arr != impl["array_order"]:
            ctx.mismatch(c, "arrays come back under other names/order than Cont.loadRes", impl["array_order"], m_arr)
        if m_trj != impl["traj_order"]:
            ctx.mismatch(c, "trajectories come back under other names/order than Cont.loadRes", impl["traj_order"], m_trj)
        if zp[3] != "1":
            ctx.mismatch(c, "model: a member comes back under a different name", None, outs[pos])
    if c.get("multi"):
        lens = [len(impl["members"].get(n + (".tum" if t["type"] == "tum" else ".kitti"), "")) for n, t in od(c, "trajs")]
        ctx.count("branch", "result:multi:" + ("decreasing-text" if any(b < a for a, b in zip(lens, lens[1:])) else "non-decreasing-text"))
    ctx.count("branch", "result:" + ("with-traj" if c["trajs"] else "no-traj") + (":loaded" if c["load_traj"] else ":not-loaded"))
    nontrivial = any(not (v.isascii() and v.isprintable()) or '"' in v or "\\" in v for v in c["info"].values()) or bool(c["trajs"])
    ctx.record(c, nontrivial)


def unhex(h):
    return "" if h == "-" else bytes.fromhex(h).decode("utf-8")


def judge_df(ctx, c, impl, outs):
    n = len(c["stamps"])
    parts = [x.strip() for x in outs[0].split("|")]
    m_names = parts[0].split(",")
    if m_names != impl["columns"]:
        ctx.mismatch(c, "DataFrame columns differ from the model (names/order)", impl["columns"], m_names)
    else:
        m_index = None if parts[1] == "RANGE" else [core.parse_rat(t) for t in parts[1].split()]
        e_index = None if c["type"] != "tum" else [frac(tf.from_bits(b)) for b in impl["index"]]
        if m_index != e_index:
            ctx.mismatch(c, "DataFrame index differs from the model", impl["index"][:3], parts[1][:60])
        for name, colp in zip(m_names, parts[2:2 + len(m_names)]):
            if [core.parse_rat(t) for t in colp.split()] != [frac(tf.from_bits(b)) for b in impl["cols"][name]]:
                ctx.mismatch(c, f"DataFrame column {name} differs from the model's slot", None, None)
        if parts[-1] != "1":
            ctx.mismatch(c, "model df_to_trajectory(trajectory_to_df(t)) != t", None, outs[0][-20:])
    slot = {"x": ("xyz", 0), "y": ("xyz", 1), "z": ("xyz", 2), "qw": ("quat", 0), "qx": ("quat", 1), "qy": ("quat", 2), "qz": ("quat", 3)}
    for col, (arr, j) in slot.items():
        if impl["cols"][col] != [tf.bits(c[arr][i][j]) for i in range(n)]:
            ctx.fail(c, "dataframe-column-slots", f"column {col} is not {arr}[:, {j}]")
    if c["type"] == "tum":
        if impl["index"] != [tf.bits(v) for v in c["stamps"]]:
            ctx.fail(c, "dataframe-index", "index is not the timestamps")
        if impl["back_type"] != "PoseTrajectory3D" or impl.get("stamps") != [tf.bits(v) for v in c["stamps"]]:
            ctx.fail(c, "lossless-dataframe", f"timestamps differ after the DataFrame round trip ({impl['back_type']})")
    else:
        if impl["index"] != list(range(n)) or impl["back_type"] != "PosePath3D":
            ctx.fail(c, "lossless-dataframe", f"path came back as {impl['back_type']} / index {impl['index'][:3]}")
    if impl["xyz"] != [[tf.bits(v) for v in x] for x in c["xyz"]] or impl["quat"] != [[tf.bits(v) for v in q] for q in c["quat"]]:
        ctx.fail(c, "lossless-dataframe", "positions/orientations differ after the DataFrame round trip")
    ctx.count("branch", "df:" + c["type"])
    ctx.record(c, n > 1)


def judge_bag(ctx, c, impl, outs):
    want = want_bits(c)
    got = impl["back"]
    if len(got["rows"]) != len(want["rows"]):
        ctx.fail(c, "bag-pose-count", f"{len(want['rows'])} written, {len(got['rows'])} read")
    else:
        for i, (rw, rg, m) in enumerate(zip(want["rows"], got["rows"], outs)):
            if rw[1:] != rg[1:]:
                ctx.fail(c, "bag-pose-exact", f"pose {i}: position/orientation differ")
                break
            t, t2 = frac(tf.from_bits(rw[0])), frac(tf.from_bits(rg[0]))
            if abs(t2 - t) > Fraction(1, 10 ** 9):
                ctx.fail(c, "bag-stamp-within-1ns", f"pose {i}: {tf.from_bits(rw[0])!r} -> {tf.from_bits(rg[0])!r}")
                break
            mm = m.split()
            if len(mm) != 3 or core.parse_rat(mm[2]) != t2:
                ctx.mismatch(c, f"bag stamp {tf.from_bits(rw[0])!r}: evo reads {tf.from_bits(rg[0])!r}, model {m}", tf.from_bits(rg[0]), m)
                break
    if len(impl["hdr"]) == len(want["rows"]):
        for i, ((sec, ns), rw, m) in enumerate(zip(impl["hdr"], want["rows"], outs)):
            mm = m.split()
            if mm[:2] != [str(sec), str(ns)]:
                ctx.mismatch(c, f"bag header stamp of pose {i}: evo ({sec}, {ns}), model {mm[:2]}", [sec, ns], mm[:2])
                break
            if abs(Fraction(sec) + Fraction(ns, 10 ** 9) - frac(tf.from_bits(rw[0]))) > Fraction(1, 10 ** 9) + Fraction(1, 2 ** 50):
                ctx.fail(c, "bag-header-stamp-within-1ns", f"pose {i}: {tf.from_bits(rw[0])!r} stored as ({sec}, {ns})")
                break
    if impl["frame"] != c["frame"]:
        ctx.fail(c, "bag-frame-id", f"written {c['frame']!r}, read {impl['frame']!r}")
    if any(f != c["frame"] for f in impl["raw_frames"]):
        ctx.fail(c, "bag-frame-id", f"written {c['frame']!r}, the messages in the bag carry {sorted(set(impl['raw_frames']))!r}")
    ctx.count("dist", "frame:" + ("leading-slash" if c["frame"].startswith("/") else "blank-edge" if c["frame"] != c["frame"].strip() else "other"))
    ctx.count("branch", "bag:file")
    ctx.record(c, len(want["rows"]) > 1)


# ------------------------------------------------------------------ driver
def evaluate(ctx, cases):
    impls = [run_impl(c) for c in cases]
    lines, spans = [], []
    for c, im in zip(cases, impls):
        ls = model_lines(c, im)
        spans.append((len(lines), len(lines) + len(ls)))
        lines += ls
    outs = core.run_driver(lines, prop="C06")
    for c, im, (a, b) in zip(cases, impls, spans):
        try:
            judge(ctx, c, im, outs[a:b])
        except Exception as e:  # noqa  (L12: never a tool error)
            ctx.fail(c, "output-cannot-be-judged", f"{type(e).__name__}: {str(e)[:160]} on what evo returned: {str(im)[:200]}")


def shrink(case):
    k = case["kind"]
    if k in ("text", "df", "bag"):
        key = "mats" if "mats" in case else "stamps"
        n = len(case[key])
        if n > 1:
            for keep in (slice(0, n // 2), slice(n // 2, n), slice(0, 1), slice(n - 1, n)):
                c = dict(case)
                for kk in ("stamps", "xyz", "quat", "mats"):
                    if kk in c:
                        c[kk] = c[kk][keep]
                c.pop("big", None)
                yield c
    elif k == "result":
        for field in ("trajs", "arrays", "info", "stats"):
            if field == "arrays":
                continue
            for key in list(case[field]):
                c = dict(case)
                c[field] = {a: b for a, b in case[field].items() if a != key}
                yield c
    elif k == "history":
        n = len(case["steps"])
        if n > 2:
            for i in range(n):
                c = dict(case)
                c["steps"] = case["steps"][:i] + case["steps"][i + 1:]
                yield c
    elif k in ("bagstamps", "rne"):
        key = "stamps" if k == "bagstamps" else "qs"
        n = len(case[key])
        if n > 1:
            for keep in (slice(0, n // 2), slice(n // 2, n)):
                c = dict(case)
                c[key] = case[key][keep]
                yield c


OPEN = ["zip / npy / pandas / rosbags serialisation are libraries: bit-exact differential only",
        "the sign of zero does not exist in the rational model: -0.0 is covered by the bit-pattern oracle, not by the theorem",
        "lone surrogates in info strings are outside the modelled domain",
        "the ROS2 bag writer cannot be constructed the way evo calls it with the installed rosbags (needs version=): only ROS1 is exercised",
        "bag stamps: proved for the repaired code (F14) |x' - x| <= 1 ns for every binary64 stamp in [0, 2^31), header within 0.5 ns + 2^-52 s, "
        "x' = x when the spacing exceeds 2 ns; the pre-repair truncating code is kept as Text.bagSplitTrunc with the kernel-checked counterexample",
        "observation, outside the domain: float32 timestamp arrays in write_bag_trajectory (float32 sec/nanosec arithmetic, a few ns off) are not generated",
        "archive member names: array/trajectory names that are empty or contain '/' are outside the domain (Path(...).stem cuts them): not generated"]


def check(ctx):
    lean = core.lean_side(ctx.prop, ctx.tier, pre_build=lambda: {**formats.generate(core.REPO, core.LEAN),
                                                                 **dfcols.generate(core.REPO, core.LEAN)})
    core.drift(ctx, MODELLED)
    cases = list(gen_cases(ctx))
    evaluate(ctx, cases)
    core.shrink_all(ctx, shrink, evaluate)
    return core.finish(ctx, lean, rule=RULE, open_clauses=OPEN,
                       extra_trusted=["glibc printf / CPython repr and float(): not assumed — every written token is checked to be a grammar literal "
                                      "within 2^-55 of its double and every parsed value to equal rne(parseDec token), on every run",
                                      "CPython int/int true division (correct rounding) as the reference for F64.rne"],
                       assumptions=["finite doubles; timestamps increasing; bag stamps in [0, 2^31)"])


def replay(ctx, data):
    core.sh("lake build drv_C06", cwd=core.LEAN)
    evaluate(ctx, [data["case"]])
    return core.finish_replay(ctx)
