"""C07 — file conventions and rejection of malformed files (evo/tools/file_interface.py readers,
load_transform, is_sim3).  Model: lean/EvoModel/Model/TextFormats.lean, driver ops in Drv/C07.lean.
Oracle: the independent reference reader in harness/textfmt.py (exact arithmetic)."""
import decimal
import io
import json
import math
import os
import tempfile
import warnings
import numpy as np
import core
import textfmt as tf
from core import Fraction, frac, rat

RULE = ("cases = (format, path|handle, text) well-formed (any literal spelling of the grammar, comments anywhere, BOM, LF/CRLF, "
        "with/without final newline) or with one defect (class x row x column) | trajectories written by evo and parsed by the "
        "model and the reference reader | JSON / npy / text transforms (valid, invalid, near the is_sim3 tolerances); "
        "accept/reject compared exactly, every accepted number bit-for-bit in its slot; non-trivial = more than one data row "
        "or a defect; distinct by content hash")
MODELLED = ["evo/tools/file_interface.py:has_utf8_bom", "evo/tools/file_interface.py:csv_read_matrix",
            "evo/tools/file_interface.py:read_tum_trajectory_file", "evo/tools/file_interface.py:write_tum_trajectory_file",
            "evo/tools/file_interface.py:read_kitti_poses_file", "evo/tools/file_interface.py:write_kitti_poses_file",
            "evo/tools/file_interface.py:read_euroc_csv_trajectory", "evo/tools/file_interface.py:load_transform_json",
            "evo/tools/file_interface.py:load_transform", "evo/tools/file_interface.py:save_res_file", "evo/core/lie_algebra.py:is_sim3", "evo/core/lie_algebra.py:is_so3",
            "evo/core/lie_algebra.py:sim3_scale", "evo/core/lie_algebra.py:sim3", "evo/core/transformations.py:quaternion_matrix",
            "evo/core/trajectory.py:xyz_quat_wxyz_to_se3_poses"]
TMP = None
NREAD = 0
warnings.filterwarnings("ignore", category=RuntimeWarning)


def tmpdir():
    global TMP
    if TMP is None:
        TMP = tempfile.mkdtemp(prefix="c07_")
    return TMP


# ------------------------------------------------------------------ generators
def rand_value(r, role):
    if role == "stamp":
        k = r.random()
        if k < 0.5:
            return 1.5e9 + r.randint(0, 10 ** 8) + r.randint(0, 10 ** 9) / 1e9
        if k < 0.8:
            return r.uniform(0, 1000)
        return float(r.randint(0, 10 ** 6))
    if role == "ns":
        return float(r.randint(14 * 10 ** 17, 17 * 10 ** 17))
    if role == "quat":
        return r.choice([r.uniform(-1, 1), r.uniform(-1, 1), 0.0, 1.0, -1.0, 0.5, r.gauss(0, 3)])
    k = r.random()
    if k < 0.6:
        return r.uniform(-100, 100)
    if k < 0.75:
        return r.uniform(-1, 1) * 10.0 ** r.randint(-30, 30)
    if k < 0.85:
        return 4.0e6 + r.uniform(0, 1e5)
    if k < 0.92:
        return float(r.randint(-1000, 1000))
    return r.choice([0.0, -0.0, 5e-324, 1.7976931348623157e308, -1.7976931348623157e308, 2.2250738585072014e-308, 1e-300, 1e300])


ROLES = {"tum": ["stamp", "p", "p", "p", "quat", "quat", "quat", "quat"],
         "kitti": ["quat", "quat", "quat", "p"] * 3,
         "euroc": ["ns", "p", "p", "p", "quat", "quat", "quat", "quat"]}


def gen_table(r, fmt, nrows):
    roles = list(ROLES[fmt])
    if fmt == "euroc":
        roles += ["p"] * r.choice([0, 0, 1, 9, 9])
    rows = []
    for _ in range(nrows):
        row = []
        for role in roles:
            if role == "ns" and r.random() < 0.8:
                row.append(str(r.randint(14 * 10 ** 17, 17 * 10 ** 17)))
            elif r.random() < 0.12 and role != "ns":
                row.append(r.choice(tf.SPECIAL))
            else:
                row.append(tf.spellings(r, rand_value(r, role)))
        rows.append(row)
    return rows


COMMENTS = ["# timestamp tx ty tz qx qy qz qw", "#", "#1 2 3 4 5 6 7 8", "# \"quoted\", commas, and spaces  ",
            "#timestamp [ns],p_RS_R_x [m],p_RS_R_y [m]", "# ünïcödé 位置 \U0001F600", "##", "# 1,2,3,4,5,6,7,8",
            # a comment is skipped as a *line*, whatever it contains: field-initial unclosed quotes (either delimiter) must not
            # start a multi-line quoted field that swallows the following data rows
            "# relocalised near \"door 3", "# note,\"unclosed", "# \"", "#,\"", "# a \"b\" c \"d", "# x ,\"y \"z", "# it's 'single"]


def assemble(r, fmt, rows, comments=True, eol=None, final_nl=None, extra_lines=()):
    """rows: list of field lists; returns text.  extra_lines: (position, raw line) inserted verbatim."""
    delim = "," if fmt == "euroc" else " "
    lines = [delim.join(row) for row in rows]
    for pos, raw in sorted(extra_lines, key=lambda t: -t[0]):
        lines.insert(pos, raw)
    if comments:
        k = r.choice([0, 0, 1, 1, 2, 4])
        for _ in range(k):
            lines.insert(r.randint(0, len(lines)), r.choice(COMMENTS))
    eol = eol or r.choice(["\n", "\n", "\r\n", "mixed"])
    final_nl = r.random() < 0.8 if final_nl is None else final_nl
    out = []
    for i, ln in enumerate(lines):
        e = r.choice(["\n", "\r\n"]) if eol == "mixed" else eol
        out.append(ln + (e if (i < len(lines) - 1 or final_nl) else ""))
    return "".join(out)


DEFECTS = ["short-row", "long-row", "non-numeric", "trailing-delim", "leading-delim", "double-delim", "blank-row",
           "spaces-row", "no-rows", "uniform-wrong-width", "ragged-euroc", "indented-comment", "non-numeric-extra-col"]


def inject(r, fmt, rows, defect):
    """returns (rows, extra_lines, where) with exactly one defect of the class"""
    rows = [list(x) for x in rows]
    n = len(rows)
    delim = "," if fmt == "euroc" else " "
    i = r.choice([0, n - 1, r.randrange(n)])
    w = len(rows[i])
    j = r.choice([0, w - 1, r.randrange(w)])
    extra = []
    if defect == "short-row":
        del rows[i][j]
    elif defect == "long-row":
        rows[i].insert(r.choice([0, w, j]), tf.spellings(r, r.uniform(-5, 5)))
    elif defect == "non-numeric":
        bad = r.choice([b for b in tf.BAD_TOKENS if delim not in b and not b.startswith("#") or j > 0 and delim not in b])
        rows[i][j] = bad
    elif defect == "trailing-delim":
        rows[i][-1] = rows[i][-1] + delim
    elif defect == "leading-delim":
        rows[i][0] = delim + rows[i][0]
    elif defect == "double-delim":
        j = max(j, 1)
        rows[i][j] = delim + rows[i][j]
    elif defect == "blank-row":
        i = r.choice([0, n, r.randint(0, n)])
        extra.append((i, ""))
    elif defect == "spaces-row":
        i = r.choice([0, n, r.randint(0, n)])
        extra.append((i, " " * r.randint(1, 3)))
    elif defect == "no-rows":
        rows = []
    elif defect == "uniform-wrong-width":
        base = {"tum": 8, "kitti": 12, "euroc": 8}[fmt]
        neww = r.choice([base - 1, base + 1, 3, 16] if fmt != "euroc" else [7, 3, 1])
        rows = [(row + row + row)[:neww] for row in rows]
    elif defect == "ragged-euroc":
        if r.random() < 0.5 or w <= 8:
            rows[i].append(tf.spellings(r, 1.5))
        else:
            rows[i].pop()
        if n == 1:
            rows.append(list(rows[0][:-1]) if len(rows[0]) > 8 else list(rows[0]) + ["1"])
    elif defect == "indented-comment":
        extra.append((r.randint(0, n), " # indented comment"))
    elif defect == "non-numeric-extra-col":
        for row in rows:
            row += [tf.spellings(r, 1.0)] * (10 - len(row))
        rows[i][r.randint(8, 9)] = r.choice(["abc", "x", "1e", "--1"])
    return rows, extra, [i, j]


def rand_quat(r):
    k = r.random()
    if k < 0.2:
        return r.choice([[1.0, 0.0, 0.0, 0.0], [0.0, 1.0, 0.0, 0.0], [1.0, 0.0, 0.0, 1.0], [1.0, 1.0, 1.0, 1.0],
                         [0.5, -0.5, 0.5, 0.5], [2.0, 0.0, -2.0, 0.0], [0.0, 0.0, 3.0, 4.0]])
    q = [r.gauss(0, 1) for _ in range(4)]
    n = math.sqrt(sum(v * v for v in q))
    if k < 0.8:
        q = [v / n for v in q]
    return q


def rot_from_quat_exact(w, x, y, z):
    """standard rotation matrix of the quaternion (w, x, y, z), exact (independent of evo and of the model)"""
    w, x, y, z = (frac(v) for v in (w, x, y, z))
    n = w * w + x * x + y * y + z * z
    s = 2 / n
    return [[1 - s * (y * y + z * z), s * (x * y - z * w), s * (x * z + y * w)],
            [s * (x * y + z * w), 1 - s * (x * x + z * z), s * (y * z - x * w)],
            [s * (x * z - y * w), s * (y * z + x * w), 1 - s * (x * x + y * y)]]


def gen_cases(ctx):
    r = ctx.rng
    th = ctx.thorough
    # corpus: the defects of the Kills list, placed late in the file
    good = "1 2 3 4 0 0 0 1"
    yield {"kind": "read", "fmt": "tum", "variant": "h", "text": good + "\n" + good + " 9\n", "label": "long-row", "corpus": "later-row-long"}
    yield {"kind": "read", "fmt": "tum", "variant": "h", "text": good + "\n1 2 3 4 0 0 0\n", "label": "short-row", "corpus": "later-row-short"}
    yield {"kind": "read", "fmt": "tum", "variant": "p", "text": tf.BOM + "# c\r\n" + "1.5 2 3 4 0.1 0.2 0.3 0.9\r\n", "label": "ok", "corpus": "bom-crlf"}
    yield {"kind": "read", "fmt": "euroc", "variant": "p", "text": "#ts,x\n1403636580838555648,1,2,3,0.5,0.1,0.2,0.3,9,9\n", "label": "ok", "corpus": "euroc-ns"}
    yield {"kind": "read", "fmt": "kitti", "variant": "h", "text": " ".join(str(k) for k in range(1, 13)) + "\n", "label": "ok", "corpus": "kitti-slots"}
    # long files (beyond the block size of any block-wise conversion: 1024, 4096) whose LAST row is defective: a row holding only
    # its first field, a short row, a long row — every row counts, also row 4097
    rowsrc = {"tum": lambda k: f"{k}.5 {k} 2 3 0 0 0 1", "kitti": lambda k: " ".join(["1 0 0", str(k), "0 1 0 2 0 0 1 3"]),
              "euroc": lambda k: f"{1403636580000000000 + k * 5000000},{k},2,3,1,0,0,0,0,0,0"}
    for fmt in ("tum", "kitti", "euroc"):
        dl = "," if fmt == "euroc" else " "
        for nrows in ((1025, 4097) if not ctx.thorough else (1025, 2049, 4097, 8193)):
            body = [rowsrc[fmt](k) for k in range(nrows - 1)]
            good_last = rowsrc[fmt](nrows - 1)
            for label, last in (("short-row", good_last.split(dl)[0]), ("short-row", dl.join(good_last.split(dl)[:-1])),
                                ("long-row", good_last + dl + "7"), ("ok", good_last)):
                if nrows != 4097 and label != "short-row":
                    continue
                yield {"kind": "read", "fmt": fmt, "variant": "p" if nrows == 4097 else "h", "text": "\n".join(body + [last]) + "\n",
                       "label": label, "corpus": f"long-file-last-row-{label}"}
    n_ok = 8000 if th else 3000 if ctx.extended else 1500
    n_bad = 12000 if th else 5000 if ctx.extended else 2500
    sizes = [1, 2, 3, 4, 7, 8, 9, 15, 16, 17, 31, 32, 33, 63, 64, 65, 127, 128, 129, 255, 256, 257] + ([1023, 1024, 1025, 4095, 4096, 4097] if th else [])
    for k in range(n_ok):
        fmt = r.choice(["tum", "kitti", "euroc"])
        nrows = r.choice([1, 1, 2, 3, 5, 8, 13]) if r.random() < 0.93 else r.randint(50, 300 if not th else 1000)
        if k < len(sizes):
            nrows = sizes[k]                    # L5: structured row counts
        variant = r.choice(["h", "p"])
        table = gen_table(r, fmt, nrows)
        if nrows > 1 and r.random() < 0.1:      # L6: duplicate / decreasing stamps are accepted by the readers
            for row in table[1:]:
                row[0] = table[0][0]
        text = assemble(r, fmt, table)
        label = "ok"
        if r.random() < 0.35:
            text = tf.BOM + text
            label = "ok" if variant == "p" else "bom-handle"
        yield {"kind": "read", "fmt": fmt, "variant": variant, "text": text, "label": label}
    for k in range(n_bad):
        fmt = r.choice(["tum", "kitti", "euroc"])
        d = r.choice(DEFECTS)
        if d in ("ragged-euroc", "non-numeric-extra-col") and fmt != "euroc":
            fmt = "euroc"
        if d == "spaces-row" and fmt == "euroc":
            d = "blank-row"
        nrows = r.choice([1, 2, 3, 5, 8, 20])
        rows, extra, where = inject(r, fmt, gen_table(r, fmt, nrows), d)
        text = assemble(r, fmt, rows, extra_lines=extra)
        variant = r.choice(["h", "p"])
        if variant == "p" and r.random() < 0.2:
            text = tf.BOM + text
        yield {"kind": "read", "fmt": fmt, "variant": variant, "text": text, "label": d, "where": where}
    # several defective rows whose column counts cancel (a + b = 2w, a + b + c = 3w, joined rows + blank rows); first row well-formed,
    # every field numeric: nothing but the per-row column count reveals the defect
    for k in range(700 if not th else 4000):
        fmt = r.choice(["tum", "tum", "kitti", "euroc"])
        nrows = r.choice([3, 4, 5, 8])
        table = gen_table(r, fmt, nrows)
        w = len(table[0])
        g = r.choice([2, 2, 2, 3])
        if nrows <= g:
            table = gen_table(r, fmt, g + 1)
            nrows, w = g + 1, len(table[0])
        i = r.randint(1, nrows - g)                 # the group of rows that is re-partitioned (never the first row)
        if g == 2:
            a = (k % (2 * w + 1)) if k < 3 * (2 * w + 1) else r.randint(0, 2 * w)   # all pairs a + b = 2w are enumerated first
            sizes = [a, 2 * w - a]
        else:
            a = r.randint(0, 3 * w)
            b = r.randint(0, 3 * w - a)
            sizes = [a, b, 3 * w - a - b]
        if all(x == w for x in sizes):
            sizes = [w - 1, w + 1] + sizes[2:]
        flat = [t for row in table[i:i + g] for t in row]
        parts, pos = [], 0
        for x in sizes:
            parts.append(flat[pos:pos + x])
            pos += x
        if r.random() < 0.3:
            r.shuffle(parts)
        rows = table[:i] + parts + table[i + g:]
        if r.random() < 0.25 and len(rows) > i + g:  # the defective rows need not be neighbours
            rows[i + 1], rows[-1] = rows[-1], rows[i + 1]
        delim = "," if fmt == "euroc" else " "
        lines_ = [delim.join(row) for row in rows]
        eol = r.choice(["\n", "\r\n"])
        text = eol.join(lines_) + (eol if (lines_[-1] == "" or r.random() < 0.8) else "")   # a blank last row needs its own line end
        variant = r.choice(["h", "p"])
        yield {"kind": "read", "fmt": fmt, "variant": variant, "text": text, "label": "cancelling-row-lengths", "where": [i, sizes]}
    # trajectory members of result archives evo writes (>= 2 trajectories, mostly decreasing text length), read by the model and the reference reader
    for k in range(120 if not th else 600):
        cnt = r.choice([2, 2, 3, 4])
        lens = sorted(r.sample([1, 2, 3, 4, 6, 9, 14], cnt), reverse=True)
        if r.random() < 0.2:
            r.shuffle(lens)
        trajs = []
        for j, n in enumerate(lens):
            if r.random() < 0.6:
                trajs.append(["t%d é" % j, "tum", {"stamps": sorted(rand_value(r, "stamp") for _ in range(n)),
                                                  "xyz": [[rand_value(r, "p") for _ in range(3)] for _ in range(n)], "quat": [rand_quat(r) for _ in range(n)]}])
            else:
                trajs.append(["p%d" % j, "kitti", {"mats": [[[rand_value(r, "quat") for _ in range(3)] + [rand_value(r, "p")] for _ in range(3)] for _ in range(n)]}])
        yield {"kind": "zipwritten", "trajs": trajs}
    # path-reuse histories: write f (BOM); read; rewrite f (no BOM); read; ... and the reverse
    for k in range(90 if not th else 500):
        fmt = r.choice(["tum", "kitti", "euroc"])
        first_bom = r.random() < 0.5
        steps = []
        for i in range(r.choice([2, 2, 3, 4])):
            bom = first_bom if i % 2 == 0 else not first_bom
            if r.random() < 0.15:
                bom = r.random() < 0.5
            steps.append({"text": assemble(r, fmt, gen_table(r, fmt, r.choice([1, 2, 3, 6])), comments=r.random() < 0.5), "bom": bom,
                          "spell": r.choice(["rel", "dot", "dotdot", "abs"]), "ptype": r.choice(["str", "Path"])})
        if r.random() < 0.6:
            for st in steps:
                st.update(spell=steps[0]["spell"], ptype=steps[0]["ptype"])
        if r.random() < 0.25:                   # L1: the unchanged file read once more
            steps.insert(1, dict(steps[0]))
        yield {"kind": "history", "fmt": fmt, "steps": steps}
    # L2: load_transform on one path whose content changes between valid and invalid / between stores
    for k in range(60 if not th else 300):
        steps = []
        for i in range(r.choice([2, 3, 4])):
            c = gen_tfmat(r)
            while c["label"].startswith("near"):
                c = gen_tfmat(r)
            steps.append({"store": c["store"], "mat": c["mat"], "label": c["label"],
                          "spell": r.choice(["rel", "dot", "dotdot", "abs"])})
        yield {"kind": "tfhistory", "steps": steps}
    # files written by evo, read by the model and by the reference reader
    for k in range(150 if not th else 600):
        n = r.choice([1, 2, 5, 20]) if r.random() < 0.9 else r.randint(100, 400 if not th else 5000)
        if r.random() < 0.5:
            yield {"kind": "written", "fmt": "tum", "stamps": sorted(rand_value(r, "stamp") for _ in range(n)),
                   "xyz": [[rand_value(r, "p") for _ in range(3)] for _ in range(n)], "quat": [rand_quat(r) for _ in range(n)]}
        else:
            mats = []
            for _ in range(n):
                if r.random() < 0.7:
                    R = [[float(v) for v in row] for row in rot_from_quat_exact(*rand_quat(r))]
                else:
                    R = [[rand_value(r, "p") for _ in range(3)] for _ in range(3)]
                mats.append([R[i] + [rand_value(r, "p")] for i in range(3)])
            yield {"kind": "written", "fmt": "kitti", "mats": mats}
    # transforms
    for k in range(500 if not th else 3000):
        yield gen_tfjson(r)
    for k in range(600 if not th else 4000):
        yield gen_tfmat(r)


def json_num(r, x):
    """a JSON number literal for x"""
    if x == int(x) and abs(x) < 1e15 and r.random() < 0.5:
        return str(int(x))
    s = r.choice([repr(float(x)), "%.17g" % x, "%.6e" % x, ("%.3E" % x)])
    return s


def gen_tfjson(r):
    keys = ["x", "y", "z", "qx", "qy", "qz", "qw"]
    q = rand_quat(r)
    vals = {"x": r.choice([r.uniform(-50, 50), 4.0e6 + r.uniform(0, 1e5), r.uniform(-1, 1) * 10.0 ** r.randint(-30, 30)]), "y": r.uniform(-50, 50), "z": float(r.randint(-5, 5)),
            "qw": q[0], "qx": q[1], "qy": q[2], "qz": q[3]}
    label = "ok"
    k = r.random()
    if k < 0.45:
        vals["scale"] = r.choice([1.0, 2.0, 0.5, r.uniform(0.1, 10), 1e-3, 1e3])
    elif k < 0.55:
        vals["scale"] = r.choice([0.0, -1.0, -2.5, 0])
        label = "bad-scale"
    elif k < 0.7:
        drop = r.sample(keys, r.choice([1, 1, 2]))
        for d in drop:
            del vals[d]
        label = "missing-key"
    elif k < 0.75:
        for kk in ("qw", "qx", "qy", "qz"):
            vals[kk] = 0.0
        label = "zero-quat"
    items = list(vals.items())
    r.shuffle(items)
    if r.random() < 0.2:
        items.append((r.choice(["comment_id", "stamp", "w"]), 7.0))
    if r.random() < 0.15 and label == "ok":
        kk = r.choice(keys)
        items.insert(0, (kk, 123.0))      # duplicate key: the last one wins
    ws = lambda: r.choice(["", "", " ", "\n", "  ", "\t"])
    body = ",".join(ws() + json.dumps(kk) + ws() + ":" + ws() + json_num(r, v) + ws() for kk, v in items)
    text = r.choice(["", "", " ", "\n"]) + "{" + body + "}" + r.choice(["", "\n"])
    text = text + " " * max(0, 8 - len(text.encode()))
    return {"kind": "tfjson", "text": text, "label": label}


def gen_tfmat(r):
    q = rand_quat(r)
    if sum(v * v for v in q) < 1e-6:
        q = [1.0, 0.0, 0.0, 0.0]
    R = rot_from_quat_exact(*q)
    s = r.choice([1.0, 1.0, 2.0, 0.25, r.uniform(0.01, 100), 1e-4, 1e4])
    t = [r.uniform(-100, 100) for _ in range(3)]
    M = [[float(frac(s) * R[i][j]) for j in range(3)] + [t[i]] for i in range(3)] + [[0.0, 0.0, 0.0, 1.0]]
    label = "valid"
    k = r.random()
    if k < 0.35:
        pass
    elif k < 0.42:
        M[3] = r.choice([[0.0, 0.0, 0.0, 2.0], [0.0, 0.0, 1e-9, 1.0], [1.0, 0.0, 0.0, 1.0], [0.0, 0.0, 0.0, 0.0], [0.0, 0.0, 0.0, 1.0000000000000002]])
        label = "bottom-row"
    elif k < 0.5:
        i, j = r.randrange(3), r.randrange(3)
        M[i][j] += s * r.choice([0.01, -0.3, 1.0, 5.0])
        label = "sheared"
    elif k < 0.56:
        for i in range(3):
            M[i][0] = -M[i][0]
        label = "reflection"
    elif k < 0.6:
        for i in range(3):
            for j in range(3):
                M[i][j] = 0.0
        label = "zero-rotation"
    elif k < 0.66:
        f = r.choice([1.5, 0.5, 1.01])
        for i in range(3):
            M[i][1] *= f
        label = "anisotropic"
    elif k < 0.72:
        M = r.choice([M[:3], [row[:3] for row in M[:3]], [row[:3] for row in M], M + [[0.0, 0.0, 0.0, 1.0]], [row + [0.0] for row in M]])
        label = "wrong-shape"
    elif k < 0.86:
        # near the off-diagonal tolerance 1e-6 of allclose: shear the first column towards the second
        eps = r.choice([0.5e-6, 0.9e-6, 0.99e-6, 1.01e-6, 1.1e-6, 2e-6])
        for i in range(3):
            M[i][0] += eps * M[i][1]
        label = "near-off-tol"
    else:
        # near the diagonal tolerance 1.1e-5: stretch one column; s^2 moves by 2/3 of the stretch
        eps = r.choice([0.5e-5, 1.5e-5, 1.64e-5, 1.66e-5, 3.2e-5, 3.4e-5, 5e-5])
        for i in range(3):
            M[i][2] *= (1 + eps)
        label = "near-diag-tol"
    out = {"kind": "tfmat", "store": r.choice(["npy", "txt"]), "mat": M, "label": label}
    if label == "valid" and r.random() < 0.4:
        k2 = r.random()
        if k2 < 0.35:           # an integer matrix: signed permutation with determinant +1, integer scale and translation
            sc = r.choice([1, 2, 3])
            perm = r.choice([[[1, 0, 0], [0, 1, 0], [0, 0, 1]], [[0, -1, 0], [1, 0, 0], [0, 0, 1]], [[0, 0, 1], [1, 0, 0], [0, 1, 0]],
                             [[-1, 0, 0], [0, -1, 0], [0, 0, 1]]])
            out["mat"] = [[float(sc * perm[i][j]) for j in range(3)] + [float(r.randint(-9, 9))] for i in range(3)] + [[0.0, 0.0, 0.0, 1.0]]
            out["dtype"] = "int64"
        elif k2 < 0.7:
            out["mat"] = [[float(np.float32(v)) for v in row] for row in M]
            out["dtype"] = "float32"
        else:
            out["order"] = "F"
        out["store"] = "npy"
    return out


# ------------------------------------------------------------------ evo side
def call_reader(fmt, variant, text):
    from evo.tools import file_interface as fi
    f = {"tum": fi.read_tum_trajectory_file, "kitti": fi.read_kitti_poses_file, "euroc": fi.read_euroc_csv_trajectory}[fmt]
    try:
        if variant == "h":
            obj = f(io.StringIO(text, newline=""))
        else:
            # a fresh name per read: single reads carry no history (path reuse is the history stream's job,
            # whose cases replay on their own)
            global NREAD
            NREAD += 1
            p = os.path.join(tmpdir(), "in_%d.txt" % NREAD)
            with open(p, "wb") as fh:
                fh.write(text.encode("utf-8"))
            try:
                obj = f(p)
            finally:
                os.remove(p)
    except fi.FileInterfaceException:
        return {"status": "FIE"}
    except Exception as e:  # noqa
        return {"status": "EXC:" + type(e).__name__, "msg": str(e)[:120]}
    try:
        return extract(fmt, obj)
    except Exception as e:  # noqa  (a loaded object that cannot even be inspected)
        return {"status": "EXC:" + type(e).__name__, "msg": "while reading the loaded object: " + str(e)[:120]}


def extract(fmt, obj):
    if fmt == "kitti":
        rows, ok = [], True
        for p in obj.poses_se3:
            p = np.asarray(p)
            ok = ok and p.shape == (4, 4) and [tf.bits(v) for v in p[3]] == [tf.bits(v) for v in (0, 0, 0, 1)]
            rows.append([tf.bits(v) for v in p[:3].flatten()])
        return {"status": "ok", "rows": rows, "bottom_ok": bool(ok), "type": type(obj).__name__}
    rows = [[tf.bits(t)] + [tf.bits(v) for v in x] + [tf.bits(v) for v in q]
            for t, x, q in zip(obj.timestamps, obj.positions_xyz, obj.orientations_quat_wxyz)]
    nonfinite = not all(np.isfinite(obj.orientations_quat_wxyz[:4]).all() for _ in [0]) or not np.isfinite(obj.positions_xyz[:4]).all()
    poses = [] if nonfinite else [[float(v) for v in np.asarray(p).flatten()] for p in obj.poses_se3[:4]]
    return {"status": "ok", "rows": rows, "poses": poses, "type": type(obj).__name__,
            "lens": [len(obj.timestamps), len(obj.positions_xyz), len(obj.orientations_quat_wxyz)]}


def impl_history(case):
    """one file name in a scratch cwd, rewritten and re-read several times (with / without BOM)"""
    import pathlib
    from evo.tools import file_interface as fi
    fmt = case["fmt"]
    f = {"tum": fi.read_tum_trajectory_file, "kitti": fi.read_kitti_poses_file, "euroc": fi.read_euroc_csv_trajectory}[fmt]
    d = tempfile.mkdtemp(prefix="hist_", dir=tmpdir())
    os.mkdir(os.path.join(d, "sub"))
    global NREAD
    NREAD += 1      # a name of its own per history: relative spellings of different cases must not meet in any path-keyed state
    name = {"tum": "traj_%d.txt", "kitti": "poses_%d.txt", "euroc": "data_%d.csv"}[fmt] % NREAD
    old = os.getcwd()
    os.chdir(d)
    out = []
    try:
        for st in case["steps"]:
            p = {"rel": name, "dot": "./" + name, "dotdot": "sub/../" + name, "abs": os.path.join(d, name)}[st["spell"]]
            with open(os.path.join(d, name), "wb") as fh:
                fh.write(((tf.BOM if st["bom"] else "") + st["text"]).encode("utf-8"))
            try:
                obj = f(pathlib.Path(p) if st["ptype"] == "Path" else p)
                out.append(extract(fmt, obj))
            except fi.FileInterfaceException:
                out.append({"status": "FIE"})
            except Exception as e:  # noqa
                out.append({"status": "EXC:" + type(e).__name__, "msg": str(e)[:120]})
    finally:
        os.chdir(old)
    return {"steps": out}


def impl_tfhistory(case):
    from evo.tools import file_interface as fi
    global NREAD
    NREAD += 1
    d = tempfile.mkdtemp(prefix="tfh_", dir=tmpdir())
    os.mkdir(os.path.join(d, "sub"))
    name = "tf_%d.bin" % NREAD
    old = os.getcwd()
    os.chdir(d)
    out = []
    try:
        for st in case["steps"]:
            a = np.array(st["mat"], dtype=float)
            with open(os.path.join(d, name), "wb") as fh:
                if st["store"] == "npy":
                    np.save(fh, a)
                else:
                    np.savetxt(fh, a)
            p = {"rel": name, "dot": "./" + name, "dotdot": "sub/../" + name, "abs": os.path.join(d, name)}[st["spell"]]
            try:
                m = fi.load_transform(p)
                out.append({"status": "ok", "mat": [[float(v) for v in row] for row in m]})
            except fi.FileInterfaceException:
                out.append({"status": "FIE"})
            except Exception as e:  # noqa
                out.append({"status": "EXC:" + type(e).__name__, "msg": str(e)[:120]})
    finally:
        os.chdir(old)
    return {"steps": out}


def run_impl(case):
    from evo.tools import file_interface as fi
    from evo.core.trajectory import PosePath3D, PoseTrajectory3D
    k = case["kind"]
    if k == "history":
        return impl_history(case)
    if k == "tfhistory":
        return impl_tfhistory(case)
    if k == "zipwritten":
        import zipfile
        from evo.core import result
        try:
            res = result.Result()
            for name, typ, d in case["trajs"]:
                if typ == "tum":
                    res.add_trajectory(name, PoseTrajectory3D(np.array(d["xyz"]), np.array(d["quat"]), np.array(d["stamps"])))
                else:
                    res.add_trajectory(name, PosePath3D(poses_se3=[np.array(m + [[0.0, 0.0, 0.0, 1.0]]) for m in d["mats"]]))
            buf = io.BytesIO()
            fi.save_res_file(buf, res)
            with zipfile.ZipFile(io.BytesIO(buf.getvalue())) as z:
                return {"status": "ok", "members": {n: z.read(n).decode("utf-8") for n in z.namelist() if n.endswith((".tum", ".kitti"))}}
        except Exception as e:  # noqa
            return {"status": "EXC:" + type(e).__name__, "msg": str(e)[:160], "members": {}}
    if k == "read":
        return call_reader(case["fmt"], case["variant"], case["text"])
    if k == "written":
        buf = io.StringIO()
        if case["fmt"] == "tum":
            tr = PoseTrajectory3D(np.array(case["xyz"]), np.array(case["quat"]), np.array(case["stamps"]))
            fi.write_tum_trajectory_file(buf, tr)
        else:
            poses = [np.array(m + [[0.0, 0.0, 0.0, 1.0]]) for m in case["mats"]]
            fi.write_kitti_poses_file(buf, PosePath3D(poses_se3=poses))
        return {"text": buf.getvalue()}
    p = os.path.join(tmpdir(), "tf.bin")
    if k == "tfjson":
        with open(p, "wb") as fh:
            fh.write(case["text"].encode("utf-8"))
    else:
        a = np.array(case["mat"], dtype=float)
        if case.get("dtype"):
            a = a.astype(case["dtype"])
        if case.get("order") == "F":
            a = np.asfortranarray(a)
        if case["store"] == "npy":
            with open(p, "wb") as fh:
                np.save(fh, a)
        else:
            np.savetxt(p, a)
    try:
        m = fi.load_transform(p)
    except fi.FileInterfaceException:
        return {"status": "FIE"}
    except Exception as e:  # noqa
        return {"status": "EXC:" + type(e).__name__, "msg": str(e)[:120]}
    return {"status": "ok", "shape": list(m.shape), "mat": [[float(v) for v in row] for row in m]}


# ------------------------------------------------------------------ model side
def model_lines(case, impl):
    k = case["kind"]
    if k == "history":
        return [f"C07 {case['fmt']} p {tf.hexs((tf.BOM if st['bom'] else '') + st['text'])}" for st in case["steps"]]
    if k == "zipwritten":
        return [f"C07 {typ} h {tf.hexs(impl['members'].get(name + '.' + typ, ''))}" for name, typ, _ in case["trajs"]]
    if k == "tfhistory":
        return [model_lines({"kind": "tfmat", "mat": st["mat"]}, None)[0] for st in case["steps"]]
    if k == "read":
        ls = [f"C07 {case['fmt']} {case['variant']} {tf.hexs(case['text'])}"]
        if impl.get("status") == "ok" and case["fmt"] != "kitti":
            for row in impl["rows"][:len(impl["poses"])]:
                w, x, y, z = (tf.from_bits(b) for b in row[4:8])
                ls.append(f"C07 quat {rat(w)} {rat(x)} {rat(y)} {rat(z)}")
        return ls
    if k == "written":
        return [f"C07 {case['fmt']} h {tf.hexs(impl['text'])}"]
    if k == "tfjson":
        return [f"C07 tfjson {tf.hexs(case['text'])}"]
    m = case["mat"]
    flat = [v for row in m for v in row]
    rect = all(len(row) == len(m[0]) for row in m)
    return [f"C07 issim3 {len(m)} {len(m[0]) if rect else 0} " + " ".join(rat(v) for v in flat)]


def parse_rows(out, width):
    """'n r…' -> list of rows of Fractions"""
    toks = out.split()
    n = int(toks[0])
    vals = [core.parse_rat(t) for t in toks[1:]]
    assert len(vals) == n * width, (len(vals), n, width)
    return [vals[i * width:(i + 1) * width] for i in range(n)]


# ------------------------------------------------------------------ judging
def judge_history(ctx, case, impl, outs):
    for i, (st, im, m) in enumerate(zip(case["steps"], impl["steps"], outs)):
        sub = {"kind": "read", "fmt": case["fmt"], "variant": "p", "text": (tf.BOM if st["bom"] else "") + st["text"],
               "label": "ok"}
        im = dict(im)
        im["poses"] = []          # the quaternion convention is judged by the single-read stream
        before = (len(ctx.failures), len(ctx.mismatches))
        judge_read(ctx, sub, im, [m], report=case)
        if (len(ctx.failures), len(ctx.mismatches)) != before:
            for lst in (ctx.failures[before[0]:], ctx.mismatches[before[1]:]):
                for _, f in lst:
                    key = "detail" if "detail" in f else "what"
                    f[key] = (f"history round {i + 1} of {len(case['steps'])} ({'BOM' if st['bom'] else 'no BOM'}, path spelled {st['spell']}/"
                              f"{st['ptype']}; previous round {'BOM' if i and case['steps'][i - 1]['bom'] else 'no BOM' if i else '-'}): " + str(f[key]))
    ctx.count("branch", "history:" + case["fmt"])


def judge_tfhistory(ctx, case, impl, outs):
    for i, (st, im, m) in enumerate(zip(case["steps"], impl["steps"], outs)):
        before = (len(ctx.failures), len(ctx.mismatches))
        sub = {"kind": "tfmat", "store": st["store"], "mat": st["mat"], "label": st["label"]}
        judge_tfmat(ctx, sub, im, [m], report=case)
        for lst in (ctx.failures[before[0]:], ctx.mismatches[before[1]:]):
            for _, f in lst:
                key = "detail" if "detail" in f else "what"
                f[key] = f"load_transform history round {i + 1} of {len(case['steps'])} ({st['label']}/{st['store']}, spelled {st['spell']}): " + str(f[key])
    ctx.count("branch", "history:load_transform")


def judge(ctx, case, impl, outs):
    if case["kind"] == "history":
        return judge_history(ctx, case, impl, outs)
    if case["kind"] == "tfhistory":
        return judge_tfhistory(ctx, case, impl, outs)
    if case["kind"] == "zipwritten":
        if impl["status"] != "ok":
            ctx.fail(case, "archive-writer-crashed", f"{impl['status']}: {impl.get('msg')}")
        for (name, typ, d), m in zip(case["trajs"], outs):
            sub = {"kind": "written", "fmt": typ, **d}
            before = (len(ctx.failures), len(ctx.mismatches))
            judge_written(ctx, sub, {"text": impl["members"].get(name + "." + typ, "")}, [m], report=case)
            for lst in (ctx.failures[before[0]:], ctx.mismatches[before[1]:]):
                for _, f in lst:
                    key = "detail" if "detail" in f else "what"
                    f[key] = f"archive member {name}.{typ}: " + str(f[key])
        texts = [len(impl["members"].get(n + "." + t, "")) for n, t, _ in case["trajs"]]
        ctx.count("branch", "zipwritten:" + ("decreasing-text" if any(b < a for a, b in zip(texts, texts[1:])) else "non-decreasing-text"))
        return
    {"read": judge_read, "written": judge_written, "tfjson": judge_tfjson, "tfmat": judge_tfmat}[case["kind"]](ctx, case, impl, outs)


def judge_read(ctx, case, impl, outs, report=None):
    rc = report if report is not None else case
    fmt, variant, text = case["fmt"], case["variant"], case["text"]
    width = 12 if fmt == "kitti" else 8
    ref = tf.ref_read(fmt, text, variant == "p")
    label = case.get("label", "?")
    ctx.count("dist", f"{fmt}:{variant}:{label}")
    if ref != "reject" and tf.has_inf(ref):
        ctx.skipped += 1            # literal overflowing binary64: outside the modelled domain
        return
    m = outs[0]
    st = impl["status"]
    # ---- correspondence: evo vs model
    if m in ("E_FORMAT", "E_RANGE"):
        ctx.count("branch", "read:" + m)
        if st != "FIE":
            ctx.mismatch(rc, f"model {m}, evo {st}", st, m)
    else:
        rows = parse_rows(m, width)
        ctx.count("branch", "read:accepted")
        if st != "ok":
            ctx.mismatch(rc, f"model accepts {len(rows)} rows, evo {st}", st, "ok")
        else:
            got = [[safe_frac(tf.from_bits(b)) for b in row] for row in impl["rows"]]
            if got != rows:
                ctx.mismatch(rc, "parsed values differ from rne(parseDec field) in some slot",
                             first_diff(got, rows), None)
    # ---- oracle: the reference reader (skipped for a BOM character in a text handle)
    if not (variant == "h" and text.startswith(tf.BOM)):
        if ref == "reject":
            if st == "ok":
                ctx.fail(rc, "malformed-file-accepted", f"defect {label}: evo loaded {len(impl['rows'])} rows", {"defect": label})
            elif st != "FIE":
                ctx.fail(rc, "malformed-file-wrong-exception", f"defect {label}: {st} {impl.get('msg')}", {"defect": label})
        else:
            if st != "ok":
                ctx.fail(rc, "well-formed-file-rejected", f"{st} {impl.get('msg', '')}")
            else:
                want = [[tf.bits(v) for v in row] for row in ref]
                if len(want) != len(impl["rows"]):
                    ctx.fail(rc, "row-count", f"file has {len(want)} data rows, evo loaded {len(impl['rows'])}")
                elif want != impl["rows"]:
                    ctx.fail(rc, "values-in-slots", "first difference (row, slot, evo, file): %s" % (first_diff(impl["rows"], want),))
                if fmt == "kitti" and not impl["bottom_ok"]:
                    ctx.fail(rc, "kitti-bottom-row", "bottom row is not 0 0 0 1")
                if fmt != "kitti" and len(set(impl["lens"])) != 1:
                    ctx.fail(rc, "row-count", f"lengths {impl['lens']}")
    # ---- quaternion convention: poses_se3 of the loaded object
    if st == "ok" and fmt != "kitti":
        for k, pose in enumerate(impl["poses"]):
            w, x, y, z = (tf.from_bits(b) for b in impl["rows"][k][4:8])
            if not all(math.isfinite(v) for v in (w, x, y, z)) or not all(math.isfinite(v) for v in pose):
                continue
            n2 = sum(frac(v) ** 2 for v in (w, x, y, z))
            if not (1e-12 < n2 < 1e12) or k + 1 >= len(outs):
                continue
            mod = [core.parse_rat(t) for t in outs[1 + k].split()]
            Rm = [mod[0:3], mod[3:6], mod[6:9]]
            Ro = rot_from_quat_exact(w, x, y, z)
            tx = [tf.from_bits(b) for b in impl["rows"][k][1:4]]
            for i in range(3):
                for j in range(3):
                    if abs(frac(pose[4 * i + j]) - Rm[i][j]) > Fraction(1, 10 ** 12):
                        ctx.mismatch(rc, f"poses_se3[{k}][{i},{j}] differs from Text.quatToRot", pose[4 * i + j], float(Rm[i][j]))
                    if abs(frac(pose[4 * i + j]) - Ro[i][j]) > Fraction(1, 10 ** 12):
                        ctx.fail(rc, "quaternion-convention", f"pose {k} entry ({i},{j}): {pose[4*i+j]} vs {float(Ro[i][j])} for wxyz={w,x,y,z}")
                if tf.bits(pose[4 * i + 3]) != tf.bits(tx[i]) and math.isfinite(tx[i]):
                    ctx.fail(rc, "translation-slot", f"pose {k} translation {i}")
            ctx.count("branch", "quat-checked")
    nontrivial = label != "ok" or (ref != "reject" and len(ref) > 1)
    ctx.record(rc, nontrivial)


def safe_frac(v):
    """exact value of a finite double; a marker (never equal to a model value) for inf / nan"""
    return frac(v) if math.isfinite(v) else "non-finite:" + tf.bits(v)


def first_diff(a, b):
    for i, (ra, rb) in enumerate(zip(a, b)):
        for j, (x, y) in enumerate(zip(ra, rb)):
            if x != y:
                return [i, j, str(x), str(y)]
        if len(ra) != len(rb):
            return [i, "len", len(ra), len(rb)]
    return ["len", len(a), len(b)]


def judge_written(ctx, case, impl, outs, report=None):
    rc = report if report is not None else case
    fmt = case["fmt"]
    width = 12 if fmt == "kitti" else 8
    text = impl["text"]
    ctx.count("dist", f"written:{fmt}")
    if fmt == "tum":
        want = [[t] + list(x) + list(q) for t, x, q in zip(case["stamps"], case["xyz"], case["quat"])]
    else:
        want = [[v for row in m for v in row] for m in case["mats"]]
    wantb = [[tf.bits(v) for v in row] for row in want]
    ref = tf.ref_read(fmt, text, False)
    if ref == "reject":
        ctx.fail(rc, "written-file-not-conventional", "the reference reader rejects the file evo wrote: " + repr(text[:200]))
    elif [[tf.bits(v) for v in row] for row in ref] != wantb:
        ctx.fail(rc, "written-file-other-poses", "the reference reader finds other values/slots than the trajectory holds: %s"
                 % (first_diff([[tf.bits(v) for v in row] for row in ref], wantb),))
    m = outs[0]
    if m in ("E_FORMAT", "E_RANGE"):
        ctx.mismatch(rc, f"model reader answers {m} on a file evo wrote", text[:200], m)
    else:
        rows = parse_rows(m, width)
        ctx.count("branch", "written:model-read")
        if rows != [[frac(v) for v in row] for row in want]:
            ctx.mismatch(rc, "model reader finds other values in the file evo wrote",
                         first_diff(rows, [[frac(v) for v in row] for row in want]), None)
    ctx.record(rc, len(want) > 1)


def parse_json_ref(text):
    """independent reading of the flat JSON object: dict key -> double (last duplicate wins)"""
    return json.loads(text, parse_float=tf.literal_double, parse_int=tf.literal_double)


def judge_tfjson(ctx, case, impl, outs):
    label = case["label"]
    ctx.count("dist", "tfjson:" + label)
    m = outs[0]
    st = impl["status"]
    d = parse_json_ref(case["text"])
    if any(isinstance(v, float) and not math.isfinite(v) for v in d.values()):
        ctx.skipped += 1            # literal overflowing binary64: outside the modelled domain
        return
    keys = ("x", "y", "z", "qx", "qy", "qz", "qw")
    complete = all(k in d for k in keys)
    sc = d.get("scale", 1.0)
    # correspondence
    if m == "NOJSON" or m == "E_RANGE":
        ctx.mismatch(case, "model cannot read the generated JSON: " + m, st, m)
    elif m == "E_FORMAT":
        ctx.count("branch", "tfjson:missing-key")
        if st != "FIE":
            ctx.mismatch(case, "model: key missing, evo: " + st, st, m)
    else:
        toks = m.split()
        acc, margin = toks[0] == "1", core.parse_rat(toks[1])
        M = [core.parse_rat(t) for t in toks[2:]]
        ctx.count("branch", "tfjson:sim3-accept" if acc else "tfjson:sim3-reject")
        if margin < Fraction(1, 10 ** 9):
            ctx.skipped += 1
        elif acc != (st == "ok"):
            ctx.mismatch(case, f"model isSim3Tol={acc}, evo {st}", st, acc)
        elif st == "ok":
            tol = Fraction(1, 10 ** 13) * max(1, abs(frac(sc)))
            flat = [v for row in impl["mat"] for v in row]
            for idx, (a, b) in enumerate(zip(flat, M)):
                t = 0 if idx % 4 == 3 or idx >= 12 else tol
                if abs(frac(a) - b) > t:
                    ctx.mismatch(case, f"load_transform_json entry {idx} differs from the model", a, float(b))
                    break
    # oracle
    if not complete:
        if st != "FIE":
            ctx.fail(case, "json-missing-key-not-rejected", f"{st}; keys present {sorted(d)}")
    elif not (sc > 0):
        if st != "FIE":
            ctx.fail(case, "transform-not-sim3-accepted", f"scale {sc}: {st}")
    else:
        n2 = sum(frac(d[k]) ** 2 for k in ("qw", "qx", "qy", "qz"))
        if st != "ok":
            if n2 > Fraction(1, 10 ** 12):
                ctx.fail(case, "valid-json-transform-rejected", f"{st} {impl.get('msg', '')}")
        elif n2 > Fraction(1, 10 ** 12):
            R = rot_from_quat_exact(d["qw"], d["qx"], d["qy"], d["qz"])
            want = [[frac(sc) * R[i][j] for j in range(3)] + [frac(d["xyz"[i]])] for i in range(3)] + [[0, 0, 0, 1]]
            tol = Fraction(1, 10 ** 12) * max(1, abs(frac(sc)))
            for i in range(4):
                for j in range(4):
                    t = 0 if (j == 3 or i == 3) else tol
                    if abs(frac(impl["mat"][i][j]) - want[i][j]) > t:
                        ctx.fail(case, "json-slots", f"entry ({i},{j}) = {impl['mat'][i][j]}, file says {float(want[i][j])}")
                        break
    ctx.record(case, True)


def sim3_defect(M):
    """independent exact measure of how far a 4x4 matrix is from Sim(3): None = certainly not
    (shape, bottom row, det <= 0), otherwise max |(R^T R)_ij / s^2 - delta_ij| with s^3 = det R"""
    if len(M) != 4 or any(len(row) != 4 for row in M):
        return None
    if [tf.bits(v) for v in M[3]] not in ([tf.bits(v) for v in (0.0, 0.0, 0.0, 1.0)],):
        if [float(v) for v in M[3]] != [0.0, 0.0, 0.0, 1.0]:
            return None
    A = [[frac(M[i][j]) for j in range(3)] for i in range(3)]
    det = (A[0][0] * (A[1][1] * A[2][2] - A[1][2] * A[2][1]) - A[0][1] * (A[1][0] * A[2][2] - A[1][2] * A[2][0])
           + A[0][2] * (A[1][0] * A[2][1] - A[1][1] * A[2][0]))
    if det <= 0:
        return None
    decimal.getcontext().prec = 60
    dd = decimal.Decimal(det.numerator) / decimal.Decimal(det.denominator)
    s2 = (dd.ln() * 2 / 3).exp()
    s2 = Fraction(s2)
    worst = Fraction(0)
    for i in range(3):
        for j in range(3):
            g = sum(A[k][i] * A[k][j] for k in range(3))
            worst = max(worst, abs(g / s2 - (1 if i == j else 0)))
    return worst


def judge_tfmat(ctx, case, impl, outs, report=None):
    rc = report if report is not None else case
    label = case["label"]
    ctx.count("dist", f"tfmat:{case['store']}:{label}" + (":" + case.get("dtype", case.get("order", "")) if case.get("dtype") or case.get("order") else ""))
    st = impl["status"]
    toks = outs[0].split()
    acc, margin = toks[0] == "1", core.parse_rat(toks[1])
    ctx.count("branch", "issim3:accept" if acc else "issim3:reject")
    if label.startswith("near"):
        ctx.count("branch", f"issim3:{label}:{'accept' if acc else 'reject'}")
    shape_ok = len(case["mat"]) == 4 and all(len(row) == 4 for row in case["mat"])
    if shape_ok and margin < Fraction(1, 10 ** 9) and label.startswith("near"):
        ctx.skipped += 1
    elif acc != (st == "ok"):
        ctx.mismatch(rc, f"model isSim3Tol={acc} (margin {float(margin):.3g}), evo {st}", st, acc)
    # oracle
    dfc = sim3_defect(case["mat"])
    if dfc is None or dfc > Fraction(1, 10 ** 4):
        if st == "ok":
            ctx.fail(rc, "transform-not-sim3-accepted", f"{label}: defect {None if dfc is None else float(dfc)}", {"defect": label})
        elif st != "FIE":
            ctx.fail(rc, "invalid-transform-wrong-exception", f"{label}: {st} {impl.get('msg')}", {"defect": label})
    elif dfc < Fraction(1, 10 ** 8):
        if st != "ok":
            ctx.fail(rc, "valid-transform-rejected", f"{label}: defect {float(dfc)}: {st} {impl.get('msg', '')}")
        elif [[tf.bits(v) for v in row] for row in impl["mat"]] != [[tf.bits(v) for v in row] for row in case["mat"]]:
            ctx.fail(rc, "transform-values", "loaded matrix differs from the stored one")
    else:
        ctx.count("branch", "issim3:inside-tolerance-band")
    ctx.record(rc, True)


# ------------------------------------------------------------------ driver
def evaluate(ctx, cases):
    impls = [run_impl(c) for c in cases]
    lines, spans = [], []
    for c, im in zip(cases, impls):
        ls = model_lines(c, im)
        spans.append((len(lines), len(lines) + len(ls)))
        lines += ls
    outs = core.run_driver(lines, prop="C07")
    for c, im, (a, b) in zip(cases, impls, spans):
        try:
            judge(ctx, c, im, outs[a:b])
        except Exception as e:  # noqa  (never a tool error: what evo returned could not even be judged)
            ctx.fail(c, "output-cannot-be-judged", f"the harness could not judge what evo returned: {type(e).__name__}: {str(e)[:160]}: {str(im)[:200]}")


def shrink(case):
    if case["kind"] == "zipwritten":
        if len(case["trajs"]) > 2:
            for i in range(len(case["trajs"])):
                yield {"kind": "zipwritten", "trajs": case["trajs"][:i] + case["trajs"][i + 1:]}
        return
    if case["kind"] in ("history", "tfhistory"):
        n = len(case["steps"])
        if n > 2:
            for i in range(n):
                c = dict(case)
                c["steps"] = case["steps"][:i] + case["steps"][i + 1:]
                yield c
        return
    if case["kind"] == "read":
        lines = case["text"].split("\n")
        if len(lines) > 1:
            for i in range(len(lines)):
                c = dict(case)
                c["text"] = "\n".join(lines[:i] + lines[i + 1:])
                yield c
    elif case["kind"] == "written":
        key = "stamps" if case["fmt"] == "tum" else "mats"
        n = len(case[key])
        if n > 1:
            for keep in (slice(0, n // 2), slice(n // 2, n), slice(0, 1)):
                c = dict(case)
                for k in ("stamps", "xyz", "quat", "mats"):
                    if k in c:
                        c[k] = c[k][keep]
                yield c


OPEN = ["spellings outside the decimal grammar that float() accepts (nan, inf, 1_000, surrounding white space, non-ASCII digits), "
        "quoted fields, lone CR and literals overflowing binary64 are outside the modelled domain: not generated",
        "a U+FEFF character in a *text handle* is rejected by evo as a non-numeric field; the byte-order mark is skipped for paths only "
        "(compared with the model, not judged by the oracle)",
        "quaternion -> rotation and is_sim3 use sqrt / cube root in floats: compared with the exact rational model within 1e-12 / "
        "outside a 1e-9 relative band around the tolerance thresholds",
        "np.load / np.loadtxt containers are libraries: bit-exact differential only"]


def check(ctx):
    lean = core.lean_side(ctx.prop, ctx.tier)
    core.drift(ctx, MODELLED)
    cases = list(gen_cases(ctx))
    evaluate(ctx, cases)
    core.shrink_all(ctx, shrink, evaluate)
    return core.finish(ctx, lean, rule=RULE, open_clauses=OPEN,
                       extra_trusted=["CPython int/int true division (correct rounding) inside the reference reader of the oracle"],
                       assumptions=["texts over the modelled alphabet: no double quote / NUL in data lines, CR only before LF or at the end"])


def replay(ctx, data):
    core.sh("lake build drv_C07", cwd=core.LEAN)
    evaluate(ctx, [data["case"]])
    return core.finish_replay(ctx)
