"""C08 — trajectory operations: documented effect, consistent views (evo/core/trajectory.py).
Model: lean/EvoModel/Model/Traj.lean (abstract spec + cache machine), driver op `run`.

A case is an operation *history* applied to one real PosePath3D / PoseTrajectory3D object and to the
cache machine.  Only the views named by `rd` steps are read from the real object; everything else is
observed on a deep copy taken after each step (so the observation cannot repair or mask a stale cache).
"""
import copy
import itertools
import math
import random
import sys

import numpy as np

import core
from core import Fraction, frac, rat

RULE = ("case = (constructor se3|pos+quat, with/without stamps, poses, operation history); exact-grid stream: every history "
        "over a fixed alphabet (22 symbols: left/right/propagating SE(3), Sim(3) left/right/propagating, scale, reduce, downsample, "
        "motion filter, crop, align, align_origin, project, copy, reads of each view, check, reduce with repeated indices, reduce with a same-length permutation, reduce with negative indices) up to depth 2 (quick) / 3 (thorough) plus "
        "depth 4 over the cache-relevant sub-alphabet (12 symbols), on 3-pose trajectories with 90-degree rotations and dyadic coordinates; "
        "long exact-grid stream: histories of length <= 12 on up to 200 poses (incl. propagation); random stream: histories of length <= 15 "
        "on 1..200 poses, epoch stamps, UTM-sized offsets, scales 1e-3..1e3 (propagating transforms only on <= 40 poses there: exact "
        "rationals of a propagated chain grow with the pose index); "
        "every read, num_poses, check() (on a deep copy) and raised errors compared with the cache machine after every step; "
        "non-trivial = the history contains a mutating operation (all views are observed on a deep copy after every step); "
        "distinct by content hash")

T_ = "evo/core/trajectory.py:"
MODELLED = [T_ + "PosePath3D." + f for f in ("__init__", "positions_xyz", "orientations_quat_wxyz", "poses_se3", "num_poses", "distances",
                                              "path_length", "transform", "scale", "project", "align", "align_origin",
                                              "reduce_to_ids", "downsample", "motion_filter", "check")] \
    + [T_ + "PoseTrajectory3D." + f for f in ("__init__", "reduce_to_ids", "reduce_to_time_range", "check", "speeds")] \
    + [T_ + "xyz_quat_wxyz_to_se3_poses", T_ + "se3_poses_to_xyz_quat_wxyz", T_ + "calc_speed",
       "evo/core/transformations.py:quaternion_matrix", "evo/core/geometry.py:arc_len", "evo/core/geometry.py:accumulated_distances"] \
    + ["evo/core/lie_algebra.py:" + f for f in ("se3", "se3_inverse", "relative_se3", "sim3_scale", "is_se3", "is_so3")]

PLANES = {"xy": 2, "xz": 1, "yz": 0}
U = 2.0 ** -53
sys.set_int_max_str_digits(0)   # exact rationals of long histories have thousands of digits


# ----------------------------------------------------------------------------- small exact / float helpers
def quat_to_rot_f(q):
    """rotation matrix of a (not necessarily unit) quaternion w,x,y,z — exact in Fractions"""
    w, x, y, z = [frac(float(v)) for v in q]
    n = w * w + x * x + y * y + z * z
    k = 2 / n
    return [[1 - k * (y * y + z * z), k * (x * y - z * w), k * (x * z + y * w)],
            [k * (x * y + z * w), 1 - k * (x * x + z * z), k * (y * z - x * w)],
            [k * (x * z - y * w), k * (y * z + x * w), 1 - k * (x * x + y * y)]]


def rand_quat(r):
    while True:
        v = [r.gauss(0, 1) for _ in range(4)]
        n = math.sqrt(sum(a * a for a in v))
        if n > 1e-3:
            return [a / n for a in v]


def rot_of_quat(q):
    return np.array([[float(v) for v in row] for row in quat_to_rot_f(q)])


GRID_ROTS = None


def grid_rots():
    """the 24 proper rotations with entries in {0, ±1}"""
    global GRID_ROTS
    if GRID_ROTS is None:
        out = []
        for perm in itertools.permutations(range(3)):
            for signs in itertools.product([1, -1], repeat=3):
                m = np.zeros((3, 3))
                for i in range(3):
                    m[i, perm[i]] = signs[i]
                if round(np.linalg.det(m)) == 1:
                    out.append(m)
        GRID_ROTS = out
    return GRID_ROTS


GRID_QUATS = {}


def grid_quat(m):
    """exact quaternion (entries in {0, ±1/2, ±1, ±sqrt(1/2)}) of a grid rotation; only those with dyadic entries used"""
    key = m.tobytes()
    if key not in GRID_QUATS:
        best = None
        for w, x, y, z in itertools.product([0.0, 0.5, -0.5, 1.0, -1.0], repeat=4):
            if abs(w * w + x * x + y * y + z * z - 1.0) < 1e-12 and np.array_equal(rot_of_quat([w, x, y, z]), m):
                best = [w, x, y, z]
                break
        GRID_QUATS[key] = best
    return GRID_QUATS[key]


def red_ids(op, n):
    """index list of a `red` step for the current number of poses: `sel` = increasing subset (fractions of n);
    `how` = arbitrary lists — rev (same-length permutation), rot (rotation by one), rep (every index once or twice,
    e.g. [0,0,1,2,2]), samerep (same length as the trajectory with a repeat), shuf (shuffled subset), empty"""
    if n <= 0:
        return []
    if "sel" in op:
        return sorted(set(int(f * n) for f in op["sel"]))
    rr = random.Random(op.get("seed", 0))
    how = op["how"]
    if how == "rev":
        return list(range(n))[::-1]
    if how == "rot":
        return list(range(1, n)) + [0]
    if how == "rep":
        out = []
        for i in range(n):
            out += [i] * (2 if (i % 2 == 0 or rr.random() < 0.3) else 1)
        return out
    if how == "samerep":
        return ([0] + list(range(n - 1))) if n > 1 else [0]
    if how == "shuf":
        ids = [i for i in range(n) if rr.random() < 0.7] or [0]
        rr.shuffle(ids)
        return ids
    if how == "empty":
        return []
    # signed indices, Python semantics: -1 = last, -n = first, mixed with non-negative ones
    if how == "neg":
        return [0, -1]
    if how == "negmix":
        return [(i if rr.random() < 0.5 else i - n) for i in range(n) if rr.random() < 0.8] or [-1]
    if how == "negall":
        return list(range(-n, 0))
    if how == "negout":          # one index below -n: numpy raises IndexError, nothing may change
        return [0, -n - 1]
    if how == "posout":
        return [0, n]
    raise ValueError(how)


def mat4(rot, t):
    m = np.eye(4)
    m[:3, :3] = rot
    m[:3, 3] = t
    return m


# ----------------------------------------------------------------------------- case generation
def grid_base(r, timed, ctor, n=3):
    rots = [m for m in grid_rots() if grid_quat(m) is not None]
    poses, quats, xyz = [], [], []
    for k in range(n):
        m = r.choice(rots)
        t = [r.randint(-8, 8) / 2.0 + 3 * k, r.randint(-8, 8) / 4.0, r.randint(-4, 4) / 2.0]
        poses.append(mat4(m, t).flatten().tolist())
        quats.append(grid_quat(m))
        xyz.append(t)
    st = [float(k) + r.choice([0.0, 0.25, 0.5]) for k in range(n)] if timed else None
    c = {"kind": "grid", "ctor": ctor, "stamps": st}
    if ctor == "se3":
        c["poses"] = poses
    else:
        c["xyz"], c["quat"] = xyz, quats
    return c


def with_shared(r, case):
    """variant of an se3-constructed case whose pose list repeats matrix objects: all slots one object (`[P]*n`)
    or some neighbouring slots sharing one"""
    n = len(case["poses"])
    if r.random() < 0.5:
        share = [0] * n
    else:
        share, cur = [], 0
        for i in range(n):
            if i > 0 and r.random() < 0.5:
                share.append(cur)
            else:
                cur = i
                share.append(i)
    c = dict(case)
    c["share"] = share
    c["poses"] = [case["poses"][j] for j in share]
    return c


def grid_alphabet(r):
    rots = grid_rots()
    T1 = mat4(rots[7], [1.0, -2.0, 0.5]).flatten().tolist()
    S2 = mat4(2.0 * rots[13], [0.5, 1.0, -1.0]).flatten().tolist()
    ref = mat4(rots[5], [4.0, 4.0, -2.0]).flatten().tolist()
    full = [
        {"op": "tf", "mode": "L", "T": T1}, {"op": "tf", "mode": "R", "T": T1}, {"op": "tf", "mode": "P", "T": T1},
        {"op": "tf", "mode": "L", "T": S2}, {"op": "tf", "mode": "R", "T": S2}, {"op": "tf", "mode": "P", "T": S2},
        {"op": "sc", "s": 2.0},
        {"op": "red", "sel": [0.0, 0.7]}, {"op": "ds", "n": 2}, {"op": "mf", "d": 3.0, "a": 4.0}, {"op": "mf", "d": 1e9, "a": 0.4, "deg": True},
        {"op": "crop", "lo": 0.4, "hi": 0.99},
        {"op": "al", "mode": "s", "ref_seed": 5, "grid": True, "n": -1}, {"op": "ao", "ref": ref},
        {"op": "pj", "plane": "xy"}, {"op": "cp"}, {"op": "cp", "side": True}, {"op": "tf", "mode": "L", "T": T1, "lp": True},
        {"op": "rd", "v": "pos"}, {"op": "rd", "v": "quat"}, {"op": "rd", "v": "se3"}, {"op": "chk"},
        {"op": "red", "how": "rep"}, {"op": "red", "how": "rev"}, {"op": "red", "how": "neg"},
    ]
    core_ = [full[i] for i in (0, 2, 3, 6, 7, 9, 11, 13, 15, 16, 17, 19)]
    return full, core_


def rand_transform(r, kind):
    q = rand_quat(r)
    mag = r.choice([1.0, 10.0, 1e3, 1e6])
    t = [r.uniform(-mag, mag) for _ in range(3)]
    s = 1.0 if kind == "se3" else r.choice([0.5, 2.0, 10 ** r.uniform(-3, 3)])
    return mat4(s * rot_of_quat(q), t).flatten().tolist()


def rand_base(r, maxn):
    n = r.choice([1, 2, 3, r.randint(4, 20), r.randint(4, maxn)])
    timed = r.random() < 0.6
    ctor = r.choice(["se3", "pq"])
    off = r.choice([0.0, 0.0, 100.0, 4.5e5])
    step = r.choice([0.01, 0.5, 5.0])
    p = np.array([off + r.uniform(-1, 1), off * 10 + r.uniform(-1, 1), r.uniform(-1, 1)])
    xyz, quats = [], []
    q = rand_quat(r)
    for k in range(n):
        xyz.append(p.tolist())
        quats.append(list(q))
        p = p + np.array([r.gauss(0, step), r.gauss(0, step), r.gauss(0, step * 0.1)])
        if r.random() < 0.8:
            dq = rand_quat(r)
            a = r.choice([0.02, 0.3])
            q2 = [q[i] + a * dq[i] for i in range(4)]
            nn = math.sqrt(sum(v * v for v in q2))
            q = [v / nn for v in q2]
    st = None
    if timed:
        t0 = r.choice([0.0, 1.5e9 + r.random() * 1e6])
        dt = r.choice([0.01, 0.1, 1.0])
        st, t = [], t0
        for k in range(n):
            st.append(t)
            t += dt * r.uniform(0.5, 1.5)
    c = {"kind": "random", "ctor": ctor, "stamps": st}
    if ctor == "se3":
        c["poses"] = [mat4(rot_of_quat(qq), x).flatten().tolist() for qq, x in zip(quats, xyz)]
    else:
        c["xyz"], c["quat"] = xyz, quats
    return c, n


def rand_ops(r, n, timed, length):
    ops = []
    props = 0
    for _ in range(length):
        k = r.random()
        if k < 0.30:
            ops.append({"op": "rd", "v": r.choice(["pos", "quat", "se3", "stamps", "num", "dist"])})
        elif k < 0.45:
            mode = r.choice(["L", "L", "R", "P"])
            if mode == "P":
                # exact rationals of a propagated chain grow with the pose index; repeated propagation multiplies
                # that growth, so the number of propagations per history is bounded by the trajectory length
                # (long propagations are covered by the exact-grid stream `long-grid`, where the numbers stay small)
                props += 1
                if props > (3 if n <= 4 else 2 if n <= 7 else 1) or n > 40:
                    mode = "R"
            T = rand_transform(r, r.choice(["se3", "se3", "sim3"]))
            if mode == "P":
                # a Sim(3) propagation multiplies the scale once per pose: keep s^n inside the float range
                a = np.array(T).reshape(4, 4)
                sc = abs(float(np.linalg.det(a[:3, :3]))) ** (1.0 / 3.0)
                if abs(sc - 1.0) > 1e-9:
                    a[:3, :3] *= r.choice([0.5, 2.0, 1.25]) / sc
                    T = a.flatten().tolist()
            ops.append({"op": "tf", "mode": mode, "T": T, **({"lp": True} if mode == "L" and r.random() < 0.4 else {})})
        elif k < 0.52:
            ops.append({"op": "sc", "s": r.choice([2.0, 0.5, 10 ** r.uniform(-3, 3)])})
        elif k < 0.58:
            if r.random() < 0.5:
                ops.append({"op": "red", "sel": sorted(r.random() for _ in range(r.randint(1, 12)))})
            else:
                ops.append({"op": "red", "how": r.choice(["rev", "rot", "rep", "samerep", "shuf", "shuf", "neg", "negmix", "negmix", "negall", "negout", "posout"]) if r.random() < 0.92
                            else "empty", "seed": r.randint(0, 10 ** 6)})
        elif k < 0.63:
            ops.append({"op": "ds", "n": r.choice([1, 2, 3, 5, 17, 100, 0])})
        elif k < 0.68:
            ops.append({"op": "mf", "d": r.choice([0.0, 0.05, 1.0, 10.0, 1e9]), "a": r.choice([0.0, 0.1, 0.4, 1.0, 4.0]),
                        **({"deg": True} if r.random() < 0.5 else {})})
        elif k < 0.73 and timed:
            lo = r.random() * 0.6
            ops.append({"op": "crop", "lo": lo, "hi": min(0.999, lo + r.random() * 0.6)})
        elif k < 0.80:
            ops.append({"op": "al", "mode": r.choice(["r", "s", "o"]), "ref_seed": r.randint(0, 10 ** 6), "grid": False,
                        "n": r.choice([-1, -1, 3, 10])})
        elif k < 0.84:
            ops.append({"op": "ao", "ref": rand_transform(r, "se3")})
        elif k < 0.90:
            ops.append({"op": "pj", "plane": r.choice(["xy", "xz", "yz"])})
        elif k < 0.94:
            ops.append({"op": "cp", **({"side": True} if r.random() < 0.5 else {})})
        else:
            ops.append({"op": "chk"})
    return ops


def gen_cases(ctx):
    r = ctx.rng
    full, core_ = grid_alphabet(r)
    # corpus: the shapes of the DESIGN kills (cache filled, mutate, read another view)
    for ctor in ("se3", "pq"):
        for timed in (False, True):
            b = grid_base(r, timed, ctor)
            for hist in ([{"op": "rd", "v": "se3"}, {"op": "sc", "s": 2.0}, {"op": "rd", "v": "se3"}, {"op": "rd", "v": "pos"}],
                         [{"op": "rd", "v": "quat"}, {"op": "pj", "plane": "xy"}, {"op": "rd", "v": "quat"}],
                         [{"op": "rd", "v": "pos"}, {"op": "rd", "v": "quat"}, {"op": "rd", "v": "se3"},
                          {"op": "red", "sel": [0.0, 0.7]}, {"op": "rd", "v": "pos"}, {"op": "rd", "v": "quat"}, {"op": "rd", "v": "se3"}],
                         [{"op": "tf", "mode": "R", "T": full[0]["T"]}, {"op": "rd", "v": "se3"}],
                         [{"op": "tf", "mode": "P", "T": full[0]["T"]}, {"op": "rd", "v": "se3"}],
                         [{"op": "tf", "mode": "L", "T": full[3]["T"]}, {"op": "chk"}]):
                yield dict(b, ops=hist, corpus=True)
    # index lists with repeats / same-length permutations, matrix objects shared inside the pose list
    for timed in (False, True):
        for how in ("rep", "rev", "samerep", "rot", "shuf", "neg", "negmix", "negall", "negout", "posout"):
            for tail in ([{"op": "sc", "s": 2.0}], [{"op": "tf", "mode": "L", "T": full[0]["T"]}], [{"op": "pj", "plane": "xy"}],
                         [{"op": "rd", "v": "pos"}, {"op": "sc", "s": 2.0}]):
                for ctor in ("se3", "pq"):
                    yield dict(grid_base(r, timed, ctor), corpus=True,
                               ops=[{"op": "red", "how": how, "seed": 1}] + tail + [{"op": "rd", "v": "se3"}, {"op": "rd", "v": "pos"}])
        for tail in ([{"op": "sc", "s": 2.0}], [{"op": "rd", "v": "pos"}, {"op": "sc", "s": 0.5}, {"op": "rd", "v": "se3"}],
                     [{"op": "pj", "plane": "xy"}], [{"op": "tf", "mode": "P", "T": full[0]["T"]}],
                     [{"op": "red", "how": "rev"}, {"op": "sc", "s": 2.0}]):
            for _ in range(2):
                yield dict(with_shared(r, grid_base(r, timed, "se3", n=r.choice([2, 3, 5]))), ops=tail, corpus=True)
    depth = 3 if ctx.thorough else 2
    for ctor in ("se3", "pq"):
        for d in range(1, depth + 1):
            for hist in itertools.product(full, repeat=d):
                # with and without stamps for depth <= 2; at depth 3 one of the two, chosen at random per history
                for timed in ((False, True) if d <= 2 else (r.random() < 0.5,)):
                    if not timed and any(o["op"] == "crop" for o in hist):
                        continue
                    yield dict(grid_base(r, timed, ctor), ops=list(hist), exhaustive=d)
    # deeper histories over the cache-relevant sub-alphabet
    if ctx.thorough:
        for hist in itertools.product(core_, repeat=4):
            # constructor and stamps chosen at random per history (every depth-4 history once)
            yield dict(grid_base(r, r.random() < 0.5, r.choice(["se3", "pq"])), ops=list(hist), exhaustive=4)
    else:
        for _ in range(1000):
            d = r.choice([3, 3, 4])
            timed = r.random() < 0.5
            hist = [r.choice(full) for _ in range(d)]
            if not timed:
                hist = [o for o in hist if o["op"] != "crop"]
            b = grid_base(r, timed, r.choice(["se3", "pq"]))
            if b["ctor"] == "se3" and r.random() < 0.3:
                b = with_shared(r, b)
            yield dict(b, ops=hist, sampled=d)
    # long exact-grid trajectories: propagation, reduction, cropping … on up to 200 poses with small exact numbers
    for _ in range(150 if ctx.thorough else 25):
        n = r.choice([10, 50, 120, 200]) if ctx.thorough else r.choice([10, 40, 80])
        timed = r.random() < 0.6
        hist = [r.choice(full) for _ in range(r.randint(1, 12 if ctx.thorough else 8))]
        if not timed:
            hist = [o for o in hist if o["op"] != "crop"]
        # at most two Sim(3) propagations (each doubles the scale along the path)
        # and no propagation after an operation whose parameters are inexact floats (Umeyama result, projected
        # rotations) on long trajectories: the exact rationals of a propagated chain grow with the pose index
        seen, dirty, after = 0, False, 0
        for i, o in enumerate(hist):
            if o["op"] in ("al", "pj"):
                dirty = True
            if o["op"] == "tf" and o["mode"] == "P":
                after += 1 if dirty else 0
                if dirty and (n > 12 or after > 1):
                    hist[i] = full[1]
                elif o["T"] == full[5]["T"]:
                    seen += 1
                    if seen > 1 or n > 60:
                        hist[i] = full[2]
        yield dict(grid_base(r, timed, r.choice(["se3", "pq"]), n=n), ops=hist, stream="long-grid")
    n_rand = 700 if ctx.thorough else 300 if ctx.extended else 120
    maxn = 200 if ctx.thorough else 60
    for _ in range(n_rand):
        b, n = rand_base(r, maxn)
        if b["ctor"] == "se3" and r.random() < 0.2:
            b = with_shared(r, b)
        yield dict(b, ops=rand_ops(r, n, b["stamps"] is not None, r.randint(1, 15)))


# ----------------------------------------------------------------------------- the real code
def build(case):
    from evo.core.trajectory import PosePath3D, PoseTrajectory3D
    kw = {}
    if case["ctor"] == "se3":
        if case.get("share"):
            # slots i with the same share[i] hold the *same* ndarray object (e.g. `[P] * n`)
            objs = {}
            kw["poses_se3"] = [objs.setdefault(j, np.array(case["poses"][j], dtype=float).reshape(4, 4)) for j in case["share"]]
        else:
            kw["poses_se3"] = [np.array(p, dtype=float).reshape(4, 4) for p in case["poses"]]
    else:
        kw["positions_xyz"] = np.array(case["xyz"], dtype=float)
        kw["orientations_quat_wxyz"] = np.array(case["quat"], dtype=float)
    if case["stamps"] is not None:
        return PoseTrajectory3D(timestamps=np.array(case["stamps"], dtype=float), **kw)
    return PosePath3D(**kw)


def snapshot(obj):
    """all public views, read from a deep copy (the object under test is left as it is)"""
    c = copy.deepcopy(obj)
    s = {"num": int(c.num_poses)}
    s["pos"] = np.array(c.positions_xyz, dtype=float).reshape(-1, 3).copy()
    s["quat"] = np.array(c.orientations_quat_wxyz, dtype=float).reshape(-1, 4).copy()
    s["se3"] = [np.array(p, dtype=float).copy() for p in c.poses_se3]
    s["stamps"] = np.array(c.timestamps, dtype=float).copy() if hasattr(c, "timestamps") else None
    try:
        s["check"] = bool(c.check()[0])
    except Exception as e:  # noqa: BLE001
        s["check"] = "EXC:" + type(e).__name__
    try:
        s["path_length"] = float(c.path_length)
        s["distances"] = np.array(c.distances, dtype=float).copy()
    except Exception as e:  # noqa: BLE001
        s["path_length"] = "EXC:" + type(e).__name__
    if s["stamps"] is not None:
        try:
            s["speeds"] = np.array(c.speeds, dtype=float).copy()
        except Exception as e:  # noqa: BLE001
            s["speeds"] = "EXC:" + type(e).__name__
        try:
            s["duration"] = float(c.get_infos()["duration (s)"]) if s["num"] > 0 else None
        except Exception as e:  # noqa: BLE001
            s["duration"] = "EXC:" + type(e).__name__
    s["bits"] = ("p" if hasattr(obj, "_positions_xyz") else "-") + ("q" if hasattr(obj, "_orientations_quat_wxyz") else "-") \
        + ("m" if hasattr(obj, "_poses_se3") else "-") + ("P" if obj._projected else "-")
    return s


def pose_toks(m):
    m = np.asarray(m, dtype=float)
    return " ".join(rat(m[i, j]) for i in range(3) for j in range(4))


def rot_toks(m):
    m = np.asarray(m, dtype=float)
    return " ".join(rat(m[i, j]) for i in range(3) for j in range(3))


def icbrt(n):
    """exact integer cube root or None"""
    if n < 0:
        return None
    x = round(n ** (1.0 / 3.0)) if n < 2 ** 150 else int(round(math.exp(math.log(n) / 3.0)))
    for c in (x - 1, x, x + 1):
        if c >= 0 and c ** 3 == n:
            return c
    return None


def norm_tok(T):
    """parameter `norm` of the model's transform: `-` when evo takes T for SE(3); otherwise the scale of T — the exact
    cube root of det(T[:3,:3]) when that is rational (exact-grid stream), else evo's own float sim3_scale(T)"""
    from evo.core import lie_algebra as lie
    if lie.is_se3(T):
        return "-"
    a = [[frac(float(T[i, j])) for j in range(3)] for i in range(3)]
    det = (a[0][0] * (a[1][1] * a[2][2] - a[1][2] * a[2][1]) - a[0][1] * (a[1][0] * a[2][2] - a[1][2] * a[2][0])
           + a[0][2] * (a[1][0] * a[2][1] - a[1][1] * a[2][0]))
    cn, cd = icbrt(det.numerator), icbrt(det.denominator)
    if cn is not None and cd is not None and cn > 0:
        return rat(Fraction(cn, cd))
    return rat(float(lie.sim3_scale(T)))


def make_ref(op, cur_pos):
    """reference positions for align: a similarity image of the current positions plus noise (deterministic)"""
    from evo.core.trajectory import PosePath3D
    rr = random.Random(op["ref_seed"])
    n = len(cur_pos)
    if op.get("grid"):
        rot, s, t, noise = grid_rots()[op["ref_seed"] % 24], 2.0, np.array([1.0, -3.0, 0.5]), 0.0
    else:
        rot, s = rot_of_quat(rand_quat(rr)), rr.choice([1.0, 0.5, 3.0])
        t, noise = np.array([rr.uniform(-10, 10) for _ in range(3)]), rr.choice([0.0, 1e-3, 0.1])
    pts = np.array([s * rot.dot(p) + t + np.array([rr.gauss(0, 1) * noise for _ in range(3)]) for p in cur_pos]).reshape(-1, 3)
    quat = np.tile(np.array([1.0, 0, 0, 0]), (n, 1))
    return PosePath3D(positions_xyz=pts, orientations_quat_wxyz=quat)


def run_impl(case):
    """apply the history to the real object; returns per step: model tokens, what evo returned, snapshot"""
    from evo.core import lie_algebra as lie
    from evo.core import filters, geometry
    from evo.core.trajectory import Plane, TrajectoryException
    obj = build(case)
    snaps = [snapshot(obj)]
    steps = []
    for op in case["ops"]:
        prev = snaps[-1]
        n = prev["num"]
        tok, out, ignore, info = None, "U", False, {}
        try:
            k = op["op"]
            if n == 0 and (k not in ("rd", "chk", "cp", "red", "sc", "ds") or (k == "rd" and op["v"] == "dist")):
                # an empty trajectory (after `reduce_to_ids([])`) is outside the property's range (1..200 poses) and most
                # methods of evo raise numpy errors on it: only reads, copies, scaling and further reductions are exercised
                info["skipped_on_empty"] = True
            elif k == "tf":
                T = np.array(op["T"], dtype=float).reshape(4, 4)
                tok = f"tf {op['mode']} {pose_toks(T)} {norm_tok(T)}"
                # (`lp`: a left multiplication with the propagate flag given — evo_traj passes its --propagate_transform flag
                # for both sides; propagation only exists for right multiplication, so this is still T*P for every pose)
                obj.transform(T, right_mul=op["mode"] in "RP", propagate=op["mode"] == "P" or (op["mode"] == "L" and bool(op.get("lp"))))
            elif k == "sc":
                tok = f"sc {rat(op['s'])}"
                obj.scale(op["s"])
            elif k == "red":
                ids = red_ids(op, n)
                info["ids"] = ids
                if any(i < 0 for i in ids) or any(i >= n for i in ids):
                    tok = f"redi {len(ids)} " + " ".join(str(i) for i in ids)     # signed indices: normalised by the model (normIds)
                    tok = tok.strip()
                else:
                    tok = f"red {core.natlist(ids)}"
                try:
                    obj.reduce_to_ids(ids)
                except IndexError:
                    out = "E_TRAJ"      # the model's refusal; numpy's IndexError on the real object
            elif k == "ds":
                N = op["n"]
                ids = [int(i) for i in np.linspace(0, n - 1, N, dtype=int)] if (n > N >= 1) else []
                info["ids"] = ids
                tok = f"ds {N} {core.natlist(ids)}"
                obj.downsample(N)
            elif k == "mf":
                # the angle threshold in radians (default) or, as evo's command lines pass it, in degrees (`deg`): the same
                # poses must be kept; the expected ids come from the filter function itself on a copy
                deg = bool(op.get("deg"))
                a_arg = float(np.rad2deg(op["a"])) if deg else op["a"]
                try:
                    ids = [int(i) for i in filters.filter_by_motion(copy.deepcopy(obj).poses_se3, op["d"], a_arg, deg)]
                    tok = f"mf {core.natlist(ids)}"
                    info["ids"] = ids
                except filters.FilterException:
                    tok, ignore = "rd se3", True      # poses_se3 is evaluated (and cached) before the filter refuses
                try:
                    if deg:
                        obj.motion_filter(op["d"], a_arg, True)
                    else:
                        obj.motion_filter(op["d"], op["a"])
                except filters.FilterException:
                    out = "E_FILTER"
            elif k == "crop" and prev["stamps"] is None:
                info["skipped_untimed"] = True        # a path without timestamps has no time range to crop: not an operation on it
            elif k == "crop":
                st = prev["stamps"]
                lo, hi = float(st[int(op["lo"] * n)]), float(st[int(op["hi"] * n)])
                lo, hi = min(lo, hi), max(lo, hi)      # stamps may have been permuted by an earlier reduce
                ids = [int(i) for i in np.where(np.logical_and(st >= lo, st <= hi))[0]]
                info.update(ids=ids, lo=lo, hi=hi)
                tok = f"crop {core.natlist(ids)}"
                obj.reduce_to_time_range(lo, hi)
            elif k == "al":
                ref = make_ref(op, prev["pos"])
                info["ref"] = ref.positions_xyz.copy()
                kw = {"correct_scale": op["mode"] == "s", "correct_only_scale": op["mode"] == "o", "n": op["n"]}
                try:
                    r_a, t_a, c = obj.align(ref, **kw)
                    T = lie.se3(r_a, t_a)
                    info.update(r=np.array(r_a), t=np.array(t_a), c=float(c))
                    tok = f"al {op['mode']} {rot_toks(r_a)} {' '.join(rat(v) for v in t_a)} {rat(float(c))} {norm_tok(T)}"
                except geometry.GeometryException:
                    tok, ignore, out = "rd pos", True, "E_GEOMETRY"   # positions_xyz was read before Umeyama refused
            elif k == "ao":
                from evo.core.trajectory import PosePath3D
                R = np.array(op["ref"], dtype=float).reshape(4, 4)
                ref = PosePath3D(poses_se3=[R.copy()])
                T = obj.align_origin(ref)
                info["T"] = np.array(T)
                tok = f"ao {pose_toks(R)} {norm_tok(T)}"
            elif k == "pj":
                nd = PLANES[op["plane"]]
                cc = copy.deepcopy(obj)
                try:
                    cc.project(Plane(op["plane"]))
                    rots = [p[:3, :3] for p in cc.poses_se3]
                except TrajectoryException:
                    rots = []
                tok = f"pj {nd} {len(rots)} " + " ".join(rot_toks(m) for m in rots)
                tok = tok.strip()
                try:
                    obj.project(Plane(op["plane"]))
                except TrajectoryException:
                    out = "E_TRAJ"
            elif k == "cp":
                tok = "cp"
                new = copy.deepcopy(obj)
                info["same_object"] = new is obj
                if op.get("side"):
                    # the copy is modified in place (projection writes into the pose matrices) and dropped; the history goes
                    # on with the ORIGINAL, which must show what it showed before (copies are independent)
                    try:
                        new.project(Plane.XY)
                        new.transform(np.array([[0.0, -1.0, 0.0, 1.0], [1.0, 0.0, 0.0, 2.0], [0.0, 0.0, 1.0, 3.0], [0.0, 0.0, 0.0, 1.0]]))
                    except Exception:  # noqa: BLE001  (a second projection of a projected copy is refused)
                        pass
                else:
                    obj = new
            elif k == "rd":
                v = op["v"]
                tok = f"rd {v}"
                if v == "pos":
                    out = np.array(obj.positions_xyz, dtype=float).copy()
                elif v == "quat":
                    out = np.array(obj.orientations_quat_wxyz, dtype=float).copy()
                elif v == "se3":
                    out = [np.array(p, dtype=float).copy() for p in obj.poses_se3]
                elif v == "stamps":
                    out = np.array(obj.timestamps, dtype=float).copy() if hasattr(obj, "timestamps") else None
                elif v == "num":
                    out = int(obj.num_poses)
                elif v == "dist":
                    out = np.array(obj.distances, dtype=float).copy()
            elif k == "chk":
                tok = "chk"
                out = bool(obj.check()[0])
        except TrajectoryException:
            out = "E_TRAJ"
        except Exception as e:  # noqa: BLE001
            out = "EXC:" + type(e).__name__ + ":" + str(e)[:80]
        if tok is None:
            tok, ignore = "cp", True
        snaps.append(snapshot(obj))
        steps.append({"tok": tok, "out": out, "ignore": ignore, "info": info})
    return {"steps": steps, "snaps": snaps}


def init_toks(case):
    if case["ctor"] == "se3":
        ps = [np.array(p, dtype=float).reshape(4, 4) for p in case["poses"]]
        s = f"se3 {len(ps)} " + " ".join(pose_toks(p) for p in ps)
    else:
        s = f"pq {len(case['xyz'])} " + " ".join(
            " ".join(rat(v) for v in list(x) + list(q)) for x, q in zip(case["xyz"], case["quat"]))
    s = s.strip()
    st = case["stamps"]
    return s + (" N" if st is None else " T " + core.ratlist(st))


def model_line(case, impl):
    return f"C08 run {init_toks(case)} {len(impl['steps'])} " + " ".join(s["tok"] for s in impl["steps"])


# ----------------------------------------------------------------------------- judging
def parse_out(s):
    t = s.split()
    k = t[0]
    if k in ("U", "E_TRAJ"):
        return k
    if k == "N":
        return int(t[1])
    if k == "S":
        return None if t[1] == "-" else [core.parse_rat(x) for x in t[2:]]
    if k == "C":
        return {"len": t[1] == "1", "rigid": t[2] == "1", "resid": core.parse_rat(t[3]), "stamps": t[4] == "1"}
    vals = [core.parse_rat(x) for x in t[2:]]
    w = {"V": 3, "R": 9, "M": 12, "Q": 1}[k]
    n = int(t[1])
    assert len(vals) == n * w
    return (k, [vals[i * w:(i + 1) * w] for i in range(n)])


def maxdiff(a, b):
    """largest |a-b| between a list of rational rows and a float array of the same shape"""
    d = 0.0
    for ra, rb in zip(a, b):
        for x, y in zip(ra, rb):
            d = max(d, abs(float(x - frac(float(y)))))
    return d


class Tol:
    """float slack of a history.  Rotations: grows with the number of steps and of poses (propagation accumulates along
    the path).  Positions: an absolute error bound carried through the history — every step adds a few ulps of the largest
    coordinate involved and multiplies what is already there by the amplification of the operation (scale factors > 1;
    a Sim(3) propagation multiplies by the scale once per pose)"""
    def __init__(self, n):
        self.n, self.k, self.mag, self.err, self.last, self.rerr = n, 0, 1.0, 0.0, 1.0, 8 * U

    def see(self, snap, op=None):
        self.k += 1
        ratio = 1.0
        if len(snap["pos"]):
            m = float(np.max(np.abs(snap["pos"])))
            if math.isfinite(m):
                self.mag = max(self.mag, m)
                ratio, self.last = max(1.0, m / self.last), max(m, 1e-300)
        amp = 1.0
        if op and "T" in op:
            self.mag = max(self.mag, max(abs(v) for v in op["T"]))
            T = np.array(op["T"], dtype=float).reshape(4, 4)
            sc = abs(float(np.linalg.det(T[:3, :3]))) ** (1.0 / 3.0)
            amp = max(1.0, sc) ** (self.n if op["mode"] == "P" else 1)
        if op and "ref" in op:
            self.mag = max(self.mag, max(abs(v) for v in op["ref"]))
        if op and op["op"] == "sc":
            amp = max(1.0, abs(op["s"]))
        if op and op["op"] == "al":
            amp = 4.0 * ratio      # scale correction multiplies the positions (and their error) by c
        # rotations: a few ulps per step; a propagation chains n products, so whatever deviation from orthonormality is
        # already there (and the new rounding) accumulates along the path — repeated propagation compounds it
        prop = bool(op) and op["op"] == "tf" and op["mode"] == "P"
        self.rerr = 2 * (self.n + 1) * (self.rerr + 8 * U) if prop else self.rerr + 8 * U
        self.err = amp * (self.err + 32 * U * (self.n + 1) * self.mag) + 2 * self.rerr * self.mag * ((self.n + 1) if prop else 1)

    def rot(self):
        return self.rerr + 8 * U * (self.k + 1)

    def pos(self):
        return self.err


def cmp_read(kind, impl, model, tol):
    """None if equal within the slack, else a description"""
    if isinstance(model, str) or isinstance(impl, str):
        return None if impl == model else f"{impl!r} vs {model!r}"
    if kind == "num":
        return None if impl == model else f"{impl} vs {model}"
    if kind == "stamps":
        if impl is None or model is None:
            return None if (impl is None) == (model is None) else "stamps presence differs"
        if len(impl) != len(model) or any(frac(float(a)) != b for a, b in zip(impl, model)):
            return "timestamps differ"
        return None
    tag, rows = model
    if kind != "dist" and len(rows) != len(impl):
        return f"length {len(impl)} vs {len(rows)}"
    if kind == "pos":
        d = maxdiff(rows, impl)
        return None if d <= tol.pos() else f"positions differ by {d:.3e} (slack {tol.pos():.1e})"
    if kind == "quat":
        worst = 0.0
        for q, row in zip(impl, rows):
            nq = float(np.dot(q, q))
            if not (abs(nq - 1.0) < 1e-9):
                return f"quaternion of norm² {nq}"
            rq = quat_to_rot_f(q)
            worst = max(worst, max(abs(float(rq[i][j] - row[3 * i + j])) for i in range(3) for j in range(3)))
        return None if worst <= tol.rot() + 1e-13 else f"R(quaternion) differs from the model rotation by {worst:.3e}"
    if kind == "se3":
        dr = dp = 0.0
        for m, row in zip(impl, rows):
            if not np.array_equal(m[3, :], [0.0, 0.0, 0.0, 1.0]):
                return "bottom row"
            for i in range(3):
                for j in range(4):
                    d = abs(float(row[4 * i + j] - frac(float(m[i, j]))))
                    if j < 3:
                        dr = max(dr, d)
                    else:
                        dp = max(dp, d)
        if dr > tol.rot() or dp > tol.pos():
            return f"matrices differ: rotation {dr:.3e} (slack {tol.rot():.1e}), translation {dp:.3e} (slack {tol.pos():.1e})"
        return None
    if kind == "dist":
        # model: squared step lengths; evo: accumulated distances
        acc, exp = 0.0, [0.0]
        for (sq,) in rows:
            acc += math.sqrt(float(sq))
            exp.append(acc)
        if len(exp) != len(impl):
            return f"distances length {len(impl)} vs {len(exp)}"
        d = max([abs(a - b) for a, b in zip(exp, impl)] + [0.0])
        return None if d <= tol.pos() * max(1, len(exp)) else f"accumulated distances differ by {d:.3e}"
    return "unknown view"


def expected_check(chk, tol):
    """evo's check() verdict implied by the model's exact data; None = too close to evo's tolerance to call"""
    if not (chk["len"] and chk["stamps"]):
        return False
    r = float(chk["resid"])
    if r < 1e-7:
        return True
    if r > 1e-4:
        return False
    return None


def rigid_resid(m):
    r = m[:3, :3]
    return max(float(np.max(np.abs(r.T.dot(r) - np.eye(3)))), abs(float(np.linalg.det(r)) - 1.0))


def oracle(ctx, case, impl):
    """the property sentence, evaluated on evo's own observable state (deep-copy snapshots), without the model"""
    snaps, steps = impl["snaps"], impl["steps"]
    timed = case["stamps"] is not None
    n0 = snaps[0]["num"]
    tol = Tol(n0)
    projected = False
    for k, s in enumerate(snaps):
        op = case["ops"][k - 1] if k > 0 else None
        tol.see(s, op)
        tr, tp = tol.rot() + 1e-13, tol.pos()
        tags = {"op": op["op"] if op else "init", "step": k}
        # ---- all views describe the same poses, same count
        n = s["num"]
        if not (len(s["pos"]) == len(s["quat"]) == len(s["se3"]) == n and (s["stamps"] is None or len(s["stamps"]) == n)):
            ctx.fail(case, "same-count", f"step {k}: num={n} pos={len(s['pos'])} quat={len(s['quat'])} se3={len(s['se3'])} "
                     f"stamps={None if s['stamps'] is None else len(s['stamps'])}", tags)
            return
        if timed != (s["stamps"] is not None):
            ctx.fail(case, "same-count", f"step {k}: timestamps appeared/disappeared", tags)
            return
        for i in range(n):
            m = s["se3"][i]
            if float(np.max(np.abs(m[:3, 3] - s["pos"][i]))) > tp:
                ctx.fail(case, "views-consistent", f"step {k}: positions_xyz[{i}]={s['pos'][i].tolist()} but poses_se3[{i}] has "
                         f"{m[:3, 3].tolist()}", tags)
                return
            rq = np.array([[float(v) for v in row] for row in quat_to_rot_f(s["quat"][i])])
            if abs(float(np.dot(s["quat"][i], s["quat"][i])) - 1.0) > 1e-9:
                ctx.fail(case, "unit-quaternion", f"step {k}: quaternion {i} has norm² {float(np.dot(s['quat'][i], s['quat'][i]))}", tags)
                return
            if float(np.max(np.abs(rq - m[:3, :3]))) > max(tr, 1e-9 * 0 + tr) and rigid_resid(m) < 1e-6:
                ctx.fail(case, "views-consistent", f"step {k}: orientations_quat_wxyz[{i}] encodes a rotation differing from "
                         f"poses_se3[{i}] by {float(np.max(np.abs(rq - m[:3, :3]))):.3e}", tags)
                return
            if rigid_resid(m) > 1e-6 or not np.array_equal(m[3, :], [0.0, 0.0, 0.0, 1.0]):
                ctx.fail(case, "poses-valid", f"step {k}: poses_se3[{i}] is not a rigid-body pose (residual {rigid_resid(m):.3e})", tags)
                return
        asc = s["stamps"] is None or bool(np.all(np.diff(s["stamps"]) > 0))
        if s["check"] is not True and asc:
            ctx.fail(case, "poses-valid", f"step {k}: evo's check() returned {s['check']}", tags)
            return
        # ---- derived quantities follow from the views
        if n >= 1 and not isinstance(s["path_length"], str):
            seg = [math.sqrt(sum((float(a) - float(b)) ** 2 for a, b in zip(s["pos"][i], s["pos"][i + 1]))) for i in range(n - 1)]
            acc = [0.0]
            for v in seg:
                acc.append(acc[-1] + v)
            slack = tp * max(1, n)
            if abs(s["path_length"] - acc[-1]) > slack:
                ctx.fail(case, "derived-quantities", f"step {k}: path_length {s['path_length']} vs {acc[-1]} from positions", tags)
                return
            if len(s["distances"]) != n or max(abs(a - b) for a, b in zip(acc, s["distances"])) > slack:
                ctx.fail(case, "derived-quantities", f"step {k}: accumulated distances do not follow from positions", tags)
                return
            if timed and n >= 2 and asc:
                if isinstance(s["speeds"], str) or len(s["speeds"]) != n - 1:
                    ctx.fail(case, "derived-quantities", f"step {k}: speeds = {s['speeds']!r}", tags)
                    return
                for i in range(n - 1):
                    dt = float(s["stamps"][i + 1]) - float(s["stamps"][i])
                    if abs(s["speeds"][i] - seg[i] / dt) > (tp / dt) * 4 + 1e-12 * abs(seg[i] / dt):
                        ctx.fail(case, "derived-quantities", f"step {k}: speed {i} = {s['speeds'][i]} vs {seg[i] / dt}", tags)
                        return
                if s["duration"] != float(s["stamps"][-1]) - float(s["stamps"][0]):
                    ctx.fail(case, "derived-quantities", f"step {k}: duration {s['duration']}", tags)
                    return
        if k == 0:
            continue
        # ---- documented effect of the step, relative to the previous snapshot
        p, st = snaps[k - 1], steps[k - 1]
        msg = effect(op, st, p, s, tr, tp, projected)
        if op["op"] == "pj" and st["out"] == "U":
            projected = True
        if msg:
            ctx.fail(case, "effect-" + op["op"] + ("-" + op["mode"] if "mode" in op and op["op"] == "tf" else ""),
                     f"step {k} {describe(op)}: {msg}", tags)
            return


def describe(op):
    return op["op"] + "".join(f" {a}={op[a]}" for a in ("mode", "v", "s", "n", "plane") if a in op)


def same_views(p, s):
    return (p["num"] == s["num"] and np.array_equal(p["pos"], s["pos"]) and np.array_equal(p["quat"], s["quat"])
            and all(np.array_equal(a, b) for a, b in zip(p["se3"], s["se3"]))
            and ((p["stamps"] is None and s["stamps"] is None) or np.array_equal(p["stamps"], s["stamps"])))


def close_poses(exp, got, tr, tp):
    if len(exp) != len(got):
        return f"{len(got)} poses, expected {len(exp)}"
    for i, (a, b) in enumerate(zip(exp, got)):
        dr = float(np.max(np.abs(a[:3, :3] - b[:3, :3])))
        dp = float(np.max(np.abs(a[:3, 3] - b[:3, 3])))
        if dr > tr or dp > tp:
            return f"pose {i}: rotation off by {dr:.3e}, position off by {dp:.3e}"
    return None


def split_sim3(T):
    """(R, t, s) of a similarity matrix, computed here (cube root of the determinant)"""
    a = T[:3, :3]
    det = float(np.linalg.det(a))
    s = math.copysign(abs(det) ** (1.0 / 3.0), det)
    return a / s, T[:3, 3], s


def effect(op, st, p, s, tr, tp, projected):
    k = op["op"]
    if st["info"].get("skipped_on_empty") or st["info"].get("skipped_untimed"):
        return None
    unchanged_stamps = (p["stamps"] is None and s["stamps"] is None) or np.array_equal(p["stamps"], s["stamps"])
    if k in ("rd", "chk", "cp"):
        if not same_views(p, s):
            return "a read / check / copy changed what the object shows"
        if k == "cp" and st["info"].get("same_object"):
            return "deepcopy returned the same object"
        return None
    if isinstance(st["out"], str) and st["out"].startswith("E_"):
        if not same_views(p, s):
            return f"operation refused with {st['out']} but the object changed"
        if k == "pj" and not projected:
            return "first projection refused"
        return None
    if isinstance(st["out"], str) and st["out"].startswith("EXC"):
        return f"unexpected exception {st['out']}"
    if k == "pj" and projected:
        return "second projection was not refused"
    if k in ("tf", "sc", "al", "ao", "pj") and not unchanged_stamps:
        return "timestamps changed"
    P = p["se3"]
    if k == "tf":
        T = np.array(op["T"], dtype=float).reshape(4, 4)
        R, t, sc = split_sim3(T)
        rigidT = abs(sc - 1.0) < 1e-9
        if op["mode"] == "L":
            exp = [mat4(R.dot(a[:3, :3]), sc * R.dot(a[:3, 3]) + t) for a in P]      # s·R·p + t, orientation R·Rp
            return close_poses(exp, s["se3"], tr, tp * max(1.0, sc))
        if op["mode"] == "R":
            exp = [mat4(a[:3, :3].dot(R), a[:3, :3].dot(t) + a[:3, 3]) for a in P]  # P·T (rotation block unscaled)
            return close_poses(exp, s["se3"], tr, tp)
        # propagation
        if len(s["se3"]) != len(P):
            return "pose count changed"
        if len(P) and close_poses([P[0]], [s["se3"][0]], tr, tp):
            return "first pose not kept"
        if rigidT:
            for i in range(len(P) - 1):
                d_old = np.linalg.inv(P[i]).dot(P[i + 1]).dot(T)
                d_new = np.linalg.inv(s["se3"][i]).dot(s["se3"][i + 1])
                m = close_poses([d_old], [d_new], tr * 4, tp * 4)
                if m:
                    return f"relative motion {i}->{i + 1} is not D·T: {m}"
        return None
    if k == "sc":
        exp = [mat4(a[:3, :3], op["s"] * a[:3, 3]) for a in P]
        return close_poses(exp, s["se3"], tr, tp * max(1.0, abs(op["s"])))
    if k in ("red", "ds", "mf", "crop"):
        n = p["num"]
        if k == "ds":
            N = op["n"]
            if n <= N:
                return None if same_views(p, s) else "downsample to >= num_poses changed the object"
            if s["num"] != N:
                return f"downsample({N}) left {s['num']} poses"
        if k == "crop":
            lo, hi = st["info"]["lo"], st["info"]["hi"]
            want = [i for i in range(n) if lo <= float(p["stamps"][i]) <= hi]
            if want != st["info"]["ids"]:
                return "crop ids (harness) inconsistent"
        ids = st["info"].get("ids")
        if ids is None:
            return "no ids"
        if any(i < -n or i >= n for i in ids):
            return f"an index outside [-{n}, {n}) was not refused"
        if k == "mf" and (not ids or ids[0] != 0):
            return "motion filter dropped the first pose"
        if s["num"] != len(ids):
            return f"{s['num']} poses left, {len(ids)} selected"
        for a, i in enumerate(ids):
            if not (np.array_equal(s["pos"][a], p["pos"][i]) and np.array_equal(s["se3"][a], p["se3"][i])
                    and (s["stamps"] is None or s["stamps"][a] == p["stamps"][i])
                    and float(np.max(np.abs(rot_of_quat(s["quat"][a]) - rot_of_quat(p["quat"][i])))) <= tr):
                return f"pose {a} of the result is not pose {i} of the original"
        return None
    if k == "al":
        r, t, c = st["info"]["r"], st["info"]["t"], st["info"]["c"]
        if rigid_resid(mat4(r, t)) > 1e-6:
            return "alignment rotation not proper"
        if op["mode"] == "o":
            exp = [mat4(a[:3, :3], c * a[:3, 3]) for a in P]
        else:
            cc = c if op["mode"] == "s" else 1.0
            if op["mode"] == "r" and c != 1.0:
                return "scale returned without scale correction"
            exp = [mat4(r.dot(a[:3, :3]), cc * r.dot(a[:3, 3]) + t) for a in P]
        return close_poses(exp, s["se3"], tr * 4, tp * 4 * max(1.0, abs(c)))
    if k == "ao":
        R = np.array(op["ref"], dtype=float).reshape(4, 4)
        if len(P) == 0:
            return None
        m = close_poses([R], [s["se3"][0]], tr * 4, tp * 4)
        if m:
            return "first pose is not the reference origin: " + m
        for i in range(1, len(P)):
            m = close_poses([np.linalg.inv(P[0]).dot(P[i])], [np.linalg.inv(s["se3"][0]).dot(s["se3"][i])], tr * 8, tp * 8)
            if m:
                return f"relative pose 0->{i} changed: {m}"
        return None
    if k == "pj":
        nd = PLANES[op["plane"]]
        keep = [i for i in range(3) if i != nd]
        if s["num"] != p["num"]:
            return "pose count changed"
        for i in range(p["num"]):
            if s["pos"][i][nd] != 0.0 or any(s["pos"][i][j] != p["pos"][i][j] for j in keep):
                return f"position {i} is not the in-plane part of the original"
            rr = s["se3"][i][:3, :3]
            if abs(rr[nd, nd] - 1.0) > tr or any(abs(rr[nd, j]) > tr or abs(rr[j, nd]) > tr for j in keep):
                return f"orientation {i} is not a rotation about the plane normal"
        return None
    return None


def judge(ctx, case, impl, out_line):
    steps, snaps = impl["steps"], impl["snaps"]
    if out_line == "BAD-OP":
        ctx.mismatch(case, "driver rejected the request")
        return
    parts = out_line.split(" | ") if steps else []
    if len(parts) != len(steps):
        ctx.mismatch(case, f"driver returned {len(parts)} steps for {len(steps)}")
        return
    tol = Tol(snaps[0]["num"])
    tol.see(snaps[0])
    stale_probe, filled = False, set()
    for k, (st, part) in enumerate(zip(steps, parts)):
        op = case["ops"][k]
        snap = snaps[k + 1]
        tol.see(snap, op)
        o, peek = part.split(" ; ")
        mo = parse_out(o)
        pk = peek.split()
        m_num, m_chk, m_bits = int(pk[0]), parse_out(" ".join(pk[1:6])), pk[6]
        where = f"step {k + 1} ({describe(op)})"
        if not st["ignore"]:
            io = st["out"]
            if op["op"] == "rd":
                d = cmp_read(op["v"], io, mo, tol)
                if d:
                    ctx.mismatch(case, f"{where}: read differs from the cache machine: {d}")
                    return
                if op["v"] in ("pos", "quat", "se3"):
                    if filled - {op["v"]} and any(o2["op"] in ("tf", "sc", "red", "ds", "mf", "crop", "al", "ao", "pj")
                                                  for o2 in case["ops"][:k]):
                        stale_probe = True
                    filled.add(op["v"])
            elif op["op"] == "chk":
                e = expected_check(mo, tol) if isinstance(mo, dict) else None
                if e is not None and io != e:
                    ctx.mismatch(case, f"{where}: check() = {io}, cache machine implies {e}")
                    return
            else:
                mm = "U" if mo == "U" else mo
                ii = io if isinstance(io, str) else "U"
                if ii in ("E_FILTER", "E_GEOMETRY"):
                    ii = "U"
                if ii != mm:
                    ctx.mismatch(case, f"{where}: evo -> {ii}, cache machine -> {mm}")
                    return
        if snap["num"] != m_num:
            ctx.mismatch(case, f"{where}: num_poses {snap['num']} vs cache machine {m_num}")
            return
        e = expected_check(m_chk, tol)
        if e is not None and snap["check"] != e:
            ctx.mismatch(case, f"{where}: check() on a copy = {snap['check']}, cache machine implies {e}")
            return
        ctx.count("dist", "cache-bits-" + ("agree" if snap["bits"] == m_bits else "differ"))
        ctx.count("branch", op["op"] + (":" + op["mode"] if op["op"] in ("tf", "al") else "") +
                  (":sim3" if op["op"] == "tf" and not st["tok"].endswith(" -") else "") +
                  (":" + op["v"] if op["op"] == "rd" else "") +
                  (":refused" if isinstance(st["out"], str) and st["out"].startswith("E_") else ""))
    ctx.count("dist", f"{case['kind']}:{case['ctor']}:{'timed' if case['stamps'] is not None else 'path'}")
    ctx.count("dist", "len-%d" % min(len(steps), 15))
    if stale_probe:
        ctx.count("branch", "stale-cache-probe(cache filled, mutation, other view read)")
    mutating = any(o["op"] in ("tf", "sc", "red", "ds", "mf", "crop", "al", "ao", "pj") for o in case["ops"])
    if case.get("share"):
        ctx.count("dist", "pose-list-shares-matrix-objects")
    for o in case["ops"]:
        if o["op"] == "red" and "how" in o:
            ctx.count("branch", "red:" + o["how"])
    ctx.record({k: case[k] for k in case if k not in ("corpus", "exhaustive", "sampled", "stream")}, mutating)


def evaluate(ctx, cases):
    B = 400
    for i in range(0, len(cases), B):
        chunk = cases[i:i + B]
        # an exception of the harness on one case (evo in a state the bookkeeping does not expect, e.g. an index list
        # that should have been refused) is a finding about that case, never a tool error of the whole run
        impls = []
        for c in chunk:
            try:
                impls.append(run_impl(c))
            except Exception as e:  # noqa: BLE001
                impls.append(None)
                ctx.fail(case_of(c), "object-unusable", f"applying the history / reading the views raised {type(e).__name__}: {str(e)[:120]}",
                         {"op": "history"})
        idx, lines = [], []
        for j, im in enumerate(impls):
            if im is None or not im["steps"]:
                continue
            try:
                lines.append(model_line(chunk[j], im))
                idx.append(j)
            except Exception as e:  # noqa: BLE001
                ctx.mismatch(case_of(chunk[j]), f"the history could not be encoded for the model: {type(e).__name__}: {str(e)[:120]}")
        outs = core.run_driver(lines, prop="C08") if lines else []
        om = dict(zip(idx, outs))
        for j, c in enumerate(chunk):
            if impls[j] is None:
                continue
            try:
                oracle(ctx, c, impls[j])
            except Exception as e:  # noqa: BLE001
                ctx.fail(case_of(c), "oracle-exception", f"evaluating the property on evo's output raised {type(e).__name__}: "
                         f"{str(e)[:120]} (evo is in a state the documented effects do not allow)", {"op": "oracle"})
            try:
                if impls[j]["steps"] and j in om:
                    judge(ctx, c, impls[j], om[j])
                elif not impls[j]["steps"]:
                    judge(ctx, c, impls[j], "")
            except Exception as e:  # noqa: BLE001
                ctx.mismatch(case_of(c), f"comparison with the cache machine raised {type(e).__name__}: {str(e)[:120]}")


def case_of(c):
    return {k: c[k] for k in c if k not in ("corpus", "exhaustive", "sampled", "stream")}


def shrink(case):
    ops = case["ops"]
    for i in range(len(ops)):
        yield dict(case, ops=ops[:i] + ops[i + 1:])
    key = "poses" if case["ctor"] == "se3" else "xyz"
    n = len(case[key])
    if case.get("share"):
        return
    for i in range(n):
        if n > 1:
            c = dict(case)
            c[key] = case[key][:i] + case[key][i + 1:]
            if case["ctor"] == "pq":
                c["quat"] = case["quat"][:i] + case["quat"][i + 1:]
            if case["stamps"] is not None:
                c["stamps"] = case["stamps"][:i] + case["stamps"][i + 1:]
            yield c


def check(ctx):
    lean = core.lean_side(ctx.prop, ctx.tier)
    core.drift(ctx, MODELLED)
    cases = list(gen_cases(ctx))
    evaluate(ctx, cases)
    core.shrink_all(ctx, shrink, evaluate, budget=120)
    return core.finish(
        ctx, lean, rule=RULE,
        open_clauses=[
            "quaternion extraction from a matrix (numpy eigh inside quaternion_from_matrix) is external: the quaternion cache is modelled "
            "by the rotation it encodes; every quaternion evo returns is checked (unit norm, R(q) = model rotation) per case",
            "Sim(3) normalisation divides by det^(1/3): the model takes the scale s as a parameter of the operation (harness passes "
            "evo's sim3_scale(T)); rigid_preserved is proved for T = sim3(R,t,s) with that s, the cube root itself is not modelled",
            "selected ids (downsample / motion filter / crop), the Umeyama triple and the projected rotations are parameters of the "
            "operation obtained from evo (properties C11, C03, C14)",
            "float rounding: reads are compared with the exact rational value within a carried error bound (rotations 8·2^-53 per step, times 2·(poses+1) per propagation; positions 32·2^-53·(poses+1)·largest coordinate added per step, amplified by scale factors)",
        ],
        assumptions=["constructor arguments are consistent (rigid matrices / unit quaternions, equal lengths, ascending stamps)",
                     "ids passed to reduce_to_ids are valid indices"])


def replay(ctx, data):
    core.sh("lake build drv_C08", cwd=core.LEAN)
    evaluate(ctx, [data["case"]])
    return core.finish_replay(ctx)
