"""C09 — Lie-group helpers (evo/core/lie_algebra.py).  Model: lean/EvoModel/Model/{Lin,Lie}.lean.

Correspondence: every function of lie_algebra.py against the exact rational model (driver drv_C09);
so3_exp/so3_log (scipy) through the Rodrigues certificate.  Oracle: the group laws evaluated in
exact rational arithmetic (fractions) on evo's outputs, independent of the model."""
import math
import numpy as np
import core
from core import Fraction, frac, rat

MODELLED = ["evo/core/lie_algebra.py:" + f for f in (
    "hat", "vee", "so3_exp", "so3_log", "so3_log_angle", "se3", "sim3", "so3_from_se3", "se3_inverse", "sim3_scale",
    "sim3_inverse", "is_so3", "is_se3", "is_sim3", "relative_so3", "relative_se3", "sst_rotation_from_matrix")]

U = Fraction(64, 2 ** 53)            # numeric policy: 64·2⁻⁵³ × magnitude
PI_LO = Fraction(3141592653589793238462643383279, 10 ** 30)      # < π
PI_HI = Fraction(3141592653589793238462643383280, 10 ** 30)      # > π
SLACK = Fraction(1, 10 ** 13)        # float slack of the tolerance tests (det / RᵀR rounding ≲ 1e-15)

RULE = ("cases by kind: hatvee (exact), se3 (inverse / relative / so3 block; exact on the signed-permutation × dyadic grid, "
        "tolerance 64·2⁻⁵³·magnitude on random poses with translations 1e-6..1e9; independent pairs and close pairs B = A·D: steps 1e-6..10 m at offsets "
        "up to 1e9, turns 1e-12..1e-5 rad, one-ulp changes, exact dyadic steps at offsets up to 2^33), sim3 (scales 1e-4..1e4), member (is_so3/is_se3/is_sim3 on "
        "group elements, reflections, scaled/sheared/bottom-row variants and near-misses on both sides of each effective tolerance; decisions "
        "compared exactly when the model margin exceeds 1e-13), angle (pairs+triples: model (cos, sin²) core vs so3_log_angle), explog (so3_exp vs "
        "exact Rodrigues matrix with 200-bit sinc/cosc coefficients; so3_log through exp(log R) = R and ‖log R‖ ≤ π); "
        "non-trivial = not the identity / not an all-default case; distinct by content hash")

OPEN = ["so3_exp/so3_log are scipy calls: tied by the Rodrigues certificate (coefficients sin‖v‖/‖v‖, (1−cos‖v‖)/‖v‖² computed by the harness "
        "as 200-bit Taylor sums in ‖v‖²); exp∘log / log∘exp are proved over ℝ for the mathematical expR/logRFull on the whole group "
        "(exp_log_real, log_exp_real, log_exp_real_at_pi)",
        "sim3_scale = det^(1/3) is irrational: the model takes the scale evo computed as an input; s³ = det is checked per case",
        "rotation angle exactly π: the rotation vector is unique only up to sign (log_exp_real_at_pi); which of ±v scipy returns is not modelled: compared up to sign",
        "a float32 Sim(3) matrix makes numpy evaluate det and the cube root in float32 (scale 512.0001 for 512): float32 rounding, outside the binary64 domain, not generated",
        "float rounding: numeric results are compared to 64·2⁻⁵³·magnitude, membership decisions within 1e-13 of a threshold are skipped"]


# ----------------------------------------------------------------------------- exact helpers
def F(m):
    return [[frac(x) for x in row] for row in m]


def mmul(a, b):
    return [[sum(a[i][k] * b[k][j] for k in range(len(b))) for j in range(len(b[0]))] for i in range(len(a))]


def mT(a):
    return [list(r) for r in zip(*a)]


def eye(n):
    return [[Fraction(int(i == j)) for j in range(n)] for i in range(n)]


def maxabs(a):
    return max(abs(x) for row in a for x in row)


def mdiff(a, b):
    return max(abs(x - y) for ra, rb in zip(a, b) for x, y in zip(ra, rb))


def det3(m):
    return (m[0][0] * (m[1][1] * m[2][2] - m[1][2] * m[2][1]) - m[0][1] * (m[1][0] * m[2][2] - m[1][2] * m[2][0])
            + m[0][2] * (m[1][0] * m[2][1] - m[1][1] * m[2][0]))


def flat(m):
    return [x for row in m for x in row]


def rats(xs):
    return " ".join(rat(x) for x in xs)


def parse(line, shape=None):
    v = [core.parse_rat(t) for t in line.split()]
    if shape:
        r, c = shape
        return [v[i * c:(i + 1) * c] for i in range(r)]
    return v


def pose12(m4):
    return [m4[i][j] for i in range(3) for j in range(4)]


def sinc_cosc(n):
    """sin θ/θ and (1−cos θ)/θ² for θ² = n, as 200-bit rationals (alternating Taylor sums in n)"""
    n = Fraction(round(Fraction(n) * 2 ** 200), 2 ** 200)
    a = b = Fraction(0)
    term_a, term_b = Fraction(1), Fraction(1, 2)
    k = 0
    while True:
        a += term_a
        b += term_b
        k += 1
        term_a = -term_a * n / ((2 * k) * (2 * k + 1))
        term_b = -term_b * n / ((2 * k + 1) * (2 * k + 2))
        term_a = Fraction(round(term_a * 2 ** 260), 2 ** 260)
        term_b = Fraction(round(term_b * 2 ** 260), 2 ** 260)
        if abs(term_a) < Fraction(1, 2 ** 220) and abs(term_b) < Fraction(1, 2 ** 220):
            break
    return a, b


# ----------------------------------------------------------------------------- generators
def quat_rot(r):
    q = np.array([r.gauss(0, 1) for _ in range(4)])
    q /= np.linalg.norm(q)
    w, x, y, z = q
    return [[1 - 2 * (y * y + z * z), 2 * (x * y - z * w), 2 * (x * z + y * w)],
            [2 * (x * y + z * w), 1 - 2 * (x * x + z * z), 2 * (y * z - x * w)],
            [2 * (x * z - y * w), 2 * (y * z + x * w), 1 - 2 * (x * x + y * y)]]


def unit_axis(r):
    if r.random() < 0.3:
        a = [0.0, 0.0, 0.0]
        a[r.randrange(3)] = r.choice([1.0, -1.0])
        return a
    v = np.array([r.gauss(0, 1) for _ in range(3)])
    return list(map(float, v / np.linalg.norm(v)))


def axis_angle_rot(ax, th):
    """Rodrigues in float (clean rotation to ~3e-16)"""
    x, y, z = ax
    K = np.array([[0, -z, y], [z, 0, -x], [-y, x, 0]])
    R = np.eye(3) + math.sin(th) * K + (1 - math.cos(th)) * (K @ K)
    return [list(map(float, row)) for row in R]


def perm_rot(r, det=1):
    """signed permutation matrix with the given determinant (exact grid)"""
    while True:
        p = [0, 1, 2]
        r.shuffle(p)
        s = [r.choice([1.0, -1.0]) for _ in range(3)]
        m = [[s[i] if p[i] == j else 0.0 for j in range(3)] for i in range(3)]
        if round(float(np.linalg.det(np.array(m)))) == det:
            return m


def special_angle(r):
    k = r.choice(["tiny", "small", "nearpi", "pi", "uniform"])
    if k == "tiny":
        return 10.0 ** r.uniform(-16, -8)
    if k == "small":
        return 10.0 ** r.uniform(-8, -3)
    if k == "nearpi":
        return math.pi - 10.0 ** r.uniform(-12, -3)
    if k == "pi":
        return math.pi
    return r.uniform(0, math.pi)


def any_rot(r):
    k = r.choice(["uniform", "uniform", "perm", "special"])
    if k == "uniform":
        return quat_rot(r), "uniform"
    if k == "perm":
        return perm_rot(r), "axis-aligned"
    return axis_angle_rot(unit_axis(r), special_angle(r)), "special-angle"


def translation(r, grid=False):
    if grid:
        return [r.randint(-64, 64) / r.choice([1, 2, 4, 8]) for _ in range(3)]
    mag = 10.0 ** r.uniform(-6, 9)
    return [r.uniform(-1, 1) * mag for _ in range(3)]


def to4(R, t, bottom=(0.0, 0.0, 0.0, 1.0)):
    return [list(R[0]) + [t[0]], list(R[1]) + [t[1]], list(R[2]) + [t[2]], list(bottom)]


def gen_cases(ctx):
    base = list(base_cases(ctx))
    yield from base
    # L3: the same values as int / float32 / Fortran-ordered / strided-view / read-only arrays (lists where accepted)
    r = ctx.rng
    yield from flavoured(r, r.sample(base, min(len(base), 1500 if ctx.thorough else 450)))
    # all-integer grid matrices in every flavour (an int64 / int32 / float32 Sim(3) or SE(3) matrix is a legal argument: the
    # result must not be computed in the argument's dtype) — signed permutations, integer translations, integer scales
    for j in range(240 if ctx.thorough else 48):
        fl = FLAVOURS[j % len(FLAVOURS)]
        ti = lambda: [float(r.randint(-64, 64)) for _ in range(3)]
        yield {"kind": "sim3", "grid": True, "R": perm_rot(r), "t": ti(), "s": float(r.choice([1, 2, 2, 3, 4, 5, 8, 64, 1000])),
               "flavour": fl, "intgrid": True}
        yield {"kind": "se3", "grid": True, "a": to4(perm_rot(r), ti()), "b": to4(perm_rot(r), ti()), "flavour": fl, "intgrid": True}


def base_cases(ctx):
    r = ctx.rng
    k = 25 if ctx.thorough else 3
    # corpus: hand-made cases at the decision points
    yield {"kind": "member", "what": "reflection", "m": to4([[1.0, 0, 0], [0, 1.0, 0], [0, 0, -1.0]], [0.0, 0, 0]), "s": None}
    yield {"kind": "member", "what": "bottom", "m": to4(np.eye(3).tolist(), [1.0, 2.0, 3.0], (0.0, 0.0, 0.0, 2.0)), "s": None}
    yield {"kind": "member", "what": "bottom", "m": to4(np.eye(3).tolist(), [1.0, 2.0, 3.0], (1e-12, 0.0, 0.0, 1.0)), "s": None}
    yield {"kind": "se3", "grid": True, "a": to4(perm_rot(r), [1.0, 2.0, 3.0]), "b": to4(perm_rot(r), [-0.5, 4.0, 8.0])}
    yield {"kind": "explog", "v": [0.0, 0.0, 0.0]}
    yield {"kind": "explog", "v": [0.0, 0.0, math.pi]}
    for _ in range(60 * k):
        if r.random() < 0.5:
            v = [float(r.randint(-9, 9)) / r.choice([1, 2, 4]) for _ in range(3)]
        else:
            mag = 10.0 ** r.uniform(-16, 9)
            v = [r.uniform(-1, 1) * mag for _ in range(3)]
        yield {"kind": "hatvee", "v": v}
    for _ in range(150 * k):
        grid = r.random() < 0.3
        if grid:
            a, b = to4(perm_rot(r), translation(r, True)), to4(perm_rot(r), translation(r, True))
        else:
            a, b = to4(any_rot(r)[0], translation(r)), to4(any_rot(r)[0], translation(r))
            if r.random() < 0.15:
                b = [list(row) for row in a]
        yield {"kind": "se3", "grid": grid, "a": a, "b": b}
    # close pairs: B = A·D with a small motion D (every two-argument function must see A ≈ B, A ≠ B)
    for _ in range(150 * k):
        yield close_pair(r)
    for _ in range(120 * k):
        grid = r.random() < 0.25
        if grid:
            R, t, s = perm_rot(r), translation(r, True), 2.0 ** r.randint(-13, 13)
        else:
            R, t, s = any_rot(r)[0], translation(r), 10.0 ** r.uniform(-4, 4)
        yield {"kind": "sim3", "grid": grid, "R": R, "t": t, "s": s}
    for _ in range(400 * k):
        yield member_case(r)
    for _ in range(150 * k):
        A, ka = any_rot(r)
        mode = r.choice(["free", "free", "close", "equal", "special"])
        if mode == "free":
            B = any_rot(r)[0]
        elif mode == "equal":
            B = [list(row) for row in A]
        else:
            th = 10.0 ** r.uniform(-12, -3) if mode == "close" else special_angle(r)
            B = (np.array(A) @ np.array(axis_angle_rot(unit_axis(r), th))).tolist()
        C, T = any_rot(r)[0], any_rot(r)[0]
        yield {"kind": "angle", "mode": mode, "A": A, "B": B, "C": C, "T": T}
    for _ in range(200 * k):
        th = special_angle(r) if r.random() < 0.8 else r.uniform(0, 12)
        ax = unit_axis(r)
        yield {"kind": "explog", "v": [a * th for a in ax]}
    for _ in range(60 * k):
        yield {"kind": "log", "R": any_rot(r)[0]}


def close_pair(r):
    how = r.choice(["grid-step", "grid-step", "grid-turn", "step", "step", "turn", "step+turn", "ulp"])
    if how.startswith("grid"):
        # exact grid: same signed-permutation rotation, dyadic translations of size 2^e, tiny dyadic step (A⁻¹B exact)
        R = perm_rot(r)
        e = r.randint(0, 30)
        t = [float(r.randint(-8, 8) * 2 ** e + r.randint(-64, 64)) / r.choice([1, 2, 4]) for _ in range(3)]
        a = to4(R, t)
        if how == "grid-step":
            step = [0.0, 0.0, 0.0]
            for i in r.sample(range(3), r.randint(1, 3)):
                step[i] = r.randint(-16, 16) / r.choice([1, 2, 4, 64, 1024])
            if step == [0.0, 0.0, 0.0]:
                step[0] = 0.25
            b = to4(R, [x + d for x, d in zip(t, step)])
        else:
            b = to4((np.array(R) @ np.array(perm_rot(r))).tolist(), t)
        return {"kind": "se3", "grid": True, "close": how, "a": a, "b": b}
    R = any_rot(r)[0]
    mag = 10.0 ** r.uniform(0, 9)
    t = [r.uniform(-1, 1) * mag for _ in range(3)] if r.random() < 0.85 else [0.0, 0.0, 0.0]
    a = np.array(to4(R, t))
    if how == "ulp":
        b = a.copy()
        i, j = r.randrange(3), r.randrange(4)
        b[i, j] = np.nextafter(b[i, j], r.choice([-np.inf, np.inf]))
    else:
        D = np.eye(4)
        if "turn" in how:
            D[:3, :3] = np.array(axis_angle_rot(unit_axis(r), 10.0 ** r.uniform(-12, -5)))
        if "step" in how:
            D[:3, 3] = np.array(unit_axis(r)) * 10.0 ** r.uniform(-6, 1)
        b = a @ D
    return {"kind": "se3", "grid": False, "close": how, "a": a.tolist(), "b": b.tolist()}


def flavoured(r, cases):
    """array flavours of the arguments (L3): the values are unchanged, so the judgement is the same"""
    for c in cases:
        c = dict(c)
        c["flavour"] = r.choice(FLAVOURS)
        yield c


def member_case(r):
    """group elements and controlled departures from the group"""
    R, _ = any_rot(r)
    t = translation(r) if r.random() < 0.7 else translation(r, True)
    what = r.choice(["rotation", "rotation", "reflection", "scaled", "sheared", "bottom", "sim3",
                     "near-scale", "near-shear", "near-det", "sim3-wrong-scale", "zero-scale", "neg-scale"])
    Rn = np.array(R)
    bottom = (0.0, 0.0, 0.0, 1.0)
    s = None
    dist = None
    if what == "reflection":
        Rn = Rn @ np.diag([1.0, 1.0, -1.0]) if r.random() < 0.5 else -Rn
    elif what == "scaled":
        dist = 10.0 ** r.uniform(-4, 0) * r.choice([1, -1])
        Rn = Rn * (1.0 + dist)
    elif what == "sheared":
        dist = 10.0 ** r.uniform(-4, 0) * r.choice([1, -1])
        S = np.eye(3)
        i, j = r.sample(range(3), 2)
        S[i, j] = dist
        Rn = Rn @ S
    elif what == "bottom":
        b = [0.0, 0.0, 0.0, 1.0]
        b[r.randrange(4)] += r.choice([1.0, -1.0, 1e-12, -1e-9, 0.5])
        bottom = tuple(b)
        if r.random() < 0.4:
            s = 10.0 ** r.uniform(-4, 4)
            Rn = Rn * s
    elif what == "sim3":
        s = 10.0 ** r.uniform(-4, 4)
        Rn = Rn * s
    elif what == "zero-scale":
        Rn = Rn * 0.0
    elif what == "neg-scale":
        # s·R with s < 0 is a scaled reflection.  With s = None evo must reject it; an explicit negative `s` is outside the
        # documented domain ("positive, non-zero scale factor"): compared with the model only (observation, see manifest note)
        sc = -(10.0 ** r.uniform(-2, 2))
        Rn = Rn * sc
        s = r.choice([None, sc])
    elif what == "sim3-wrong-scale":
        s = 10.0 ** r.uniform(-2, 2)
        Rn = Rn * s
        s = s * (1.0 + r.choice([1, -1]) * 10.0 ** r.uniform(-7, -1))
    elif what == "near-scale":
        # effective thresholds: det |k³−1| ≤ 1.1e-5, diagonal |k²−1| ≤ 1.1e-5
        thr = r.choice([1.1e-5 / 3, 1.1e-5 / 2])
        dist = thr * (1.0 + r.choice([1, -1]) * 10.0 ** r.uniform(-6, -0.3)) * r.choice([1, -1])
        Rn = Rn * (1.0 + dist)
    elif what == "near-shear":
        # off-diagonal threshold 1e-6 (the diagonal gets 1+d², far from its threshold)
        dist = 1e-6 * (1.0 + r.choice([1, -1]) * 10.0 ** r.uniform(-6, -0.3)) * r.choice([1, -1])
        S = np.eye(3)
        i, j = r.sample(range(3), 2)
        S[i, j] = dist
        Rn = Rn @ S
    elif what == "near-det":
        # stretch one axis: det 1+d (thr 1.1e-5), diagonal 1+2d (thr 1.1e-5 → d = 5.5e-6)
        dist = 5.5e-6 * (1.0 + r.choice([1, -1]) * 10.0 ** r.uniform(-6, -0.3)) * r.choice([1, -1])
        S = np.eye(3)
        i = r.randrange(3)
        S[i, i] = 1.0 + dist
        Rn = Rn @ S
    return {"kind": "member", "what": what, "dist": dist, "m": to4(Rn.tolist(), t, bottom), "s": s}


# ----------------------------------------------------------------------------- implementation
def run_impl(case):
    try:
        return run_impl_(case)
    except Exception as e:  # an unexpected exception of evo is an observable failure
        return {"crash": f"{type(e).__name__}: {e}"}


def L(a):
    return np.asarray(a, dtype=float).tolist()


FLAVOURS = ("int", "f32", "fortran", "slice", "readonly", "list")


def arr(x, case):
    """the argument array in the flavour of the case (same values: int/float32 only where exactly representable)"""
    fl = case.get("flavour")
    a = np.array(x, dtype=float)
    if fl in ("int", "f32") and case.get("grid") is False:
        return a          # narrower dtypes only where every operation stays exact (numpy computes in the argument's dtype)
    if fl == "int":
        b = a.astype(np.int64)
        return b if (b == a).all() else a
    if fl == "f32":
        b = a.astype(np.float32)
        return b if (b.astype(float) == a).all() else a
    if fl == "fortran":
        return np.asfortranarray(a) if a.ndim == 2 else a[::1]
    if fl == "slice":        # non-contiguous view into a larger base array
        if a.ndim == 2:
            big = np.full((2 * a.shape[0] + 1, 2 * a.shape[1] + 3), 7.0)
            big[1::2, 2:2 + 2 * a.shape[1]:2] = a
            return big[1::2, 2:2 + 2 * a.shape[1]:2]
        big = np.full(2 * a.shape[0] + 1, 7.0)
        big[1::2] = a
        return big[1::2]
    if fl == "readonly":
        a.setflags(write=False)
        return a
    if fl == "list" and case["kind"] in ("hatvee", "explog"):      # the only functions that take sequences
        return a.tolist()
    return a


def same(x, y):
    return np.array_equal(np.asarray(x, dtype=float), np.asarray(y, dtype=float))


def run_impl_(case):
    from evo.core import lie_algebra as lie
    k = case["kind"]
    if k == "hatvee":
        v = arr(case["v"], case)
        h = lie.hat(v)
        # results must not alias across calls: a second call with other data while the first result is still held
        lie.hat(np.array([7.0, -8.0, 9.0]))
        hv = arr(L(h), case)
        if isinstance(hv, list):
            hv = np.array(hv)        # vee indexes m[i, j]: nested lists are not accepted
        return {"hat": L(h), "vee": L(lie.vee(hv))}
    if k == "se3":
        a, b = arr(case["a"], case), arr(case["b"], case)
        a0, b0 = np.array(a, dtype=float), np.array(b, dtype=float)
        held = {"se3": lie.se3(a[:3, :3], a[:3, 3]), "inv": lie.se3_inverse(a), "rel": lie.relative_se3(a, b),
                "rel_self": lie.relative_se3(a, a), "relso3": lie.relative_so3(a[:3, :3], b[:3, :3])}
        # every result is held while the same functions run again on other data (b, a swapped): results must not alias
        lie.se3(b[:3, :3], b[:3, 3]), lie.se3_inverse(b), lie.relative_se3(b, a), lie.relative_so3(b[:3, :3], a[:3, :3])
        out = {"se3": L(held["se3"]), "inv": L(held["inv"]),
               "rel": L(held["rel"]), "rel_self": L(held["rel_self"]),
               "relso3": L(held["relso3"]), "so3": L(lie.so3_from_se3(a)),
               "is_se3": bool(lie.is_se3(a)), "is_so3": bool(lie.is_so3(a[:3, :3]))}
        out["unchanged"] = same(a, a0) and same(b, b0)
        return out
    if k == "sim3":
        R, t, s = arr(case["R"], case), arr(case["t"], case), case["s"]
        S_built = lie.sim3(R, t, s)
        S0 = np.array(S_built, dtype=float)
        # the matrix handed on to the other helpers in the flavour of the case (int / float32 only if exactly representable)
        # (a float32 matrix makes numpy evaluate det and the cube root in float32: float32 rounding, outside the binary64 domain)
        S = arr(L(S0), case) if case.get("flavour") not in (None, "f32") else S_built
        if isinstance(S, list):
            S = np.array(S)
        Sinv = lie.sim3_inverse(S)
        out = {"sim3": L(S_built), "scale": float(lie.sim3_scale(S)), "inv": L(Sinv),
               "inv_scale": float(lie.sim3_scale(Sinv)), "is_sim3": bool(lie.is_sim3(S)),
               "is_sim3_s": bool(lie.is_sim3(S, s)), "is_sim3_inv": bool(lie.is_sim3(Sinv))}
        out["unchanged"] = same(S, S0) and same(R, case["R"]) and same(t, case["t"])
        return out
    if k == "member":
        m = arr(case["m"], case)
        import warnings
        with warnings.catch_warnings():
            warnings.simplefilter("ignore")
            sc = float(lie.sim3_scale(m))
            out = {"so3": bool(lie.is_so3(m[:3, :3])), "se3": bool(lie.is_se3(m)), "scale": sc,
                   "sim3": bool(lie.is_sim3(m)) if case["s"] is None else bool(lie.is_sim3(m, case["s"]))}
        out["unchanged"] = same(m, case["m"])
        return out
    if k == "angle":
        A, B, C, T = (arr(case[x], case) for x in "ABCT")
        ang = lambda X, Y: lie.so3_log_angle(lie.relative_so3(X, Y))
        rel = lie.relative_so3(A, B)
        out = {"rel": L(rel), "ab": ang(A, B), "ba": ang(B, A), "bc": ang(B, C), "ac": ang(A, C), "aa": ang(A, A),
               "left": ang(T @ A, T @ B), "right": ang(A @ T, B @ T),
               "deg": lie.so3_log_angle(rel, degrees=True)}
        out["unchanged"] = all(same(X, case[x]) for X, x in zip((A, B, C, T), "ABCT"))
        return out
    if k == "explog":
        v = arr(case["v"], case)
        R = lie.so3_exp(v)
        back = lie.so3_log(R)
        skew = lie.so3_log(R, return_skew=True)
        # (held results vs. later calls on other data: no function may hand out a buffer it reuses)
        other = lie.so3_exp(np.array([0.3, -0.2, 0.1]))
        lie.so3_log(other)
        lie.so3_log(other, return_skew=True)
        return {"exp": L(R), "log": L(back), "skew": L(skew), "angle": lie.so3_log_angle(R)}
    if k == "log":
        R = arr(case["R"], case)
        v = lie.so3_log(R)
        return {"log": L(v), "exp": L(lie.so3_exp(v)), "unchanged": same(R, case["R"])}
    raise ValueError(k)


# ----------------------------------------------------------------------------- model
def model_lines(case):
    k = case["kind"]
    P = "C09 "
    if k == "hatvee":
        v = case["v"]
        hv = [[0, -v[2], v[1]], [v[2], 0, -v[0]], [-v[1], v[0], 0]]
        return [P + "hat " + rats(v), P + "vee " + rats(flat(hv))]
    if k == "se3":
        a, b = case["a"], case["b"]
        pa, pb = rats(pose12(a)), rats(pose12(b))
        ra, rb = rats(flat([row[:3] for row in a[:3]])), rats(flat([row[:3] for row in b[:3]]))
        return [P + "se3inv " + pa, P + f"rel {pa} {pb}", P + f"rel {pa} {pa}", P + f"relso3 {ra} {rb}",
                P + "isse3 " + rats(flat(a))]
    if k == "sim3":
        return [P + f"sim3 {rats(flat(case['R']))} {rats(case['t'])} {rat(case['s'])}"]
    if k == "member":
        m = case["m"]
        return [P + "isso3 " + rats(flat([row[:3] for row in m[:3]])), P + "isse3 " + rats(flat(m)),
                P + "det " + rats(flat([row[:3] for row in m[:3]]))]
    if k == "angle":
        return []        # the relative rotation is evo's own output: lines are added in `second_lines`
    if k == "explog":
        v = case["v"]
        n = sum(frac(x) ** 2 for x in v)
        a, b = sinc_cosc(n)
        return [P + f"rodrigues {rats(v)} {rat(a)} {rat(b)}"]
    if k == "log":
        return []
    return []


def second_lines(case, impl):
    """driver lines that need a value evo computed (scale, rotation vector, relative rotation)"""
    k = case["kind"]
    P = "C09 "
    if "crash" in impl:
        return []
    if k == "sim3":
        S = impl["sim3"]
        s = impl["scale"]
        if not (math.isfinite(s) and s != 0):
            return []
        return [P + f"sim3inv {rats(pose12(S))} {rat(s)}", P + f"issim3 {rats(flat(S))} {rat(s)}",
                P + f"issim3 {rats(flat(S))} {rat(case['s'])}", P + "det " + rats(flat([row[:3] for row in S[:3]]))]
    if k == "member":
        s = case["s"] if case["s"] is not None else impl["scale"]
        if not (math.isfinite(s) and s != 0):
            return []
        return [P + f"issim3 {rats(flat(case['m']))} {rat(s)}"]
    if k == "angle":
        return [P + "angle " + rats(flat(impl["rel"])),
                P + f"relso3 {rats(flat(case['A']))} {rats(flat(case['B']))}"]
    if k in ("explog", "log"):
        v = impl["log"]
        n = sum(frac(x) ** 2 for x in v)
        a, b = sinc_cosc(n)
        out = [P + f"rodrigues {rats(v)} {rat(a)} {rat(b)}"]
        if k == "explog":
            out.append(P + "angle " + rats(flat(impl["exp"])))
        return out
    return []


# ----------------------------------------------------------------------------- judging
def cmp_block(ctx, case, what, impl, model, scale, exact=False):
    """numeric correspondence: |impl − model| ≤ 64·2⁻⁵³·scale entrywise (exactly equal on the grid)"""
    fi = [frac(x) for x in impl]
    tol = Fraction(0) if exact else U * scale
    worst = max(abs(x - y) for x, y in zip(fi, model))
    if worst > tol:
        ctx.mismatch(case, f"{what}: evo differs from the model by {float(worst):.3e} (tolerance {float(tol):.3e})",
                     [float(x) for x in impl], [str(x) for x in model])
        return False
    return True


def pose_scales(model12, rot_in_max, t_in_max):
    rot = [model12[i] for i in (0, 1, 2, 4, 5, 6, 8, 9, 10)]
    tr = [model12[i] for i in (3, 7, 11)]
    rs = max(abs(x) for x in rot) + Fraction(1, 10 ** 300)
    ts = max(abs(x) for x in tr) + 3 * rot_in_max * t_in_max + Fraction(1, 10 ** 300)
    return rot, tr, rs, ts


def cmp_pose(ctx, case, what, impl4, model12, rot_in_max, t_in_max, exact=False):
    rot, tr, rs, ts = pose_scales(model12, rot_in_max, t_in_max)
    irot = [impl4[i][j] for i in range(3) for j in range(3)]
    itr = [impl4[i][3] for i in range(3)]
    ok = cmp_block(ctx, case, what + " rotation block", irot, rot, rs, exact)
    ok &= cmp_block(ctx, case, what + " translation", itr, tr, ts, exact)
    if list(impl4[3]) != [0.0, 0.0, 0.0, 1.0]:
        ctx.mismatch(case, what + ": bottom row is not 0 0 0 1", impl4[3], [0, 0, 0, 1])
        ok = False
    return ok


def near_identity(prod, rot_tol, t_tol):
    """4×4 exact product ≈ I ?  returns the description of the worst deviation or None"""
    for i in range(4):
        for j in range(4):
            d = abs(prod[i][j] - (1 if i == j else 0))
            tol = t_tol if (j == 3 and i < 3) else rot_tol
            if d > tol:
                return f"entry ({i},{j}) deviates from the identity by {float(d):.3e} (tolerance {float(tol):.3e})"
    return None


def judge(ctx, case, impl, outs):
    k = case["kind"]
    ctx.count("dist", k + (":" + case["what"] if k == "member" else ""))
    if "crash" in impl:
        ctx.fail(case, "no-unexpected-exception", impl["crash"])
        ctx.record(case, False)
        return
    if impl.get("unchanged") is False:
        ctx.fail(case, "inputs-unmodified", "a lie_algebra function changed one of its arguments")
    if case.get("flavour"):
        ctx.count("dist", "flavour:" + case["flavour"])
    bad = nonfinite(impl)
    if bad:
        # NaN/inf in evo's output for finite input is a failure of the law concerned, never a harness crash
        ctx.fail(case, "finite-output", f"non-finite value in evo's output for finite input: {bad}")
        ctx.record(case, False)
        return
    globals()["judge_" + k](ctx, case, impl, outs)


def nonfinite(x, path=""):
    """first non-finite float in evo's outputs (the raw `scale` of non-members may legitimately be nan)"""
    if isinstance(x, dict):
        for k, v in x.items():
            if k == "scale":
                continue
            r = nonfinite(v, f"{path}.{k}")
            if r:
                return r
    elif isinstance(x, (list, tuple)):
        for i, v in enumerate(x):
            r = nonfinite(v, f"{path}[{i}]")
            if r:
                return r
    elif isinstance(x, float) and not math.isfinite(x):
        return f"{path} = {x}"
    return None


def judge_hatvee(ctx, case, impl, outs):
    v = [frac(x) for x in case["v"]]
    mh, mv = parse(outs[0]), parse(outs[1])
    # all operations are sign changes: exact comparison
    cmp_block(ctx, case, "hat", flat(impl["hat"]), mh, 0, exact=True)
    cmp_block(ctx, case, "vee", impl["vee"], mv, 0, exact=True)
    # oracle: hat(v)·u = v × u for a probe u, hat(v) skew, vee(hat v) = v
    h = F(impl["hat"])
    u = [Fraction(2), Fraction(-3), Fraction(5)]
    hu = [sum(h[i][j] * u[j] for j in range(3)) for i in range(3)]
    cross = [v[1] * u[2] - v[2] * u[1], v[2] * u[0] - v[0] * u[2], v[0] * u[1] - v[1] * u[0]]
    if hu != cross:
        ctx.fail(case, "hat-is-cross-product-matrix", f"hat(v)·u = {list(map(float, hu))}, v×u = {list(map(float, cross))}")
    if any(h[i][j] != -h[j][i] for i in range(3) for j in range(3)):
        ctx.fail(case, "hat-skew-symmetric", "hat(v) is not skew-symmetric")
    if [frac(x) for x in impl["vee"]] != v:
        ctx.fail(case, "vee-hat-inverse", f"vee(hat(v)) = {impl['vee']} for v = {case['v']}")
    ctx.count("branch", "hat/vee")
    ctx.record(case, any(x != 0 for x in v))


def judge_se3(ctx, case, impl, outs):
    a, b = F(case["a"]), F(case["b"])
    exact = case["grid"]
    tin = max(abs(a[i][3]) for i in range(3))
    tb = max(abs(b[i][3]) for i in range(3))
    rin = max(max(abs(a[i][j]) for i in range(3) for j in range(3)), Fraction(1))
    m_inv, m_rel, m_self, m_rso3, m_isse3 = parse(outs[0]), parse(outs[1]), parse(outs[2]), parse(outs[3]), outs[4].split()
    cmp_pose(ctx, case, "se3_inverse", impl["inv"], m_inv, rin, tin, exact)
    cmp_pose(ctx, case, "relative_se3", impl["rel"], m_rel, rin, tin + tb, exact)
    cmp_pose(ctx, case, "relative_se3(a,a)", impl["rel_self"], m_self, rin, 2 * tin, exact)
    cmp_block(ctx, case, "relative_so3", flat(impl["relso3"]), m_rso3, 3, exact)
    if impl["se3"] != case["a"]:
        ctx.mismatch(case, "se3(r, t) does not assemble [r t; 0 0 0 1]", impl["se3"], case["a"])
    if impl["so3"] != [row[:3] for row in case["a"][:3]]:
        ctx.mismatch(case, "so3_from_se3 is not the upper-left block", impl["so3"], None)
    if core.parse_rat(m_isse3[1]) > SLACK and impl["is_se3"] != (m_isse3[0] == "1"):
        ctx.mismatch(case, "is_se3 differs from isSe3Tol", impl["is_se3"], m_isse3[0])
    # ---- oracle: P·P⁻¹ = I, P⁻¹·P = I, A·rel(A,B) = B, rel(A,A) = I  (exact products of evo's outputs)
    inv, rel, rself = F(impl["inv"]), F(impl["rel"]), F(impl["rel_self"])
    rt = Fraction(0) if exact else U * 4
    tt = Fraction(0) if exact else U * (8 * (tin + tb) + Fraction(1, 10 ** 300))
    for name, prod in (("P·P⁻¹", mmul(a, inv)), ("P⁻¹·P", mmul(inv, a))):
        bad = near_identity(prod, rt, tt)
        if bad:
            ctx.fail(case, "se3-inverse", f"{name}: {bad}")
    bad = near_identity(rself, rt, tt)
    if bad:
        ctx.fail(case, "relative-self-identity", f"rel(A,A): {bad}")
    ab = mmul(a, rel)
    for i in range(4):
        for j in range(4):
            tol = tt if (j == 3 and i < 3) else rt
            if abs(ab[i][j] - b[i][j]) > tol:
                ctx.fail(case, "relative-is-inverse-times", f"A·rel(A,B) ≠ B at ({i},{j}): {float(ab[i][j] - b[i][j]):.3e}")
                break
        else:
            continue
        break
    if exact and a != b:
        if rel == eye(4):
            ctx.fail(case, "relative-identity-only-for-equal", "relative_se3(A, B) is exactly I although A ≠ B (exact-grid input)")
        if F(impl["relso3"]) == eye(3) and [row[:3] for row in a[:3]] != [row[:3] for row in b[:3]]:
            ctx.fail(case, "relative-identity-only-for-equal", "relative_so3(A, B) is exactly I although A ≠ B (exact-grid input)")
    ra, rb = [row[:3] for row in a[:3]], [row[:3] for row in b[:3]]
    d = mdiff(mmul(ra, F(impl["relso3"])), rb)
    if d > rt:
        ctx.fail(case, "relative-is-inverse-times", f"A·relative_so3(A,B) differs from B by {float(d):.3e}")
    if not impl["is_se3"] or not impl["is_so3"]:
        ctx.fail(case, "member-accept", "a genuine SE(3) element is rejected by is_se3/is_so3")
    if not impl["unchanged"]:
        ctx.fail(case, "inputs-unmodified", "se3_inverse/relative_se3 changed an argument")
    ctx.count("branch", "se3-grid" if exact else "se3-random")
    if case.get("close"):
        ctx.count("dist", "close-pair:" + case["close"])
    ctx.count("dist", "translation-1e%+d" % (0 if tin == 0 else int(math.floor(math.log10(float(tin))))))
    ctx.record(case, case["a"] != case["b"])


def judge_sim3(ctx, case, impl, outs):
    exact = case["grid"]
    R, t, s = F(case["R"]), [frac(x) for x in case["t"]], frac(case["s"])
    tin = max(abs(x) for x in t)
    m_sim = parse(outs[0])
    cmp_pose(ctx, case, "sim3", impl["sim3"], m_sim, 0, 0, exact)
    sc = impl["scale"]
    if len(outs) < 5 or not math.isfinite(sc):
        ctx.fail(case, "sim3-scale-recovered", f"sim3_scale returned {sc}")
        ctx.record(case, True)
        return
    m_inv, m_is, m_is_s, m_det = parse(outs[1]), outs[2].split(), outs[3].split(), core.parse_rat(outs[4])
    # certificate for the scale evo computed: s³ = det
    if abs(frac(sc) ** 3 - m_det) > 32 * U * abs(m_det):       # LU determinant + cube root: a few dozen ulp
        ctx.mismatch(case, "sim3_scale³ differs from the determinant of the block", sc, str(m_det))
    cmp_pose(ctx, case, "sim3_inverse", impl["inv"], m_inv, 1 / frac(sc) ** 2, tin, exact=False)
    for key, mo in (("is_sim3", m_is), ("is_sim3_s", m_is_s)):
        if core.parse_rat(mo[1]) > SLACK and impl[key] != (mo[0] == "1"):
            ctx.mismatch(case, f"{key} differs from isSim3Tol", impl[key], mo[0])
    # ---- oracle
    S, Si = F(impl["sim3"]), F(impl["inv"])
    rt = U * 4
    # translation column of S·S⁻¹: terms of size |t|
    for name, prod, tt in (("S·S⁻¹", mmul(S, Si), U * (8 * tin + Fraction(1, 10 ** 300))),
                           ("S⁻¹·S", mmul(Si, S), U * (8 * tin / s + Fraction(1, 10 ** 300)))):
        bad = near_identity(prod, rt, tt)
        if bad:
            ctx.fail(case, "sim3-inverse", f"{name}: {bad}")
    if not (abs(frac(sc) - s) <= U * s):
        ctx.fail(case, "sim3-scale-recovered", f"sim3_scale(sim3(R,t,{case['s']})) = {sc}")
    if not (abs(frac(impl["inv_scale"]) - 1 / s) <= U / s):
        ctx.fail(case, "sim3-scale-recovered", f"scale of the inverse is {impl['inv_scale']}, expected 1/{case['s']}")
    if not impl["is_sim3"] or not impl["is_sim3_s"]:
        ctx.fail(case, "member-accept", "a genuine Sim(3) element is rejected by is_sim3")
    if impl.get("is_sim3_inv") is False:
        ctx.fail(case, "member-accept", "the inverse of a genuine Sim(3) element is rejected by is_sim3")
    ctx.count("branch", "sim3-grid" if exact else "sim3-random")
    ctx.count("dist", "scale-1e%+d" % int(math.floor(math.log10(case["s"]))))
    ctx.record(case, case["s"] != 1.0)


def judge_member(ctx, case, impl, outs):
    m_so3, m_se3, m_det = outs[0].split(), outs[1].split(), core.parse_rat(outs[2])
    margin = core.parse_rat(m_so3[1])
    comparable = margin > SLACK
    what = case["what"]
    if comparable:
        if impl["so3"] != (m_so3[0] == "1"):
            ctx.mismatch(case, "is_so3 differs from isSo3Tol", impl["so3"], m_so3[0])
        if impl["se3"] != (m_se3[0] == "1"):
            ctx.mismatch(case, "is_se3 differs from isSe3Tol", impl["se3"], m_se3[0])
        ctx.count("branch", f"so3-{'accept' if m_so3[0] == '1' else 'reject'}")
        if m_se3[2] == "0":
            ctx.count("branch", "bottom-row-wrong")
    else:
        ctx.skipped += 1
    if len(outs) > 3:
        m_sim = outs[3].split()
        if case["s"] is None and math.isfinite(impl["scale"]) and abs(frac(impl["scale"]) ** 3 - m_det) > 32 * U * abs(m_det):
            ctx.mismatch(case, "sim3_scale³ differs from the determinant", impl["scale"], str(m_det))
        if core.parse_rat(m_sim[1]) > SLACK:
            if impl["sim3"] != (m_sim[0] == "1"):
                ctx.mismatch(case, "is_sim3 differs from isSim3Tol", impl["sim3"], m_sim[0])
            ctx.count("branch", f"sim3-{'accept' if m_sim[0] == '1' else 'reject'}")
        else:
            ctx.skipped += 1
    # ---- oracle: what the property demands of each class (departures ≥ 1e-4 are clear non-members)
    if what == "rotation":
        if not (impl["so3"] and impl["se3"] and impl["sim3"]):
            ctx.fail(case, "member-accept", f"genuine group element rejected: so3={impl['so3']} se3={impl['se3']} sim3={impl['sim3']}")
    elif what == "sim3":
        if not impl["sim3"]:
            ctx.fail(case, "member-accept", f"s·R with s={case['s']} rejected by is_sim3")
        if abs(case["s"] - 1) >= 1e-4 and (impl["so3"] or impl["se3"]):
            ctx.fail(case, "member-reject-scaled", f"scaled block (s={case['s']}) accepted by is_so3/is_se3")
    elif what == "reflection":
        if impl["so3"] or impl["se3"] or impl["sim3"]:
            ctx.fail(case, "member-reject-reflection", f"reflection accepted: so3={impl['so3']} se3={impl['se3']} sim3={impl['sim3']}")
    elif what == "scaled":
        if impl["so3"] or impl["se3"]:
            ctx.fail(case, "member-reject-scaled", f"block scaled by 1{case['dist']:+.3e} accepted by is_so3/is_se3")
    elif what == "sheared":
        if impl["so3"] or impl["se3"] or impl["sim3"]:
            ctx.fail(case, "member-reject-sheared", f"block sheared by {case['dist']:.3e} accepted")
    elif what == "bottom":
        if impl["se3"] or impl["sim3"]:
            ctx.fail(case, "member-reject-bottom-row", f"bottom row {case['m'][3]} accepted: se3={impl['se3']} sim3={impl['sim3']}")
    elif what == "zero-scale":
        if impl["so3"] or impl["se3"] or impl["sim3"]:
            ctx.fail(case, "member-reject-scaled", f"zero block accepted: so3={impl['so3']} se3={impl['se3']} sim3={impl['sim3']}")
    elif what == "neg-scale":
        if impl["so3"] or impl["se3"] or (case["s"] is None and impl["sim3"]):
            ctx.fail(case, "member-reject-reflection", f"negatively scaled block accepted: so3={impl['so3']} se3={impl['se3']} sim3={impl['sim3']}")
        if case["s"] is not None and impl["sim3"]:
            ctx.count("branch", "is_sim3(p, s<0) accepts the scaled reflection (outside the documented domain of s)")
    elif what == "sim3-wrong-scale":
        rel = abs(impl["scale"] / case["s"] - 1) if math.isfinite(impl["scale"]) else 1
        if rel >= 1e-4 and impl["sim3"]:
            ctx.fail(case, "member-reject-scaled", f"is_sim3(p, s) accepted although the block's scale differs from s by {rel:.2e}")
    ctx.record(case, what != "rotation")


def ref_angle(c, s2):
    """atan2(√s², c) — the single final irrational step, in double precision on correctly rounded inputs"""
    return math.atan2(math.sqrt(float(s2)), float(c))


def judge_angle(ctx, case, impl, outs):
    c, s2 = parse(outs[0])
    m_rel = parse(outs[1])
    cmp_block(ctx, case, "relative_so3", flat(impl["rel"]), m_rel, 3)
    ref = ref_angle(c, s2)
    atol = 1e-14
    if abs(impl["ab"] - ref) > atol:
        ctx.mismatch(case, f"so3_log_angle differs from atan2(√s², c) of the model core by {abs(impl['ab'] - ref):.3e}", impl["ab"], ref)
    if abs(impl["deg"] - math.degrees(ref)) > 1e-12:
        ctx.mismatch(case, "so3_log_angle(degrees=True) is not the angle in degrees", impl["deg"], math.degrees(ref))
    # ---- oracle: metric axioms on evo's own values
    for key in ("ab", "ba", "bc", "ac", "aa", "left", "right"):
        if not (0.0 <= impl[key] <= math.pi + 1e-15):      # float(π) + 2 ulp: rounding of 2·atan2 at angle π
            ctx.fail(case, "angle-range", f"angle {key} = {impl[key]!r} outside [0, π]")
    if abs(impl["ab"] - impl["ba"]) > atol:
        ctx.fail(case, "angle-symmetric", f"d(A,B) = {impl['ab']!r}, d(B,A) = {impl['ba']!r}")
    if abs(impl["left"] - impl["ab"]) > 4 * atol:
        ctx.fail(case, "angle-left-invariant", f"d(TA,TB) = {impl['left']!r}, d(A,B) = {impl['ab']!r}")
    if abs(impl["right"] - impl["ab"]) > 4 * atol:
        ctx.fail(case, "angle-right-invariant", f"d(AT,BT) = {impl['right']!r}, d(A,B) = {impl['ab']!r}")
    if impl["aa"] > 1e-15:
        ctx.fail(case, "angle-zero-for-equal", f"d(A,A) = {impl['aa']!r}")
    # A ≠ B: the exact relative rotation differs from I by more than rounding ⇒ the angle must be positive
    A, B = F(case["A"]), F(case["B"])
    apart = mdiff(mmul(mT(A), B), eye(3))
    if apart > Fraction(1, 10 ** 13) and not impl["ab"] > 0.0:
        ctx.fail(case, "angle-zero-only-for-equal", f"d(A,B) = {impl['ab']!r} although AᵀB differs from I by {float(apart):.3e}")
    if apart > Fraction(1, 10 ** 13) and impl["ab"] < float(apart) / 4:
        ctx.fail(case, "angle-zero-only-for-equal", f"d(A,B) = {impl['ab']!r} far below ‖AᵀB − I‖ = {float(apart):.3e}")
    # triangle inequality (proved over ℝ: angle_triangle)
    if impl["ac"] > impl["ab"] + impl["bc"] + 4 * atol:
        ctx.fail(case, "angle-triangle", f"d(A,C) = {impl['ac']!r} > d(A,B) + d(B,C) = {impl['ab'] + impl['bc']!r}")
    ctx.count("branch", "angle-" + ("zero" if ref == 0 else "tiny" if ref < 1e-6 else "near-pi" if ref > math.pi - 1e-6 else "generic"))
    ctx.record(case, case["mode"] != "equal")


def rot_defect(R):
    """max deviation of RᵀR from I and of det from 1, exact"""
    return max(mdiff(mmul(mT(R), R), eye(3)), abs(det3(R) - 1))


def judge_explog(ctx, case, impl, outs):
    v = [frac(x) for x in case["v"]]
    n = sum(x * x for x in v)
    m_exp = parse(outs[0])
    m_back = parse(outs[1])
    c, s2 = parse(outs[2])
    scale = 1 + 2 * n          # entries of a·hat v, b·(hat v)² before cancellation are below 1 + ‖v‖²
    cmp_block(ctx, case, "so3_exp vs Rodrigues matrix", flat(impl["exp"]), m_exp, min(scale, Fraction(40)))
    R = F(impl["exp"])
    # certificate of the logarithm: exp(log R) = R and ‖log R‖ ≤ π
    cmp_block(ctx, case, "exp(so3_log(R)) vs R (Rodrigues certificate of the logarithm)", flat(impl["exp"]), m_back, 40)
    lg = [frac(x) for x in impl["log"]]
    nl = sum(x * x for x in lg)
    if nl > (PI_HI * (1 + Fraction(4, 2 ** 52))) ** 2:
        ctx.mismatch(case, "‖so3_log(R)‖ exceeds π", float(nl) ** 0.5, None)
    ref = ref_angle(c, s2)
    if abs(impl["angle"] - ref) > 1e-14:
        ctx.mismatch(case, "so3_log_angle differs from atan2(√s², c) of the model core", impl["angle"], ref)
    # ---- oracle
    d = rot_defect(R)
    if d > Fraction(1, 10 ** 13):
        ctx.fail(case, "exp-is-rotation", f"so3_exp(v) is not a rotation: defect {float(d):.3e}")
    if n < (PI_LO * (1 - Fraction(1, 2 ** 48))) ** 2:
        err2 = sum((x - y) ** 2 for x, y in zip(lg, v))
        tol = Fraction(1, 10 ** 13)
        if err2 > tol * tol * n:
            ctx.fail(case, "log-exp-inverse", f"so3_log(so3_exp(v)) = {impl['log']} for v = {case['v']} (relative error {math.sqrt(float(err2 / n)):.3e})")
        ctx.count("branch", "log∘exp checked")
    else:
        ctx.count("branch", "‖v‖ ≥ π: log∘exp not compared")
    sk = F(impl["skew"])
    if [-sk[1][2], sk[0][2], -sk[0][1]] != lg or any(sk[i][j] != -sk[j][i] for i in range(3) for j in range(3)):
        ctx.fail(case, "log-skew-is-hat", "so3_log(return_skew=True) is not hat(so3_log(R))")
    th = math.sqrt(float(n))
    ctx.count("dist", "explog-" + ("zero" if th == 0 else "≤1e-8" if th <= 1e-8 else "≤1e-3" if th <= 1e-3 else
                                    "π-1e-6..π" if math.pi - 1e-6 <= th <= math.pi else ">π" if th > math.pi else "generic"))
    ctx.record(case, n != 0)


def judge_log(ctx, case, impl, outs):
    R = F(case["R"])
    m_back = parse(outs[0])
    cmp_block(ctx, case, "exp(so3_log(R)) vs R (Rodrigues certificate of the logarithm)", flat(case["R"]), m_back, 40)
    lg = [frac(x) for x in impl["log"]]
    nl = sum(x * x for x in lg)
    if nl > (PI_HI * (1 + Fraction(4, 2 ** 52))) ** 2:
        ctx.mismatch(case, "‖so3_log(R)‖ exceeds π", float(nl) ** 0.5, None)
    # oracle: exp(log R) = R on evo's own functions
    d = mdiff(F(impl["exp"]), R)
    if d > Fraction(1, 10 ** 13):
        ctx.fail(case, "exp-log-inverse", f"so3_exp(so3_log(R)) differs from R by {float(d):.3e}")
    ctx.count("branch", "exp∘log checked")
    ctx.record(case, True)


# ----------------------------------------------------------------------------- plumbing
DEGENERATE = [{"kind": "member", "what": "reflection", "m": [[1.0, 0, 0, 0], [0, 1.0, 0, 0], [0, 0, -1.0, 0], [0, 0, 0, 1.0]], "s": None},
              {"kind": "explog", "v": [0.0, math.pi, 0.0]},
              {"kind": "member", "what": "zero-scale", "m": [[0.0, 0, 0, 1], [0, 0.0, 0, 2], [0, 0, 0.0, 3], [0, 0, 0, 1.0]], "s": None},
              {"kind": "log", "R": [[-1.0, 0, 0], [0, -1.0, 0], [0, 0, 1.0]]}]


def history_independent(ctx, cases, impls):
    """L2: a call right after a degenerate call (reflection, angle π, zero block) must give the result it gave before"""
    import json
    step = max(1, len(cases) // 120)
    for i in range(0, len(cases), step):
        run_impl(DEGENERATE[(i // step) % len(DEGENERATE)])
        again = run_impl(cases[i])
        if json.dumps(again, sort_keys=True) != json.dumps(impls[i], sort_keys=True):
            ctx.fail(cases[i], "result-independent-of-call-history",
                     "the same call gives a different result after other calls in the same process")
        ctx.count("branch", "repeated after a degenerate call")


def evaluate(ctx, cases):
    impls = [run_impl(c) for c in cases]
    if len(cases) > 50:
        history_independent(ctx, cases, impls)
    lines, spans = [], []
    for c, im in zip(cases, impls):
        try:
            ls = model_lines(c) + second_lines(c, im)
        except (ValueError, OverflowError):      # a non-finite value of evo: reported by `judge`, never a harness crash
            ls = []
        spans.append((len(lines), len(ls)))
        lines += ls
    outs = core.run_driver(lines, prop="C09")
    for c, im, (o, n) in zip(cases, impls, spans):
        try:
            judge(ctx, c, im, outs[o:o + n])
        except Exception as e:  # noqa: BLE001 -- what evo returned could not even be judged: a finding about this case, never a tool error
            ctx.fail(c, "output-cannot-be-judged", f"the harness could not judge what evo returned: {type(e).__name__}: {str(e)[:200]}")


def shrink(case):
    """zero translations / replace rotations by the identity / round numbers"""
    I = np.eye(3).tolist()
    k = case["kind"]
    if k == "se3":
        for key in ("a", "b"):
            m = case[key]
            if any(m[i][3] != 0 for i in range(3)):
                c = dict(case); c[key] = [m[i][:3] + [0.0] for i in range(3)] + [m[3]]
                yield c
            if [row[:3] for row in m[:3]] != I:
                c = dict(case); c[key] = [I[i] + [m[i][3]] for i in range(3)] + [m[3]]
                yield c
            c = dict(case); c[key] = [m[i][:3] + [float(round(m[i][3]))] for i in range(3)] + [m[3]]   # rotation block untouched
            if c[key] != m:
                yield c
    elif k == "sim3":
        if case["t"] != [0.0, 0.0, 0.0]:
            c = dict(case); c["t"] = [0.0, 0.0, 0.0]; yield c
        if case["R"] != I:
            c = dict(case); c["R"] = I; yield c
        if case["s"] != 2.0:
            c = dict(case); c["s"] = 2.0; yield c
    elif k == "hatvee":
        for i in range(3):
            if case["v"][i] != float(i + 1):
                c = dict(case); c["v"] = list(case["v"]); c["v"][i] = float(i + 1); yield c
    elif k == "member":
        m = case["m"]
        if any(m[i][3] != 0 for i in range(3)):
            c = dict(case); c["m"] = [m[i][:3] + [0.0] for i in range(3)] + [m[3]]; yield c
    elif k == "angle":
        for key in ("T", "C", "A"):
            if case[key] != I:
                c = dict(case); c[key] = I; yield c


def check(ctx):
    lean = core.lean_side(ctx.prop, ctx.tier)
    core.drift(ctx, MODELLED)
    cases = list(gen_cases(ctx))
    evaluate(ctx, cases)
    core.shrink_all(ctx, shrink, evaluate)
    return core.finish(ctx, lean, rule=RULE, open_clauses=OPEN,
                       assumptions=["inputs are finite floats; matrices passed to relative_se3 carry the bottom row 0 0 0 1",
                                    "np.allclose semantics |a−b| ≤ atol + rtol·|b| with numpy's default rtol = 1e-5"],
                       extra_trusted=["Python float(), math.sqrt, math.atan2 for the final irrational step of the angle reference"])


def replay(ctx, data):
    core.sh("lake build drv_C09", cwd=core.LEAN)
    evaluate(ctx, [data["case"]])
    return core.finish_replay(ctx)
