"""C10 — RPE pair selection (evo/core/filters.py filter_pairs_by_*, metrics.id_pairs_from_delta,
geometry.accumulated_distances). Model: lean/EvoModel/Model/Pairs.lean.

The selectors only look at (a) the number of poses, (b) the distances of consecutive positions,
(c) relative rotation angles. The harness computes (b), (c) itself (independently of evo) as exact
rationals and hands them to the model and to the oracle:
  * exact-grid stream: integer positions whose steps are axis steps / 3-4-5 vectors (every float
    operation of evo exact) and rotations about one axis by multiples of pi/8; the model works in
    the angle unit pi/8 (`pi = 8`), i.e. on integers; thresholds on a half-integer grid.
    Angles are irrational for evo: a threshold *hit exactly* in units is compared only when it is
    also hit exactly by the float values evo's own angle primitives produce ("realised"), which the
    generator arranges for by snapping delta onto such a float sum;
  * float-exact angle grid (kind "fgrid"): the model gets the float angles of evo's own angle
    primitives as exact rationals; poses are the identity or one rotation whose float angle has
    trailing zero bits, so that evo's float running sums are exact and `>=` on a threshold hit
    exactly is always decided; all-pairs band limits likewise;
  * random stream: float positions / rotations, rationals of float64 step lengths and angles,
    compared only when the model's smallest decision margin exceeds the float slack.
"""
import contextlib
import io
import math
import random
import numpy as np
import core
from core import Fraction, frac, rat, ratlist

RULE = ("cases = (poses, selector, delta, tol/rel_tol, unit, all_pairs); exact-grid stream exhaustive over short step / "
        "rotation-increment sequences (2..5 poses) x half-integer deltas incl. values hit exactly and values no pair "
        "satisfies, sampled for 6..8 poses; random stream up to 3000 poses (UTM-like offsets, loops, stand-still), "
        "margin-filtered; non-trivial = at least one pair selected and at least one candidate pose/pair rejected, or a "
        "refusal with >= 3 poses; distinct by content hash")

MODELLED = ["evo/core/metrics.py:RPE.__init__", "evo/core/filters.py:filter_pairs_by_index", "evo/core/filters.py:filter_pairs_by_path",
            "evo/core/filters.py:filter_pairs_by_angle", "evo/core/metrics.py:id_pairs_from_delta",
            "evo/core/geometry.py:accumulated_distances"]
TINY = Fraction(1, 10 ** 9)
UNITS = {"f": "frames", "m": "meters", "rad": "radians", "deg": "degrees", "other": "seconds"}


# ----------------------------------------------------------------------------- poses
def rot_axis(axis, a):
    c, s = math.cos(a), math.sin(a)
    r = np.eye(3)
    i, j = [(1, 2), (2, 0), (0, 1)][axis]
    r[i, i], r[i, j], r[j, i], r[j, j] = c, -s, s, c
    return r


def rodrigues(v):
    v = np.asarray(v, dtype=float)
    th = float(np.sqrt(v @ v))
    if th < 1e-300:
        return np.eye(3)
    k = v / th
    K = np.array([[0, -k[2], k[1]], [k[2], 0, -k[0]], [-k[1], k[0], 0]])
    return np.eye(3) + math.sin(th) * K + (1 - math.cos(th)) * (K @ K)


def build_poses(case):
    n = len(case["pos"])
    out = []
    for k in range(n):
        T = np.eye(4)
        if "rk" in case:
            T[:3, :3] = rot_axis(case.get("axis", 2), case["rk"][k] * np.pi / 8)
        elif "rv" in case:
            T[:3, :3] = rodrigues(case["rv"][k])
        T[:3, 3] = case["pos"][k]
        out.append(T)
    return out


def wrap16(m):
    m %= 16
    return min(m, 16 - m)


def own_angles(Ra, Rb):
    """rotation angle of Ra^T Rb for stacks of matrices (independent of evo / scipy)"""
    R = np.einsum("nji,njk->nik", Ra, Rb)
    w = np.stack([R[:, 2, 1] - R[:, 1, 2], R[:, 0, 2] - R[:, 2, 0], R[:, 1, 0] - R[:, 0, 1]], axis=1)
    s = 0.5 * np.sqrt((w * w).sum(axis=1))
    c = 0.5 * (R[:, 0, 0] + R[:, 1, 1] + R[:, 2, 2] - 1.0)
    return np.arctan2(s, c)


# ----------------------------------------------------------------------------- exact parameters
def uses(case):
    """(needs steps, needs cang, needs tri)"""
    fn, allp = case["fn"], case["all"]
    u = case.get("unit")
    path = fn == "path" or (fn == "delta" and u == "m")
    angle = fn == "angle" or (fn == "delta" and u in ("rad", "deg"))
    return path, angle and not allp, angle and allp


def prepare(case):
    """exact rational view of the case for model and oracle + float slack"""
    n = len(case["pos"])
    grid = case["kind"] == "grid"
    need_steps, need_cang, need_tri = uses(case)
    P = {"n": n, "steps": [], "cang": [], "tri": [], "sl": Fraction(0)}
    pos = case["pos"]
    if need_steps:
        if grid:
            for a, b in zip(pos, pos[1:]):
                d2 = sum((int(y) - int(x)) ** 2 for x, y in zip(a, b))
                r = math.isqrt(d2)
                assert r * r == d2 and all(float(int(x)) == x for x in a + b), "grid positions must have integer steps"
                P["steps"].append(Fraction(r))
        else:
            for a, b in zip(pos, pos[1:]):
                d2 = sum((frac(y) - frac(x)) ** 2 for x, y in zip(a, b))
                P["steps"].append(frac(math.sqrt(float(d2))))
            mag = max([abs(x) for p in pos for x in p] + [1e-300])
            tot = float(sum(P["steps"]))
            P["sl"] = frac((n + 8) * 2.0 ** -49 * (mag + tot + abs(case["delta"])))
    if (need_cang or need_tri) and case["kind"] == "fgrid":
        prepare_fgrid(case, P, need_cang, need_tri)
    elif need_cang or need_tri:
        if grid:
            rk = case["rk"]
            P["pi"] = Fraction(8)
            if need_cang:
                P["cang"] = [Fraction(wrap16(b - a)) for a, b in zip(rk, rk[1:])]
            if need_tri:
                P["tri"] = [Fraction(wrap16(rk[j] - rk[i])) for i in range(n) for j in range(i + 1, n)]
        else:
            P["pi"] = frac(np.pi)
            R = np.array([rodrigues(v) for v in case["rv"]]) if n else np.zeros((0, 3, 3))
            if need_cang and n > 1:
                P["cang"] = [frac(float(x)) for x in own_angles(R[:-1], R[1:])]
            if need_tri:
                for i in range(n - 1):
                    P["tri"] += [frac(float(x)) for x in own_angles(np.repeat(R[i:i + 1], n - i - 1, axis=0), R[i + 1:])]
            P["sl"] = frac((n + 8) * 2.0 ** -44)
    else:
        P["pi"] = Fraction(8) if grid else frac(np.pi)
    # thresholds as the model gets them
    P["delta"] = Fraction(case["dm"]) if "dm" in case else frac(case["delta"])
    P["t"] = Fraction(case["tm"]) if "tm" in case else frac(case["t"])
    P["deg"] = bool(case.get("deg")) or case.get("unit") == "deg"
    if grid and case["fn"] == "delta" and frac(case["t"]).denominator > 1024:
        P["sl"] = max(P["sl"], TINY)      # non-dyadic rel_tol: delta*rel_tol rounds
    if any(op[0] == "transform" for op in case.get("ops", [])) and (need_cang or need_tri):
        P["sl"] = max(P["sl"], TINY)      # exactly rotated matrices: products may round differently in the last bit
    if case.get("flavour") in ("int", "f32") and (need_cang or need_tri):
        P["sl"] = max(P["sl"], TINY)      # the matrices are rounded: angle thresholds hit exactly are not compared
    if grid and (need_cang or need_tri):
        hits, realised = realisation(case, P)
        P["hits"], P["realised"] = hits, realised
        if hits and not realised:
            P["sl"] = TINY
    return P


def prepare_fgrid(case, P, need_cang, need_tri):
    """float-exact angle grid: the model gets the float angles of evo's own angle primitives as exact
    rationals (radians, pi = numpy.pi). evo's float running sums / band limits equal the model's exact
    ones whenever they are exactly representable, which is verified here (the generator arranges for
    it: identity poses mixed with one rotation whose float angle has >= 5 trailing zero bits)."""
    assert not (case.get("deg") or case.get("unit") == "deg")
    n = P["n"]
    P["pi"] = frac(np.pi)
    poses = build_poses(case)
    exact = True
    if need_cang:
        cf = evo_consec_angles(poses)
        P["cang"] = [frac(x) for x in cf]
        for s in range(len(cf)):
            sf, su = 0.0, Fraction(0)
            for e in range(s, len(cf)):
                sf += cf[e]
                su += P["cang"][e]
                exact = exact and frac(sf) == su
    d, t = evo_float_thresholds(case)
    if case["fn"] == "delta":
        exact = exact and frac(t) == frac(case["delta"]) * frac(case["t"])
    if need_tri:
        for i in range(n - 1):
            P["tri"] += [frac(float(x)) for x in evo_pair_angles(poses, i)]
        exact = exact and frac(d - t) == frac(d) - frac(t) and frac(d + t) == frac(d) + frac(t)
    P["fexact"] = exact
    P["sl"] = Fraction(0) if exact else TINY


def evo_float_thresholds(case):
    """delta, tol in radians exactly as filter_pairs_by_angle computes them (elementary float steps)"""
    d = case["delta"]
    t = d * case["t"] if case["fn"] == "delta" else case["t"]
    if bool(case.get("deg")) or case.get("unit") == "deg":
        d, t = float(np.deg2rad(d)), float(np.deg2rad(t))
    return d, t


def model_unit_thresholds(case, P):
    d = P["delta"]
    t = d * P["t"] if case["fn"] == "delta" else P["t"]
    if P["deg"]:
        d, t = d * P["pi"] / 180, t * P["pi"] / 180
    return d, t


def evo_consec_angles(poses):
    from evo.core import lie_algebra as lie
    return [lie.so3_log_angle(lie.relative_so3(a[:3, :3], b[:3, :3])) for a, b in zip(poses, poses[1:])]


def evo_pair_angles(poses, i):
    from evo.core import lie_algebra as lie
    ends = list(range(i + 1, len(poses)))
    ri = lie.sst_rotation_from_matrix(np.array([poses[i][:3, :3]] * len(ends)))
    rj = lie.sst_rotation_from_matrix(np.array([poses[j][:3, :3] for j in ends]))
    return np.linalg.norm((ri.inv() * rj).as_rotvec(), axis=1)


def realisation(case, P):
    """grid angle cases: is a threshold hit exactly in units, and if so do the float values of evo's
    angle primitives hit the float threshold exactly as well (so that `>=` / `<=` are decided by
    equality, not by rounding)?"""
    n = P["n"]
    du, tu = model_unit_thresholds(case, P)
    df, tf = evo_float_thresholds(case)
    poses = build_poses(case)
    hits, ok = 0, True
    if not case["all"]:
        cu = P["cang"]
        cf = evo_consec_angles(poses)
        for s in range(len(cu)):
            su, sf = Fraction(0), 0.0
            for e in range(s, len(cu)):
                su += cu[e]
                sf += cf[e]
                if su == du:
                    hits += 1
                    ok = ok and sf == df
                if su > du and cu[e] > 0:
                    break
    else:
        lo_u, hi_u, lo_f, hi_f = du - tu, du + tu, df - tf, df + tf
        k = 0
        for i in range(n - 1):
            af = None
            for j in range(i + 1, n):
                a = P["tri"][k]
                k += 1
                if a == lo_u or a == hi_u:
                    if af is None:
                        af = evo_pair_angles(poses, i)
                    hits += 1
                    if a == lo_u:
                        ok = ok and float(af[j - i - 1]) == lo_f
                    if a == hi_u:
                        ok = ok and float(af[j - i - 1]) == hi_f
    return hits, ok


# ----------------------------------------------------------------------------- implementation
class HistoryStateDiffers(Exception):
    pass


FLAVOURS = ["tuple", "stack", "aliased", "readonly", "fortran", "view", "int", "f32"]


def intdiag_cases(ctx, r):
    """integer positions with diagonal steps (lengths sqrt2, sqrt3, sqrt5, ...), identity rotations, handed over as int64
    (or float) pose matrices: the path lengths are not integers, so a length computed in the poses' dtype shows"""
    for k in range(60 if not ctx.thorough else 400):
        n = r.randint(3, 9)
        p = [r.randint(-3, 3) for _ in range(3)]
        pos = [[float(x) for x in p]]
        for _ in range(n - 1):
            v = r.choice([(1, 1, 0), (1, 0, 1), (0, 1, 1), (1, 1, 1), (2, 1, 0), (1, 2, 0), (1, 0, 0), (0, 2, 0), (2, 2, 1)])
            sg = [r.choice((-1, 1)) for _ in range(3)]
            p = [a_ + s_ * b_ for a_, s_, b_ in zip(p, sg, v)]
            pos.append([float(x) for x in p])
        base = {"kind": "random", "shape": "intdiag", "pos": pos, "rv": [[0.0, 0.0, 0.0]] * n}
        if k % 3 != 2:
            base["flavour"] = "int"
        d = r.choice([1.2, 1.6, 2.0, 2.6, 2.8, 3.3, 4.0, 4.9, 6.1])
        allp = k % 2 == 0
        if k % 4 < 2:
            yield {**base, "fn": "path", "all": allp, "delta": d, "t": d * r.choice([0.05, 0.1]) if allp else 0.0}
        else:
            yield {**base, "fn": "delta", "unit": "m", "all": allp, "delta": d, "t": r.choice([0.05, 0.1])}


def nearmiss_cases(ctx, r):
    """path lengths that miss the requested delta by a relative 2^-18 .. 2^-30 (far above rounding, far below numpy's
    isclose/allclose defaults rtol=1e-5, atol=1e-8): "reaches delta" means >=, "within tolerance" means <= delta*tol, exactly.
    Poses on a line with dyadic coordinates (all sums exact), identity orientations."""
    for k in range(40 if not ctx.thorough else 300):
        D = r.choice([1.0, 2.0, 8.0, 0.5, 64.0])
        eps = D * 2.0 ** -r.choice([18, 20, 22, 26, 30])
        xs, x = [0.0], 0.0
        for j in range(r.randint(3, 7)):
            x += r.choice([D - eps, D + eps, D, D / 2, D / 2 - eps, D / 2 + eps / 2, D / 4])
            xs.append(x)
        pos = [[v, 0.0, 0.0] for v in xs]
        base = {"kind": "random", "shape": "nearmiss", "pos": pos, "rv": [[0.0, 0.0, 0.0]] * len(pos)}
        allp = k % 2 == 1
        tol = r.choice([0.0, eps / D / 2, 2 * eps / D, 0.1])
        if k % 3 == 0:
            yield {**base, "fn": "delta", "unit": "m", "all": allp, "delta": D, "t": tol}
        else:
            yield {**base, "fn": "path", "all": allp, "delta": D, "t": (D * tol) if allp else 0.0}


def flavour_ok(case, fl):
    """int / float32 matrices only where they hold the same values (integer positions, rotations by
    multiples of 90 degrees)"""
    if fl in ("int", "f32"):
        if case["kind"] != "grid" or any(k % 4 for k in case.get("rk", [])):
            return False
        if fl == "int" and "rk" in case:      # cos(k*pi/2) is ~1e-16, not 0: rounding changes nothing the selectors see
            return True
    return True


def apply_flavour(case, poses):
    """the same pose values handed over as another kind of sequence / array (L3)"""
    fl = case.get("flavour")
    if not fl or not poses:
        return poses
    if fl == "tuple":
        return tuple(poses)
    if fl == "stack":
        return np.array(poses)
    if fl == "aliased":       # equal poses are one and the same ndarray object
        out = []
        for p in poses:
            hit = next((q for q in out if q.tobytes() == p.tobytes()), None)
            out.append(hit if hit is not None else p)
        return out
    if fl == "readonly":
        for p in poses:
            p.setflags(write=False)
        return poses
    if fl == "fortran":
        return [np.asfortranarray(p) for p in poses]
    if fl == "view":
        base = np.array(poses + poses)
        return [base[k] for k in range(len(poses))]
    if fl == "int":
        return [np.rint(p).astype(np.int64) for p in poses]
    if fl == "f32":
        return [p.astype(np.float32) for p in poses]
    return poses


def run_impl(case):
    """every call into evo is wrapped: an unexpected exception is an outcome to be judged (L12)"""
    from evo.core import filters, metrics, geometry
    from evo.core.units import Unit
    poses = build_poses(case)
    fn, allp = case["fn"], case["all"]
    out = {}
    buf = io.StringIO()
    try:
        with contextlib.redirect_stdout(buf):
            seq = apply_flavour(case, poses)
            if fn == "index":
                r = filters.filter_pairs_by_index(seq, int(case["delta"]), allp)
            elif fn == "path":
                r = filters.filter_pairs_by_path(seq, case["delta"], case["t"], allp)
            elif fn == "angle":
                r = filters.filter_pairs_by_angle(seq, case["delta"], case["t"], bool(case.get("deg")), allp)
            elif case.get("via") == "rpe":
                r = run_rpe(case, seq)
            else:
                r = metrics.id_pairs_from_delta(seq, case["delta"], Unit[UNITS[case["unit"]]], case["t"], allp)
            if case.get("via") == "rpe":
                out["ends"] = [int(j) for j in r[0]]
                out["nerr"] = r[1]
                out["ints"] = all(float(j) == int(j) for j in r[0])
                out["pairs"] = None
            else:
                out["pairs"] = [(int(i), int(j)) for i, j in r]
                out["ints"] = all(float(i) == int(i) and float(j) == int(j) for i, j in r)
    except filters.FilterException:
        out["pairs"] = out["ends"] = "E_FILTER"
    except metrics.MetricsException:
        out["pairs"] = out["ends"] = "E_METRICS"
    except HistoryStateDiffers:
        out["pairs"] = out["ends"] = "SKIP"
    except Exception as e:      # noqa: BLE001
        out["pairs"] = out["ends"] = f"EXC:{type(e).__name__}: {str(e)[:120]}"
    if uses(case)[0] and len(poses) >= 1:
        try:
            xyz = np.array([p[:3, 3] for p in poses])
            out["acc"] = [float(x) for x in geometry.accumulated_distances(xyz)]
        except Exception as e:      # noqa: BLE001
            out["acc_exc"] = f"EXC:{type(e).__name__}: {str(e)[:120]}"
    return out


ROT90 = {0: lambda p, m: rot90_vec(p, 0, m), 1: lambda p, m: rot90_vec(p, 1, m), 2: lambda p, m: rot90_vec(p, 2, m)}


def rot90_vec(p, axis, m):
    """rotate an integer vector by m*90 degrees about a coordinate axis (exact)"""
    i, j = [(1, 2), (2, 0), (0, 1)][axis]
    q = list(p)
    for _ in range(m % 4):
        q[i], q[j] = -q[j], q[i]
    return q


def rot90_matrix(axis, m):
    """exact 4x4 rotation by m*90 degrees (entries 0, +-1)"""
    T = np.eye(4)
    for c in range(3):
        e = [0.0, 0.0, 0.0]
        e[c] = 1.0
        T[:3, c] = rot90_vec(e, axis, m)
    return T


def apply_ops_spec(init, ops):
    """what the in-place history does to the pose values, computed here (exact on the grid)"""
    pos, rk, axis = [list(p) for p in init["pos"]], list(init["rk"]), init.get("axis", 2)
    for op in ops:
        if op[0] == "scale":
            pos = [[x * op[1] for x in p] for p in pos]
        elif op[0] == "reduce":
            pos, rk = [pos[k] for k in op[1]], [rk[k] for k in op[1]]
        elif op[0] == "transform":      # left multiplication by a rotation of m*90 degrees about `axis` + translation
            pos = [[a + b for a, b in zip(rot90_vec(p, axis, op[1]), op[2])] for p in pos]
            rk = [k + 4 * op[1] for k in rk]
        elif op[0] == "project":        # in-place projection: the coordinate along the plane normal becomes 0 (the pose
            pos = [[0.0 if i == op[1] else x for i, x in enumerate(p)] for p in pos]     # list object stays the same one)
    return {"pos": [[float(x) for x in p] for p in pos], "rk": rk, "axis": axis}


def materialise(case):
    """history cases carry the initial trajectory + in-place operations; the judged pose values are derived"""
    if "init" in case:
        case = {**case, **apply_ops_spec(case["init"], case["ops"])}
    return case


def apply_op_evo(traj, op, axis):
    if op[0] == "scale":
        traj.scale(op[1])
    elif op[0] == "reduce":
        traj.reduce_to_ids(list(op[1]))
    elif op[0] == "transform":
        T = rot90_matrix(axis, op[1])
        T[:3, 3] = op[2]
        traj.transform(T)
    elif op[0] == "project":
        from evo.core.trajectory import Plane
        traj.project({2: Plane.XY, 1: Plane.XZ, 0: Plane.YZ}[op[1]])


def decoy_poses(case):
    """a different trajectory with the same number of poses (the one the pairs must NOT be taken from)"""
    d = {"pos": [[2.0 * x + 1.0 for x in p] for p in case["pos"]]}
    if "rk" in case:
        d["rk"] = [3 * k + 1 for k in case["rk"]]
        d["axis"] = (case.get("axis", 2) + 1) % 3
    return build_poses(d)


def quats_of(spec):
    """unit quaternions (w, x, y, z) of the grid rotations, computed here (not by evo)"""
    ax = spec.get("axis", 2)
    out = []
    for k in spec.get("rk", [0] * len(spec["pos"])):
        a = k * np.pi / 8
        q = [math.cos(a / 2), 0.0, 0.0, 0.0]
        q[1 + ax] = math.sin(a / 2)
        out.append(q)
    return np.array(out)


def make_traj(case, spec, seq):
    """the trajectory object handed to process_data: construction route x caches read beforehand (L4)"""
    from evo.core.trajectory import PosePath3D
    if case.get("route") == "pq":
        t = PosePath3D(positions_xyz=np.array(spec["pos"], dtype=float), orientations_quat_wxyz=quats_of(spec))
    else:
        t = PosePath3D(poses_se3=seq)
    for what in case.get("preread", []):
        if what == "check":
            t.check()
        else:
            getattr(t, what)
    return t


def run_rpe(case, seq):
    """the class route: metrics.RPE(...).process_data((ref, est)); observable: delta_ids (pair ends).
    `prev`: other trajectories processed by the same RPE object before (L1); only the last call is judged"""
    from evo.core import metrics, filters
    from evo.core.units import Unit
    from evo.core.trajectory import PosePath3D
    kw = dict(pose_relation=metrics.PoseRelation[case.get("rel", "translation_part")], delta=case["delta"],
              delta_unit=Unit[UNITS[case["unit"]]], all_pairs=case["all"], pairs_from_reference=bool(case.get("from_ref")))
    if not case.get("t_omitted"):
        kw["rel_delta_tol"] = case["t"]
    m = metrics.RPE(**kw)
    if "init" in case:
        # the SAME trajectory objects are processed, modified in place, processed again ... (L1):
        # only the last call is judged here (every prefix of the history is a case of its own)
        init = case["init"]
        sel, other = PosePath3D(poses_se3=build_poses(init)), PosePath3D(poses_se3=decoy_poses(init))
        data = (sel, other) if case.get("from_ref") else (other, sel)
        for op in case["ops"]:
            try:
                m.process_data(data)
            except (filters.FilterException, metrics.MetricsException):
                pass
            apply_op_evo(sel, op, init.get("axis", 2))
            apply_op_evo(other, op, (init.get("axis", 2) + 1) % 3 if op[0] != "transform" else init.get("axis", 2))
        want = np.array([p[:3, 3] for p in build_poses(case)])
        if sel.positions_xyz.shape != want.shape or not np.array_equal(sel.positions_xyz, want):
            raise HistoryStateDiffers("evo's in-place operations left other positions than the harness expects")
        m.process_data(data)
        return list(m.delta_ids), int(len(m.error))
    for spec in case.get("prev", []):
        a, b = PosePath3D(poses_se3=build_poses(spec)), PosePath3D(poses_se3=decoy_poses(spec))
        try:
            m.process_data((a, b) if case.get("from_ref") else (b, a))
        except filters.FilterException:
            pass
    if case.get("api"):
        # the function route evo_rpe itself uses: main_rpe.rpe(ref, est, relation, delta, unit, tolerance, all_pairs,
        # pairs_from_reference); timestamps = pose indices, so the result's "timestamps" array names the pair ends
        from evo import main_rpe
        from evo.core.trajectory import PoseTrajectory3D
        n = len(seq)
        stamps = np.arange(n, dtype=float)
        sel = PoseTrajectory3D(poses_se3=seq, timestamps=stamps.copy())
        other = PoseTrajectory3D(poses_se3=decoy_poses(case), timestamps=stamps.copy())
        ref, est = (sel, other) if case.get("from_ref") else (other, sel)
        args = [ref, est, kw["pose_relation"], kw["delta"], kw["delta_unit"]]
        kwargs = dict(all_pairs=kw["all_pairs"], pairs_from_reference=kw["pairs_from_reference"])
        if "rel_delta_tol" in kw:
            kwargs["rel_delta_tol"] = kw["rel_delta_tol"]
        import logging
        logging.disable(logging.CRITICAL)
        try:
            res = main_rpe.rpe(*args, **kwargs)
        finally:
            logging.disable(logging.NOTSET)
        ends = [float(t) for t in res.np_arrays["timestamps"]]
        if any(t != int(t) for t in ends):
            raise ValueError(f"result timestamps are not pose indices: {ends[:6]}")
        return [int(t) for t in ends], int(len(res.np_arrays["error_array"]))
    sel, other = make_traj(case, case, seq), PosePath3D(poses_se3=decoy_poses(case))
    m.process_data((sel, other) if case.get("from_ref") else (other, sel))
    return list(m.delta_ids), int(len(m.error))


def model_lines(case, P):
    fn = case["fn"]
    op = fn if fn != "delta" else ("rpe:" if case.get("via") == "rpe" else "delta:") + case["unit"]
    a = (f"{P['n']} {rat(P['pi'])} {rat(P['delta'])} {rat(P['t'])} {int(P['deg'])} {int(case['all'])} "
         f"{ratlist(P['steps'])} {ratlist(P['cang'])} {ratlist(P['tri'])}")
    lines = [f"C10 {op} {a}"]
    need_steps, need_cang, need_tri = uses(case)
    if need_steps:
        t = P["delta"] * P["t"] if fn == "delta" else P["t"]
        b = (f"{P['n']} {rat(P['pi'])} {rat(P['delta'])} {rat(t)} 0 {int(case['all'])} "
             f"{ratlist(P['steps'])} 0 0")
        lines += [f"C10 mpath {b}", f"C10 acc {b}"]
    elif need_cang or need_tri:
        t = P["delta"] * P["t"] if fn == "delta" else P["t"]
        b = (f"{P['n']} {rat(P['pi'])} {rat(P['delta'])} {rat(t)} {int(P['deg'])} {int(case['all'])} "
             f"0 {ratlist(P['cang'])} {ratlist(P['tri'])}")
        lines += [f"C10 mangle {b}"]
    return lines


def parse_pairs(s):
    if s == "E_FILTER":
        return s
    return [tuple(map(int, p.split(":"))) for p in s.split()] if s.strip() != "-" else []


# ----------------------------------------------------------------------------- judge
def judge(ctx, case, P, impl, outs):
    fn, allp = case["fn"], case["all"]
    need_steps, need_cang, need_tri = uses(case)
    model = parse_pairs(outs[0]) if outs[0] != "E_METRICS" else "E_METRICS"
    sl = P["sl"]
    margin = None
    if need_steps or need_cang or need_tri:
        margin = core.parse_rat(outs[1])
    comparable = sl == 0 or (margin is not None and margin > sl)
    if need_cang or need_tri:
        # range check of delta against [0, pi] / [0, 180] is a decision too
        b = Fraction(180) if P["deg"] else P["pi"]
        if sl > 0 and (abs(P["delta"] - b) <= sl * 200 or abs(P["delta"]) <= sl):
            comparable = False
    rpe = case.get("via") == "rpe"
    if impl.get("ends") == "SKIP":
        ctx.count("dist", "history:state-after-in-place-ops-differs(not judged, C08)")
        ctx.skipped += 1
        ctx.record(case, False)
        return
    if "init" in case:
        ctx.count("dist", "rpe-same-objects-modified-in-place:" + "+".join(op[0] for op in case["ops"])
                  + (":from_ref" if case.get("from_ref") else ":from_est"))
    if rpe:
        model_ends = model if isinstance(model, str) else [j for _, j in model]
        if comparable and impl["ends"] != model_ends:
            ctx.mismatch(case, f"RPE(delta_unit={case['unit']}, rel_delta_tol={'omitted' if case.get('t_omitted') else case['t']}, "
                               f"all_pairs={allp}, pairs_from_reference={bool(case.get('from_ref'))}).delta_ids differ from idPairsFromDelta",
                         impl["ends"], model_ends)
        if not comparable:
            ctx.skipped += 1
    elif comparable:
        if impl["pairs"] != model:
            ctx.mismatch(case, f"{fn}{'/' + case['unit'] if fn == 'delta' else ''} all_pairs={allp}: evo differs from the model",
                         impl["pairs"], model)
    else:
        ctx.skipped += 1
    ctx.count("dist", ("compared:" if comparable else "skipped:") + case["kind"])
    if need_steps and "acc" in impl:
        macc = [core.parse_rat(x) for x in outs[2].split()]
        if len(macc) != len(impl["acc"]):
            ctx.mismatch(case, "accumulated_distances: length differs", len(impl["acc"]), len(macc))
        else:
            tol = sl
            for k, (x, y) in enumerate(zip(impl["acc"], macc)):
                if abs(frac(x) - y) > tol:
                    ctx.mismatch(case, f"accumulated_distances[{k}] differs from accDist", x, float(y))
                    break
    if rpe:
        oracle_rpe(ctx, case, P, impl)
    else:
        oracle(ctx, case, P, impl)
    # ---- coverage
    key = ("rpe" if rpe else fn) + (":" + case["unit"] if fn == "delta" else "") + (":all" if allp else ":consec")
    if rpe:
        ctx.count("dist", "rpe:rel_delta_tol=" + ("omitted" if case.get("t_omitted") else repr(case["t"])))
    ctx.count("dist", case["kind"] + ":" + key)
    ctx.count("dist", "n=%s" % (P["n"] if P["n"] <= 8 else "9-100" if P["n"] <= 100 else ">100"))
    if case.get("flavour"):
        ctx.count("dist", "poses-as:" + case["flavour"])
    if case.get("prev"):
        ctx.count("dist", "rpe-object-reused:%d-earlier-calls" % len(case["prev"]))
    if case.get("route") or case.get("preread"):
        ctx.count("dist", "rpe-traj:" + case.get("route", "poses") + "+%d-caches-preread" % len(case.get("preread", [])))
    if model == "E_METRICS":
        ctx.count("branch", key + ":metrics-error")
    elif model == "E_FILTER":
        ctx.count("branch", key + ":refused")
    elif not model:
        ctx.count("branch", key + ":empty")
    else:
        ctx.count("branch", key + ":pairs")
    if margin is not None and margin == 0 and comparable:
        ctx.count("branch", key + ":threshold-hit-exactly")
    if case["kind"] == "fgrid":
        k2 = "all" if allp else "consec"
        if not P["fexact"]:
            ctx.count("branch", "angle-float-exact-grid:sums-not-exact(margin-filtered):" + k2)
        elif margin == 0:
            ctx.count("branch", "angle-float-exact-grid:threshold-hit-exactly-compared:" + k2)
        else:
            ctx.count("branch", "angle-float-exact-grid:no-exact-hit-compared:" + k2)
    if P.get("hits"):
        ctx.count("branch", "angle-threshold-hit-in-units:" + ("realised-in-floats" if P["realised"] else "not-realised-skipped"))
    npairs_possible = P["n"] * (P["n"] - 1) // 2
    nontrivial = (isinstance(model, list) and 0 < len(model) < npairs_possible) or (P["n"] >= 3 and (isinstance(model, str) or model == []))
    ctx.record(case, nontrivial)


# ----------------------------------------------------------------------------- oracle
def oracle(ctx, case, P, impl):
    """the property sentence on evo's output, exact rationals; `sl` = float slack (0 on the grid):
    a comparison may go either way only inside the slack"""
    fn, allp, n, sl = case["fn"], case["all"], P["n"], P["sl"]
    need_steps, need_cang, need_tri = uses(case)
    pairs = impl["pairs"]
    tags = {"fn": fn, "all_pairs": allp}
    if "acc_exc" in impl:
        ctx.fail(case, "unexpected-exception", "accumulated_distances: " + impl["acc_exc"], tags)
    frames = fn == "index" or (fn == "delta" and case["unit"] == "f")
    if not (P["delta"] > 0 and (not frames or P["delta"] >= 1)):
        return      # the property quantifies over delta > 0 (frames: >= 1): correspondence only
    if isinstance(pairs, str) and pairs != "E_FILTER":
        ctx.fail(case, "unexpected-exception", pairs + (f" (poses as {case['flavour']})" if case.get("flavour") else ""), tags)
        return
    refused = pairs == "E_FILTER"
    if fn != "delta" and refused and fn != "angle":
        ctx.fail(case, "unexpected-filter-error", "FilterException from a selector that has no error path", tags)
        return
    delta = P["delta"]
    # angle range check (filter_pairs_by_angle)
    if need_cang or need_tri:
        bound = Fraction(180) if P["deg"] else P["pi"]
        out_of_range = delta < -sl or delta > bound + sl * 200
        maybe_out = delta < sl or delta > bound - sl * 200
        if refused and fn == "angle" and not maybe_out:
            ctx.fail(case, "refused-although-delta-in-range", f"delta={float(delta)}", tags)
            return
        if not refused and out_of_range:
            ctx.fail(case, "angle-delta-out-of-range-accepted", f"delta={float(delta)} bound={float(bound)}", tags)
            return
        if refused and maybe_out:
            return
    if fn == "delta" and case["unit"] == "other":
        if not refused:
            ctx.fail(case, "unsupported-unit-accepted", str(pairs)[:80], tags)
        return
    plist = [] if refused else pairs
    if not refused and not impl.get("ints", True):
        ctx.fail(case, "valid-indices", "non-integer index", tags)
        return
    for (i, j) in plist:
        if not (0 <= i < j < n):
            ctx.fail(case, "bounds", f"pair ({i},{j}) with N={n}", tags)
            return
    if fn == "delta" and not refused and not plist:
        ctx.fail(case, "empty-result-not-refused", "id_pairs_from_delta returned [] without FilterException", tags)
    empty_ok = None      # None: cannot tell, True: an empty selection is legitimate, False: pairs exist
    if fn == "index" or (fn == "delta" and case["unit"] == "f"):
        d = int(delta)
        if allp:
            want = [(i, i + d) for i in range(n) if i + d < n]
        else:
            want = [(m * d, (m + 1) * d) for m in range(n) if (m + 1) * d < n]
        if plist != want:
            ctx.fail(case, "frames-all-pairs" if allp else "frames-chain", f"got {plist[:6]} want {want[:6]}", tags)
        empty_ok = not want
    elif need_steps and not allp:
        acc = prefix(P["steps"])
        empty_ok = oracle_consec(ctx, case, tags, plist, acc, delta, sl, n)
    elif need_cang:
        d, _ = model_unit_thresholds(case, P)
        acc = prefix(P["cang"])
        empty_ok = oracle_consec(ctx, case, tags, plist, acc, d, sl, n)
    elif need_steps and allp:
        acc = prefix(P["steps"])
        tol = delta * P["t"] if fn == "delta" else P["t"]
        empty_ok = oracle_path_all(ctx, case, tags, plist, acc, delta, tol, sl, n)
    elif need_tri:
        d, t = model_unit_thresholds(case, P)
        empty_ok = oracle_angle_all(ctx, case, tags, plist, P["tri"], d, t, sl, n)
    if fn == "delta" and refused and empty_ok is False:
        ctx.fail(case, "refused-although-pairs-exist", f"delta={float(delta)} unit={case['unit']}", tags)
    if need_steps and "acc" in impl and not isinstance(pairs, str) or (need_steps and "acc" in impl and pairs == "E_FILTER"):
        acc = prefix(P["steps"])
        a = impl["acc"]
        if len(a) != n or a[0] != 0.0 or any(abs(frac(x) - y) > sl for x, y in zip(a, acc)):
            ctx.fail(case, "accumulated-distances", f"{a[:6]} vs {[float(x) for x in acc[:6]]}", tags)


class Probe:
    """collects oracle failures instead of reporting them"""
    def __init__(self):
        self.fails = []

    def fail(self, case, clause, detail, tags=None):
        self.fails.append((clause, detail))


def oracle_rpe(ctx, case, P, impl):
    """the property sentence on the pair *ends* reported by RPE.delta_ids, with the REQUESTED tolerance
    (omitted = the documented default 0.1)"""
    allp, n, sl, u = case["all"], P["n"], P["sl"], case["unit"]
    ends = impl["ends"]
    refused = ends == "E_FILTER"
    tags = {"fn": "rpe", "all_pairs": allp, "unit": u}
    tolname = "omitted" if case.get("t_omitted") else case["t"]
    if not (P["delta"] > 0 and (u != "f" or (P["delta"] >= 1 and P["delta"].denominator == 1))):
        return      # outside the property's quantifier (delta > 0, integer frames): correspondence only
    if isinstance(ends, str) and ends != "E_FILTER":
        ctx.fail(case, "unexpected-exception", ends, tags)
        return
    if u == "other":
        if not refused:
            ctx.fail(case, "unsupported-unit-accepted", str(ends)[:80], tags)
        return
    delta = P["delta"]
    if u in ("rad", "deg"):
        bound = Fraction(180) if P["deg"] else P["pi"]
        if delta < sl or delta > bound - sl * 200:
            if not refused and (delta < -sl or delta > bound + sl * 200):
                ctx.fail(case, "angle-delta-out-of-range-accepted", f"delta={float(delta)}", tags)
            return
    if not refused:
        if not impl.get("ints", True) or any(not (0 < j < n) for j in ends):
            ctx.fail(case, "bounds", f"pair ends {ends[:8]} with N={n}", tags)
            return
        if impl.get("nerr") != len(ends):
            ctx.fail(case, "one-error-per-pair", f"{impl.get('nerr')} error values for {len(ends)} pairs", tags)
        if not ends:
            ctx.fail(case, "empty-result-not-refused", "RPE.process_data selected no pair without FilterException", tags)
    elist = [] if refused else ends
    empty_ok = None
    if u == "f":
        d = int(delta)
        want = [i + d for i in range(n) if i + d < n] if allp else [(m + 1) * d for m in range(n) if (m + 1) * d < n]
        if elist != want and not (refused and not want):
            ctx.fail(case, "frames-all-pairs" if allp else "frames-chain", f"pair ends {elist[:8]} want {want[:8]}", tags)
        empty_ok = not want
    elif not allp:
        if u == "m":
            acc, d = prefix(P["steps"]), delta
        else:
            acc, d = prefix(P["cang"]), model_unit_thresholds(case, P)[0]
        if elist:
            first = None
            for s0 in range(0, elist[0]):
                pr = Probe()
                oracle_consec(pr, case, tags, [(s0, elist[0])] + list(zip(elist, elist[1:])), acc, d, sl, n)
                if not pr.fails:
                    first = None
                    break
                first = first or pr.fails[0]
            else:
                first = first or ("bounds", "first pair end 0")
            if first:
                ctx.fail(case, first[0], f"pair ends {elist[:8]}: {first[1]}", tags)
            empty_ok = False
        else:
            empty_ok = oracle_consec(Probe(), case, tags, [], acc, d, sl, n)
    elif u == "m":
        acc = prefix(P["steps"])
        T = delta * P["t"]
        want_sets, unclear = [], False
        for i in range(n - 1):
            vals = [abs(acc[k] - acc[i] - delta) for k in range(i + 1, n)]
            best = min(vals)
            if best <= T - sl and T - sl >= 0:
                want_sets.append((i, {i + 1 + k for k, v in enumerate(vals) if v <= best + sl}))
            elif best <= T + sl:
                unclear = True
        if not unclear:
            ok = len(elist) == len(want_sets) and all(j in w for j, (_, w) in zip(elist, want_sets))
            if not ok and not (refused and not want_sets):
                ctx.fail(case, "path-all-pairs-within-requested-tolerance",
                         f"rel_delta_tol={tolname} delta={float(delta)}: pair ends {elist[:8]}, but the poses with a partner "
                         f"within delta*tolerance are {[i for i, _ in want_sets][:8]} with closest partners {[sorted(w) for _, w in want_sets][:8]}", tags)
            empty_ok = not want_sets
    else:
        d, t = model_unit_thresholds(case, P)
        lo, hi = d - t, d + t
        must, may, k = [], [], 0
        for i in range(n - 1):
            for j in range(i + 1, n):
                a = P["tri"][k]
                k += 1
                if lo + sl <= a <= hi - sl:
                    must.append(j)
                if lo - sl <= a <= hi + sl:
                    may.append(j)
        if must == may:
            if elist != must and not (refused and not must):
                ctx.fail(case, "angle-all-pairs-within-requested-tolerance",
                         f"rel_delta_tol={tolname}: pair ends {elist[:8]}, pairs in the band delta*(1 +- tolerance) end at {must[:8]}", tags)
            empty_ok = not must
    if refused and empty_ok is False:
        ctx.fail(case, "refused-although-pairs-exist", f"delta={float(delta)} unit={u} rel_delta_tol={tolname}", tags)
    if not refused and empty_ok is True and elist:
        ctx.fail(case, "pairs-although-none-exist", f"delta={float(delta)} unit={u} rel_delta_tol={tolname}: ends {elist[:8]}", tags)


def prefix(xs):
    out, s = [Fraction(0)], Fraction(0)
    for x in xs:
        s += x
        out.append(s)
    return out


def oracle_consec(ctx, case, tags, plist, acc, d, sl, n):
    """chain, first reaching, start, maximality; returns whether an empty selection is legitimate"""
    for (a, b), (c, _) in zip(plist, plist[1:]):
        if c != b:
            ctx.fail(case, "chain", f"pair ({a},{b}) followed by a pair starting at {c}", tags)
            return None
    for (i, j) in plist:
        if acc[j] - acc[i] < d - sl:
            ctx.fail(case, "j-reaches-delta", f"pair ({i},{j}): {float(acc[j] - acc[i])} < delta={float(d)}", tags)
            return None
        for k in range(i + 1, j):
            if acc[k] - acc[i] >= d + sl and d > 0:
                ctx.fail(case, "j-first-reaching", f"pair ({i},{j}): pose {k} reaches delta earlier", tags)
                return None
    f_lo = next((k for k in range(n) if acc[k] >= d - sl), None)
    f_hi = next((k for k in range(n) if acc[k] >= d + sl), None)
    if plist:
        if f_hi is not None and plist[0][0] > f_hi:
            ctx.fail(case, "start-no-later-than-first-reach", f"first pair starts at {plist[0][0]}, pose {f_hi} reaches delta from the beginning", tags)
        e = plist[-1][1]
        for k in range(e + 1, n):
            if acc[k] - acc[e] >= d + sl:
                ctx.fail(case, "chain-maximal", f"last pair ends at {e} but pose {k} reaches delta from there", tags)
                break
        return False
    # empty: legitimate iff some admissible start s <= first reach has no continuation
    if f_lo != f_hi:
        return None
    if f_hi is None:
        return True
    for s in range(0, f_hi + 1):
        if not any(acc[k] - acc[s] >= d - sl for k in range(s + 1, n)):
            return True
    if any(abs(acc[k] - acc[s] - d) <= sl for s in range(0, f_hi + 1) for k in range(s + 1, n)):
        return None
    if not (case["fn"] == "delta"):
        ctx.fail(case, "chain-maximal", f"empty selection although every start <= {f_hi} has a pose reaching delta", tags)
    return False


def oracle_path_all(ctx, case, tags, plist, acc, d, tol, sl, n):
    firsts = [i for i, _ in plist]
    if len(set(firsts)) != len(firsts):
        ctx.fail(case, "every-i-once", f"start poses {firsts[:10]}", tags)
    den = 1      # integer arithmetic on a common denominator (speed)
    for x in acc + [d, tol, sl]:
        den = den * x.denominator // math.gcd(den, x.denominator)
    A = [int(x * den) for x in acc]
    D, T = int(d * den), int(tol * den)
    S = 0 if sl == 0 else int(sl * den) + 1
    got = dict(plist)
    exists = False
    for i in range(n - 1):
        ai = A[i]
        vals = [abs(A[k] - ai - D) for k in range(i + 1, n)]
        best = min(vals)
        if i in got:
            v = vals[got[i] - i - 1]
            if v > T + S:
                ctx.fail(case, "within-tolerance", f"pair ({i},{got[i]}): |path-delta|={float(Fraction(v) / den)} > tol={float(tol)}", tags)
                return None
            if v > best + S:
                ctx.fail(case, "j-closest", f"pair ({i},{got[i]}): pose {i + 1 + vals.index(best)} is closer to delta", tags)
                return None
        if best <= T - S and T - S >= 0:
            exists = True
            if i not in got:
                ctx.fail(case, "every-i-reported", f"pose {i} has a partner within tol (pose {i + 1 + vals.index(best)}) but is not reported", tags)
                return None
        elif best <= T + S:
            exists = None if exists is False else exists
    if plist:
        return False
    return None if exists is None else (not exists)


def oracle_angle_all(ctx, case, tags, plist, tri, d, t, sl, n):
    lo, hi = d - t, d + t
    must, may = [], set()
    k = 0
    for i in range(n - 1):
        for j in range(i + 1, n):
            a = tri[k]
            k += 1
            if lo + sl <= a <= hi - sl:
                must.append((i, j))
            if lo - sl <= a <= hi + sl:
                may.add((i, j))
    if len(set(plist)) != len(plist):
        ctx.fail(case, "angle-all-pairs-no-duplicates", str(plist[:8]), tags)
    got = set(plist)
    for p in plist:
        if p not in may:
            ctx.fail(case, "angle-all-pairs-only-band", f"pair {p} is outside delta*(1 +- tol)", tags)
            return None
    for p in must:
        if p not in got:
            ctx.fail(case, "angle-all-pairs-complete", f"pair {p} lies in the band but is not reported", tags)
            return None
    if must:
        return False
    return True if not may else None


# ----------------------------------------------------------------------------- generators
AX = [(1, 0, 0), (0, 1, 0), (0, 0, 1)]
V345 = [(3, 4, 0), (4, 3, 0), (0, 3, 4), (3, 0, 4), (4, 0, 3), (0, 4, 3)]


def grid_positions(r, lens):
    p = [r.randint(-5, 5) for _ in range(3)]
    out = [[float(x) for x in p]]
    for L in lens:
        if L == 5 and r.random() < 0.8:
            v = list(r.choice(V345))
        elif L == 10 and r.random() < 0.8:
            v = [2 * x for x in r.choice(V345)]
        else:
            v = [L * x for x in r.choice(AX)]
        sg = [r.choice((-1, 1)) for _ in range(3)]
        p = [a + s * b for a, s, b in zip(p, sg, v)]
        out.append([float(x) for x in p])
    return out


def half_grid(r, top, k):
    """up to k distinct half-integers in (0, top]"""
    allv = [x / 2 for x in range(1, int(2 * top) + 1)]
    return allv if len(allv) <= k else sorted(r.sample(allv, k))


def seqs(alphabet, n):
    if n == 0:
        yield []
        return
    for s in seqs(alphabet, n - 1):
        for a in alphabet:
            yield s + [a]


def rot_filler(r, n):
    return {"rk": [r.randint(0, 15) for _ in range(n)], "axis": r.randint(0, 2)}


def snap_angle_delta(r, case):
    """replace delta by the float value evo's angle primitives give for an interval / pair that hits
    the threshold in units, so that the hit is exact for evo as well"""
    if case.get("deg") or case.get("unit") == "deg":
        return case
    P = prepare(case)
    du, tu = model_unit_thresholds(case, P)
    if du >= P["pi"]:      # the range check against pi is a threshold of its own: keep delta = pi exactly
        return case
    poses = build_poses(case)
    if not case["all"]:
        cu, cf = P["cang"], evo_consec_angles(poses)
        cands = []
        for s in range(len(cu)):
            su, sf = Fraction(0), 0.0
            for e in range(s, len(cu)):
                su += cu[e]
                sf += cf[e]
                if su == du:
                    cands.append(sf)
        if cands:
            case = dict(case)
            case["delta"] = float(cands[0] if r.random() < 0.7 else r.choice(cands))
    elif tu == 0:
        n, k, cands = P["n"], 0, []
        for i in range(n - 1):
            for j in range(i + 1, n):
                if P["tri"][k] == du:
                    cands.append((i, j))
                k += 1
        if cands:
            i, j = r.choice(cands)
            case = dict(case)
            case["delta"] = float(evo_pair_angles(poses, i)[j - i - 1])
    return case


def trailing_zero_bits(a):
    m, _ = math.frexp(a)
    k = int(m * 2 ** 53)
    return (k & -k).bit_length() - 1 if k else 99


def exact_rotations(r, count, bits=5):
    """rotation vectors whose angle, as evo's so3_log_angle computes it from / to the identity, is a
    float with >= `bits` trailing zero mantissa bits: sums k*a (k < 2^bits) are then exact in floats"""
    from evo.core import lie_algebra as lie
    out, I = [], np.eye(3)
    while len(out) < count:
        ax = np.eye(3)[r.randint(0, 2)] if r.random() < 0.5 else np.array([r.gauss(0, 1) for _ in range(3)])
        ax = ax / float(np.sqrt(ax @ ax))
        v = [float(x) for x in r.uniform(0.05, 1.0) * ax]
        R = rodrigues(v)
        a = lie.so3_log_angle(lie.relative_so3(I, R))
        b = lie.so3_log_angle(lie.relative_so3(R, I))
        if a == b and trailing_zero_bits(a) >= bits and lie.so3_log_angle(lie.relative_so3(R, R)) == 0.0:
            out.append((v, a))
    return out


def fgrid_cases(ctx, r, L, INC):
    """second exact angle grid (float-exact): see prepare_fgrid"""
    th = ctx.thorough
    rots = exact_rotations(r, 6 if not th else 20)
    zero = [0.0, 0.0, 0.0]

    def mk(rvs, fn_mode, allp, d, t):
        n = len(rvs)
        pos = grid_positions(r, [r.choice(L) for _ in range(n - 1)]) if r.random() < 0.3 else [zero] * n
        c = {"kind": "fgrid", "pos": pos, "rv": rvs, "all": allp, "delta": float(d)}
        if fn_mode == "angle":
            c.update({"fn": "angle", "deg": False, "t": float(t)})
        else:
            c.update({"fn": "delta", "unit": "rad", "t": float(t)})
        return c
    # consecutive: poses are I or R, exhaustive for 2..7 poses; thresholds k*a/2 (hit exactly for even k)
    for n in range(2, 8 if not th else 10):
        for bits in seqs([0, 1], n):
            v, a = r.choice(rots)
            rvs = [v if b else zero for b in bits]
            steps = sum(1 for x, y in zip(bits, bits[1:]) if x != y)
            ks = list(range(1, 2 * steps + 3))
            nk = 3 if not th else 5
            for k in (ks if len(ks) <= nk else r.sample(ks, nk)):
                d = k * (a / 2)
                if d > np.pi:
                    continue
                if r.random() < 0.75:
                    yield mk(rvs, "angle", False, d, 0.0)
                else:
                    yield mk(rvs, "delta", False, d, r.choice([0.0, 0.5, 0.1]))
                if r.random() < 0.5:
                    tol = r.choice([0.0, 0.0, a / 2, a])
                    if r.random() < 0.6:
                        yield mk(rvs, "angle", True, d, tol)
                    else:
                        yield mk(rvs, "delta", True, d, r.choice([0.0, 0.5, 1.0]))
    # two different rotations (transitions R1 -> R2 have a full-mantissa angle: kept only if sums stay exact)
    for _ in range(150 if not th else 1500):
        n = r.randint(3, 8)
        (v1, a1), (v2, a2) = r.sample(rots, 2)
        rvs = [r.choice([zero, zero, v1, v2]) for _ in range(n)]
        d = r.choice([a1, a2, a1 + a2, 2 * a1, a1 / 2, 2 * a1 + a2])
        if d <= np.pi:
            yield mk(rvs, "angle", r.random() < 0.3, d, 0.0)
    # all-pairs on the pi/8 grid: no sums involved, delta snapped onto the float angle of one pair
    for _ in range(200 if not th else 2000):
        n = r.randint(2, 8)
        rk = [r.randint(0, 15)]
        for _ in range(n - 1):
            rk.append(rk[-1] + r.choice(INC))
        c = {"kind": "fgrid", "pos": [zero] * n, "rk": rk, "axis": r.randint(0, 2), "all": True}
        poses = build_poses(c)
        i = r.randint(0, n - 2)
        d = float(r.choice(list(evo_pair_angles(poses, i))))
        if r.random() < 0.6:
            c.update({"fn": "angle", "deg": False, "delta": d, "t": r.choice([0.0, 0.0, d / 2])})
        else:
            c.update({"fn": "delta", "unit": "rad", "delta": d, "t": r.choice([0.0, 0.5, 1.0])})
        yield c


def rpe_cases(ctx, r, L, INC):
    """the class route metrics.RPE(...).process_data on exact-grid trajectories: tolerances 0, values hit
    exactly, 0.05, 0.1 and omitted (= default 0.1); all units; both pairing modes; both trajectories"""
    th = ctx.thorough
    TOLS = [0.0, 0.0, 0.0, 0.25, 0.5, 1.0, 0.05, 0.1, None]
    for _ in range(450 if not th else 4000):
        n = r.randint(2, 8)
        lens = [r.choice(L + [1, 1, 2]) for _ in range(n - 1)]
        incs = [r.choice(INC + [1, 1, 2]) for _ in range(n - 1)]
        rk = [r.randint(0, 15)]
        for x in incs:
            rk.append(rk[-1] + x)
        base = {"kind": "grid", "fn": "delta", "via": "rpe", "pos": grid_positions(r, lens), "rk": rk, "axis": r.randint(0, 2)}
        for u in ("m", "rad", "deg", "f"):
            allp = r.random() < 0.65
            t = r.choice(TOLS)
            c = {**base, "unit": u, "all": allp, "from_ref": r.random() < 0.5, "t": 0.1 if t is None else t}
            # the pair selection must not depend on the pose relation being evaluated, nor on the route (class / rpe())
            c["rel"] = r.choice(["translation_part", "translation_part", "rotation_part", "full_transformation",
                                 "rotation_angle_rad", "rotation_angle_deg", "point_distance", "point_distance"])
            if r.random() < 0.35:
                c["api"] = True
            if t is None:
                c["t_omitted"] = True
            if u == "m":
                c["delta"] = r.choice(half_grid(r, min(sum(lens), 12) + 1, 30))
            elif u == "f":
                c["delta"] = float(r.randint(1, n))
            else:
                du = r.choice(half_grid(r, 8.5, 30))
                if u == "rad":
                    c.update({"delta": du * np.pi / 8, "dm": str(Fraction(du))})
                    if r.random() < 0.6:
                        c = snap_angle_delta(r, c)
                else:
                    c["delta"] = du * 22.5
            yield c
    yield {"kind": "grid", "fn": "delta", "via": "rpe", "unit": "other", "all": False, "from_ref": False,
           "pos": grid_positions(r, [1, 1, 1]), "delta": 1.0, "t": 0.1}


def history_cases(ctx, r, L, INC):
    """L1 with the same objects: one RPE object, the same two trajectory objects, modified in place between
    the process_data calls (scale by 2 or 1/2, reduce_to_ids, left transform by a 90-degree rotation);
    every prefix of a history is a case, each judged on the pose values of its last call"""
    th = ctx.thorough
    for _ in range(160 if not th else 1500):
        n = r.randint(3, 9)
        lens = [r.choice(L + [1, 1, 2]) for _ in range(n - 1)]
        rk = [r.randint(0, 15)]
        for _ in range(n - 1):
            rk.append(rk[-1] + r.choice(INC + [1, 1, 2]))
        init = {"pos": [[2.0 * x for x in p] for p in grid_positions(r, lens)], "rk": rk, "axis": r.randint(0, 2)}
        ops, halved, cur_n = [], False, n
        for _ in range(r.randint(1, 3)):
            kind = r.choice(["scale", "scale", "reduce", "reduce", "transform"])
            if kind == "scale":
                f = 2.0 if halved or r.random() < 0.5 else 0.5
                halved = halved or f == 0.5
                ops.append(["scale", f])
            elif kind == "reduce" and cur_n > 2:
                ids = sorted(r.sample(range(cur_n), r.randint(2, cur_n - 1)))
                cur_n = len(ids)
                ops.append(["reduce", ids])
            else:
                ops.append(["transform", r.randint(1, 3), [float(2 * r.randint(-3, 3)) for _ in range(3)]])
        u = r.choice(["m", "m", "m", "rad", "deg", "f"])
        if u == "m" and r.random() < 0.45:
            # an in-place projection between two evaluations (meters only: the selection then looks at positions alone);
            # at most one, a second projection of the same object is refused
            ops.insert(r.randint(0, len(ops)), ["project", r.randint(0, 2)])
            ops = ops[:3]
        if any(op[0] in ("reduce", "project") for op in ops):      # any subset / projection must keep integer step lengths: poses on a line
            e, x0 = r.choice(AX), [2.0 * r.randint(-3, 3) for _ in range(3)]
            acc = [0] + [sum(lens[:k + 1]) for k in range(n - 1)]
            init["pos"] = [[a + 2.0 * d * b for a, b in zip(x0, e)] for d in acc]
            if not any(op[0] == "reduce" for op in ops):
                # projection only: axis-parallel steps in changing directions — the steps along the plane normal vanish,
                # the others keep their (integer) length, so the pairs before and after the projection differ
                p_, pts = list(x0), [list(x0)]
                for ln in lens:
                    ax_ = r.randrange(3)
                    p_ = [v + (2.0 * ln * r.choice((-1, 1)) if i == ax_ else 0.0) for i, v in enumerate(p_)]
                    pts.append(list(p_))
                init["pos"] = pts
        c = {"kind": "grid", "fn": "delta", "via": "rpe", "unit": u, "all": r.random() < 0.5, "from_ref": r.random() < 0.6,
             "t": r.choice([0.0, 0.5, 0.1, 0.25]), "init": init}
        if u == "m":
            c["delta"] = r.choice(half_grid(r, min(2 * sum(lens), 12) + 1, 40))
        elif u == "f":
            c["delta"] = float(r.randint(1, 4))
        elif u == "rad":
            du = r.choice(half_grid(r, 8, 30))
            c.update({"delta": du * np.pi / 8, "dm": str(Fraction(du))})
        else:
            c["delta"] = r.choice(half_grid(r, 8, 30)) * 22.5
        for k in range(1, len(ops) + 1):
            yield {**c, "ops": ops[:k]}


def gen_cases(ctx):
    """all streams; a third of the exact-grid cases hand the poses over in another flavour (L3), a third of
    the class-route cases reuse the RPE object / build the trajectory another way (L1, L4)"""
    r2 = random.Random(f"C10-decor/{ctx.seed}")
    yield from intdiag_cases(ctx, random.Random(f"C10-intdiag/{ctx.seed}"))
    yield from nearmiss_cases(ctx, random.Random(f"C10-nearmiss/{ctx.seed}"))
    for c in gen_base(ctx):
        if "init" in c:
            yield c
            continue
        if c["kind"] in ("grid", "fgrid") and len(c["pos"]) >= 1 and r2.random() < 0.3:
            fl = r2.choice(FLAVOURS)
            if flavour_ok(c, fl):
                c = {**c, "flavour": fl}
        if c.get("via") == "rpe" and c["unit"] != "other":
            x = r2.random()
            if x < 0.25:
                prev = []
                for _ in range(r2.randint(1, 2)):
                    n = r2.randint(2, 9)
                    prev.append({"pos": grid_positions(r2, [r2.choice([0, 1, 2, 3, 5]) for _ in range(n - 1)]),
                                 "rk": [r2.randint(0, 15) for _ in range(n)], "axis": r2.randint(0, 2)})
                c = {**c, "prev": prev}
            elif x < 0.5 and c.get("flavour") not in ("int", "f32"):
                pre = r2.sample(["positions_xyz", "orientations_quat_wxyz", "poses_se3", "check"], r2.randint(0, 3))
                c = {**c, "preread": pre}
                if c["unit"] in ("m", "f") and r2.random() < 0.6 and not c.get("flavour"):
                    c["route"] = "pq"
        yield c


def structured_cases(ctx, r, L, INC):
    """L5: sizes 2^k-1, 2^k, 2^k+1; L8: delta exactly 0 / negative / non-integer frames (outside the
    property's quantifier: correspondence only)"""
    th = ctx.thorough
    sizes = [9, 15, 16, 17, 31, 32, 33, 63, 64, 65] + ([127, 128, 129, 255, 256, 257] if th else [128])
    for n in sizes:
        for d in sorted({1, 2, 3, n // 2, n - 1, n, n + 1}):
            for allp in (False, True):
                yield {"kind": "grid", "fn": "index", "all": allp, "pos": [[float(k), 0.0, 0.0] for k in range(n)],
                       "delta": float(d), "t": 0.0}
        for _ in range(2 if not th else 6):
            lens = [r.choice(L + [1, 1, 0]) for _ in range(n - 1)]
            pos = grid_positions(r, lens)
            d = r.choice(half_grid(r, min(sum(lens), 40) + 1, 200))
            yield {"kind": "grid", "fn": "path", "all": False, "pos": pos, "delta": d, "t": 0.0}
            yield {"kind": "grid", "fn": "path", "all": True, "pos": pos, "delta": d, "t": r.choice([0.0, 0.5, 1.0, 2.5])}
            rk = [r.randint(0, 15)]
            for _ in range(n - 1):
                rk.append(rk[-1] + r.choice(INC + [0, 0, 1]))
            du = r.choice(half_grid(r, 8, 30))
            for allp in (False, True):
                tu = 0.0 if not allp else r.choice([0.0, 0.5, 1.0])
                yield {"kind": "grid", "fn": "angle", "all": allp, "deg": False, "pos": pos, "rk": rk, "axis": r.randint(0, 2),
                       "delta": du * np.pi / 8, "t": tu * np.pi / 8, "dm": str(Fraction(du)), "tm": str(Fraction(tu))}
            u = r.choice(["m", "deg", "f"])
            yield {"kind": "grid", "fn": "delta", "via": "rpe", "unit": u, "all": r.random() < 0.5, "from_ref": r.random() < 0.5,
                   "pos": pos, "rk": rk, "axis": 2, "t": r.choice([0.0, 0.5, 0.1]),
                   "delta": d if u == "m" else du * 22.5 if u == "deg" else float(r.randint(1, n))}
    # degenerate deltas
    for _ in range(60 if not th else 400):
        n = r.randint(2, 8)
        pos = grid_positions(r, [r.choice(L) for _ in range(n - 1)])
        rk = [r.randint(0, 15) for _ in range(n)]
        base = {"kind": "grid", "pos": pos, "rk": rk, "axis": r.randint(0, 2)}
        d = r.choice([0.0, 0.0, -1.0, -0.5])
        for allp in (False, True):
            yield {**base, "fn": "path", "all": allp, "delta": d, "t": r.choice([0.0, 1.0])}
            yield {**base, "fn": "angle", "all": allp, "deg": r.random() < 0.5, "delta": d, "t": 0.0}
            u = r.choice(["m", "rad", "deg"])
            yield {**base, "fn": "delta", "unit": u, "all": allp, "delta": d, "t": r.choice([0.0, 0.5])}
            u = r.choice(["m", "rad", "deg", "f"])
            yield {**base, "fn": "delta", "via": "rpe", "unit": u, "all": allp, "from_ref": False,
                   "delta": r.choice([2.5, 1.5, -1.0, 2.0]) if u == "f" else d, "t": r.choice([0.0, 0.5])}
        yield {**base, "fn": "delta", "unit": "f", "all": r.random() < 0.5, "delta": r.choice([1.5, 2.5, 2.0, 1.0]), "t": 0.1}


def gen_base(ctx):
    r = ctx.rng
    th = ctx.thorough
    # ---- corpus (hand-made seeds: delta hit exactly, nothing reaches, stand-still, loop closure)
    yield {"kind": "grid", "fn": "path", "all": False, "pos": grid_positions(r, [1, 1, 1, 1]), "delta": 2.0, "t": 0.0}
    yield {"kind": "grid", "fn": "path", "all": True, "pos": grid_positions(r, [1, 1, 1, 1]), "delta": 2.0, "t": 0.0}
    yield {"kind": "grid", "fn": "path", "all": True, "pos": grid_positions(r, [1, 3, 1]), "delta": 2.0, "t": 1.0}
    yield {"kind": "grid", "fn": "delta", "unit": "m", "all": False, "pos": grid_positions(r, [1, 1]), "delta": 2.0, "t": 0.5}
    yield {"kind": "grid", "fn": "delta", "unit": "f", "all": False, "pos": grid_positions(r, [1, 1]), "delta": 2.0, "t": 0.5}
    yield {"kind": "grid", "fn": "delta", "unit": "f", "all": True, "pos": grid_positions(r, [1, 1]), "delta": 3.0, "t": 0.5}
    # ---- frames: exhaustive
    for n in range(0, 13 if not th else 30):
        for d in range(1, n + 3):
            for allp in (False, True):
                yield {"kind": "grid", "fn": "index", "all": allp, "pos": [[float(k), 0.0, 0.0] for k in range(n)],
                       "delta": float(d), "t": 0.0}
                if n >= 1 and d <= n:
                    yield {"kind": "grid", "fn": "delta", "unit": "f", "all": allp,
                           "pos": [[float(k), 0.0, 0.0] for k in range(n)], "delta": float(d), "t": 0.1}
    # ---- path, exact grid: exhaustive over step sequences for 2..nmax poses, sampled above
    L = [0, 1, 2, 3, 5]
    nmax = 5 if not th else 6
    tols = [0.0, 0.5, 1.0, 1.5, 3.0]

    def path_cases(lens, deltas):
        for d in deltas:
            pos = grid_positions(r, lens)
            rf = rot_filler(r, len(pos)) if r.random() < 0.3 else {}
            yield {"kind": "grid", "fn": "path", "all": False, "pos": pos, "delta": d, "t": 0.0, **rf}
            yield {"kind": "grid", "fn": "path", "all": True, "pos": pos, "delta": d, "t": r.choice(tols), **rf}
            if r.random() < 0.25:
                yield {"kind": "grid", "fn": "delta", "unit": "m", "all": r.random() < 0.5, "pos": pos, "delta": d,
                       "t": r.choice([0.0, 0.25, 0.5, 1.0, 0.1, 0.1]), **rf}
    for n in range(2, nmax + 1):
        for lens in seqs(L, n - 1):
            tot = sum(lens)
            yield from path_cases(lens, half_grid(r, min(tot, 9) + 1, 4 if not th or n == 6 else 8))
    for _ in range(700 if not th else 6000):
        n = r.randint(6, 8)
        lens = [r.choice(L + [1, 1, 0, 10]) for _ in range(n - 1)]
        yield from path_cases(lens, half_grid(r, min(sum(lens), 14) + 1, 2))
    # ---- angle, exact grid (unit pi/8)
    INC = [0, 1, 2, 3, 5, 8, -1, -2]

    def angle_cases(incs, deltas):
        n = len(incs) + 1
        for du in deltas:
            k0 = r.randint(0, 15)
            rk = [k0]
            for x in incs:
                rk.append(rk[-1] + x)
            base = {"kind": "grid", "pos": grid_positions(r, [r.choice(L) for _ in range(n - 1)]) if r.random() < 0.3
                    else [[0.0, 0.0, 0.0]] * n, "rk": rk, "axis": r.randint(0, 2)}
            for allp in (False, True):
                tu = 0.0 if not allp else r.choice([0.0, 0.0, 0.5, 1.0, 2.0])
                mode = r.random()
                if mode < 0.6:       # radians, direct call
                    c = {**base, "fn": "angle", "all": allp, "deg": False, "delta": du * np.pi / 8, "t": tu * np.pi / 8,
                         "dm": str(Fraction(du)), "tm": str(Fraction(tu))}
                    if r.random() < 0.7:
                        c = snap_angle_delta(r, c)
                elif mode < 0.75:    # degrees, direct call
                    c = {**base, "fn": "angle", "all": allp, "deg": True, "delta": du * 22.5, "t": tu * 22.5}
                else:                # through id_pairs_from_delta
                    u = r.choice(["rad", "deg"])
                    rel = r.choice([0.0, 0.25, 0.5, 1.0, 0.1])
                    c = {**base, "fn": "delta", "unit": u, "all": allp, "t": rel}
                    if u == "rad":
                        c.update({"delta": du * np.pi / 8, "dm": str(Fraction(du))})
                        if r.random() < 0.7:
                            c = snap_angle_delta(r, c)
                    else:
                        c.update({"delta": du * 22.5})
                yield c
    for n in range(2, (4 if not th else 5) + 1):
        for incs in seqs(INC, n - 1):
            tot = sum(wrap16(x) for x in incs)
            yield from angle_cases(incs, half_grid(r, min(tot, 8) + 1, 3 if not th else 4))
    for _ in range(350 if not th else 3000):
        n = r.randint(5, 8)
        incs = [r.choice(INC + [1, 1, 2]) for _ in range(n - 1)]
        yield from angle_cases(incs, half_grid(r, 9, 2))
    yield from fgrid_cases(ctx, r, L, INC)
    yield from rpe_cases(ctx, r, L, INC)
    yield from structured_cases(ctx, r, L, INC)
    yield from history_cases(ctx, r, L, INC)
    for u in ("other",):
        yield {"kind": "grid", "fn": "delta", "unit": u, "all": False, "pos": grid_positions(r, [1, 1, 1]), "delta": 1.0, "t": 0.1}
    # ---- random stream
    nr = 60 if not th else 300
    for q in range(nr):
        big = (q % 12 == 0)
        n = r.randint(2000, 3000) if big else r.choice([r.randint(2, 12), r.randint(10, 120), r.randint(100, 400)])
        off = r.choice([0.0, 0.0, 1e3, 4.5e5 + r.random() * 1e5])
        step = r.choice([0.01, 0.1, 0.5, 2.0])
        shape = r.choice(["walk", "line", "loop", "standstill"])
        p = np.array([off + r.uniform(-1, 1), off / 3 + r.uniform(-1, 1), r.uniform(-1, 1)])
        pos, rv = [], []
        w = np.array([r.uniform(-1, 1) for _ in range(3)]) * 0.1
        head = r.uniform(0, 2 * math.pi)
        for k in range(n):
            pos.append([float(x) for x in p])
            rv.append([float(x) for x in w])
            if shape == "standstill" and r.random() < 0.3:
                continue
            head += r.gauss(0, 0.2) if shape != "line" else 0.0
            if shape == "loop":
                head += 2 * math.pi / max(n, 3)
            s = step * r.uniform(0.5, 1.5)
            p = p + np.array([s * math.cos(head), s * math.sin(head), r.gauss(0, 0.05 * step)])
            w = w + np.array([r.gauss(0, 0.05), r.gauss(0, 0.05), r.gauss(0, 0.15)])
            nw = float(np.sqrt(w @ w))
            if nw > 3.0:
                w = w * (3.0 / nw)
        base = {"kind": "random", "shape": shape, "pos": pos, "rv": rv}
        total = step * n
        dpath = r.choice([step * r.uniform(1, 8), total * r.uniform(0.05, 0.5), total * 2, float(round(step * 4, 3))])
        yield {**base, "fn": "path", "all": False, "delta": dpath, "t": 0.0}
        yield {**base, "fn": "delta", "unit": "m", "all": False, "delta": dpath, "t": 0.1}
        dang = r.choice([r.uniform(0.05, 1.0), r.uniform(0.5, 3.1), 0.5])
        yield {**base, "fn": "angle", "all": False, "deg": False, "delta": dang, "t": 0.0}
        yield {**base, "fn": "delta", "unit": "deg", "all": False, "delta": math.degrees(dang), "t": 0.1}
        rt = r.choice([0.05, 0.1, 0.3])
        if n <= 400 or (th and q == 0):
            yield {**base, "fn": "path", "all": True, "delta": dpath, "t": dpath * r.choice([0.01, 0.1, 0.3])}
            yield {**base, "fn": "delta", "unit": "m", "all": True, "delta": dpath, "t": r.choice([0.1, 0.02])}
        if n <= 120:
            if r.random() < 0.3:
                yield {**base, "fn": "angle", "all": True, "deg": True, "delta": math.degrees(dang), "t": math.degrees(dang * rt)}
            else:
                yield {**base, "fn": "angle", "all": True, "deg": False, "delta": dang, "t": dang * rt}
            u = r.choice(["rad", "deg"])
            yield {**base, "fn": "delta", "unit": u, "all": True, "delta": dang if u == "rad" else math.degrees(dang),
                   "t": r.choice([0.1, 0.3])}


# ----------------------------------------------------------------------------- shrinking / driver
def shrink(case):
    if "init" in case:      # histories: drop operations from the front instead of poses
        if len(case["ops"]) > 1:
            c = {k: v for k, v in case.items() if k not in ("pos", "rk")}
            c["init"] = apply_ops_spec(case["init"], case["ops"][:1])
            c["ops"] = case["ops"][1:]
            yield c
        return
    n = len(case["pos"])
    if n > 2:
        for cut in sorted({n // 2, max(n // 4, 1), 1}, reverse=True):
            for start in range(0, n, cut):
                c = dict(case)
                for key in ("pos", "rk", "rv"):
                    if key in case:
                        c[key] = case[key][:start] + case[key][start + cut:]
                if len(c["pos"]) >= 1:
                    yield c


def evaluate(ctx, cases):
    preps, impls, lines, spans = [], [], [], []
    cases = [materialise(c) for c in cases]
    for c in cases:
        P = prepare(c)
        ml = model_lines(c, P)
        spans.append((len(lines), len(ml)))
        lines += ml
        preps.append(P)
        impls.append(run_impl(c))
    outs = core.run_driver(lines)
    for c, P, impl, (a, k) in zip(cases, preps, impls, spans):
        try:
            judge(ctx, c, P, impl, outs[a:a + k])
        except Exception as e:  # noqa: BLE001 -- what evo returned could not even be judged: a finding about this case, never a tool error
            ctx.fail(c, "output-cannot-be-judged", f"the harness could not judge what evo returned: {type(e).__name__}: {str(e)[:200]}")


def f19_probe(ctx):
    """Finding F19 (DESIGN.md section 6): the all-pairs branch of filter_pairs_by_path subtracts two accumulated path
    lengths, so a short step after a very long leg is lost. Two fixed, exactly representable inputs, judged directly
    against the property sentence ("every i that has such a j is reported once"); listed in known_findings.json by
    exactly these inputs. Not part of the model streams (no driver line), run after shrinking."""
    import numpy as np
    from evo.core import filters

    def pose(p):
        t = np.eye(4)
        t[:3, 3] = p
        return t
    for name, pos, delta in (("integer-legs", [[0.0, 0.0, 0.0], [2.0 ** 53, 0.0, 0.0], [2.0 ** 53, 1.0, 0.0]], 1.0),
                             ("float-legs", [[0.0, 0.0, 0.0], [2.0 ** 30, 0.0, 0.0], [2.0 ** 30, 3 * 2.0 ** -23, 0.0]], 3 * 2.0 ** -23)):
        case = {"kind": "f19-probe", "name": name, "pos": pos, "delta": delta, "tol": 0.0, "all_pairs": True}
        try:
            got = [tuple(int(x) for x in pr) for pr in filters.filter_pairs_by_path([pose(p) for p in pos], delta, 0.0, all_pairs=True)]
        except Exception as e:      # noqa: BLE001
            got = "EXC:" + type(e).__name__
        ctx.count("dist", "f19-probe:" + name)
        if got == "EXC:FilterException" or (isinstance(got, list) and (1, 2) not in got):
            ctx.fail(case, "every-i-reported", f"{name}: pose 1 has the partner pose 2 at path length exactly delta={delta} "
                     f"(tolerance 0) but all-pairs returned {got}", {"f19_fixed_input": name})
        elif not isinstance(got, list):
            ctx.fail(case, "unexpected-exception", f"{name}: {got}", {})


def check(ctx):
    lean = core.lean_side(ctx.prop, ctx.tier)
    core.drift(ctx, MODELLED)
    cases = list(gen_cases(ctx))
    for a in range(0, len(cases), 4000):
        evaluate(ctx, cases[a:a + 4000])
    core.shrink_all(ctx, shrink, evaluate)
    f19_probe(ctx)
    return core.finish(
        ctx, lean, rule=RULE,
        open_clauses=[
            "step lengths and rotation angles are parameters of the model (irrational in general): the harness computes them "
            "itself (exact on the grid; float64 with a slack on the random stream); the relative-angle function is C09's subject",
            "float rounding of the accumulated sums: random cases whose smallest decision margin is within the slack are skipped; "
            "grid angle thresholds hit exactly in units are compared only when evo's float angle values hit the float threshold "
            "exactly as well (counted under model_branches_hit)",
            "frames: delta >= 1 (int(delta) = 0 is outside the property: numpy raises for a zero step)"],
        assumptions=["delta > 0 (frames: delta >= 1), tolerance >= 0, at least one pose for the path selector"])


def replay(ctx, data):
    core.sh("lake build drv_C10", cwd=core.LEAN)
    case = data["case"]
    # process-level state (L2): a same-shaped twin with other values is run first in the same process
    twin = {**case, "pos": [[2.0 * x for x in p] for p in case["pos"]]}
    if case["kind"] == "grid" and "dm" not in case and not case.get("flavour") in ("int", "f32"):
        try:
            evaluate(core.Ctx(ctx.prop, ctx.tier, ctx.seed), [twin])
        except Exception:      # noqa: BLE001
            pass
    evaluate(ctx, [case])
    return core.finish_replay(ctx)
