"""C11 — sub-sampling, cropping, splitting, merging (evo/core/trajectory.py, evo/core/filters.py).
Model: lean/EvoModel/Model/Select.lean; driver ops: lean/EvoModel/Drv/C11.lean."""
import itertools
import math
from concurrent.futures import ThreadPoolExecutor

import numpy as np
import core
from core import Fraction, frac, rat, ratlist

RULE = ("downsample: EVERY (n, N) with 1 <= N <= n+2, n <= 400 (quick) / 700 (thorough) plus random pairs up to n = 5000, "
        "ids compared exactly with the rne-rounded model, three trajectory representations; motion filter / crop / three "
        "splitters / merge: exact-grid stream (3-4-5 step vectors, dyadic stamps, quarter-turn rotations, thresholds hit "
        "exactly, stationary stretches, jumps) compared exactly, random stream (epoch stamps, random geometry, long planar "
        "trajectories up to 1000 / 5000 poses) compared when every decision clears the float slack 2^-40 x magnitude; "
        "histories of 2-4 operations on ONE object (reads of derived arrays, selectors, splitters with the object kept, merge), "
        "every step compared with the model applied to the current abstract trajectory, both construction routes; "
        "merge ties compared as sets; non-trivial = something dropped/cut and something kept; distinct by content hash")

SLACK = Fraction(1, 2 ** 40)

# every evo function the model Evo.Select mirrors (drift sentinel, see core.drift)
MODELLED = ["evo/common_ape_rpe.py:downsample_or_filter", "evo/core/trajectory.py:PosePath3D.reduce_to_ids", "evo/core/trajectory.py:PoseTrajectory3D.reduce_to_ids",
            "evo/core/trajectory.py:PosePath3D.downsample", "evo/core/trajectory.py:PosePath3D.motion_filter",
            "evo/core/filters.py:filter_by_motion", "evo/core/trajectory.py:PoseTrajectory3D.reduce_to_time_range",
            "evo/core/trajectory.py:PosePath3D._jumps", "evo/core/trajectory.py:PosePath3D.split_distance_gaps",
            "evo/core/trajectory.py:PoseTrajectory3D.split_time_gaps", "evo/core/trajectory.py:PoseTrajectory3D.split_distance_gaps",
            "evo/core/trajectory.py:PoseTrajectory3D.split_speed_outliers", "evo/core/trajectory.py:PoseTrajectory3D.speeds",
            "evo/core/trajectory.py:calc_speed", "evo/core/geometry.py:accumulated_distances", "evo/core/trajectory.py:merge"]

# ----------------------------------------------------------------------------- geometry helpers (harness side, exact)
STEPS = [(3, 4, 0), (0, 3, 4), (4, 0, 3), (5, 12, 0), (1, 2, 2), (2, 3, 6), (0, 0, 1), (1, 0, 0), (0, 0, 0),
         (-3, -4, 0), (0, -5, 12), (-2, 6, -3), (8, 9, 12), (0, 0, 0)]


def _group24():
    mats = []
    for perm in itertools.permutations(range(3)):
        for signs in itertools.product([1, -1], repeat=3):
            m = [[0] * 3 for _ in range(3)]
            for i in range(3):
                m[i][perm[i]] = signs[i]
            det = (m[0][0] * (m[1][1] * m[2][2] - m[1][2] * m[2][1]) - m[0][1] * (m[1][0] * m[2][2] - m[1][2] * m[2][0])
                   + m[0][2] * (m[1][0] * m[2][1] - m[1][1] * m[2][0]))
            if det == 1:
                mats.append(m)
    return mats


G24 = _group24()
TRACE_DEG = {3: 0, 1: 90, 0: 120, -1: 180}


def g24_angle_deg(j, i):
    a, b = G24[j], G24[i]
    tr = sum(a[r][c] * b[r][c] for r in range(3) for c in range(3))      # trace(aᵀ b)
    return TRACE_DEG[tr]


def isqrt_frac(q):
    """exact square root of a non-negative Fraction if it is a perfect square, else None"""
    n, d = q.numerator, q.denominator
    a, b = math.isqrt(n), math.isqrt(d)
    return Fraction(a, b) if a * a == n and b * b == d else None


def norm_frac(v):
    """(norm as Fraction, exact?) of a float vector"""
    q = sum(frac(x) ** 2 for x in v)
    r = isqrt_frac(q)
    if r is not None:
        return r, True
    return frac(math.sqrt(float(q))), False


def positions_of(steps, start=(0.0, 0.0, 0.0)):
    p = [list(map(float, start))]
    for s in steps:
        p.append([p[-1][k] + float(s[k]) for k in range(3)])
    return p


def quat_to_mat(q):
    w, x, y, z = q
    return np.array([[1 - 2 * (y * y + z * z), 2 * (x * y - z * w), 2 * (x * z + y * w)],
                     [2 * (x * y + z * w), 1 - 2 * (x * x + z * z), 2 * (y * z - x * w)],
                     [2 * (x * z - y * w), 2 * (y * z + x * w), 1 - 2 * (x * x + y * y)]])


def rotz_deg(h):
    if h % 90 == 0:
        c, s = [(1, 0), (0, 1), (-1, 0), (0, -1)][int(h // 90) % 4]
    else:
        c, s = math.cos(math.radians(h)), math.sin(math.radians(h))
    return np.array([[c, -s, 0.0], [s, c, 0.0], [0.0, 0.0, 1.0]])


def angle_between(ra, rb):
    """rotation angle of raᵀ rb (radians), atan2 form, independent of evo/scipy"""
    r = ra.T @ rb
    c = (r[0, 0] + r[1, 1] + r[2, 2] - 1.0) / 2.0
    w = np.array([r[2, 1] - r[1, 2], r[0, 2] - r[2, 0], r[1, 0] - r[0, 1]]) / 2.0
    return math.atan2(math.sqrt(float(w @ w)), c)


def se3(r, t):
    m = np.eye(4)
    m[:3, :3] = r
    m[:3, 3] = t
    return m


FLAVOURS = ["int", "f32", "strided", "readonly", "list", "shared"]


def flav(a, f):
    """the same values as another array flavour (value-preserving only: integral -> int64, float32 only if exact)"""
    a = np.asarray(a, dtype=float)
    if f == "int":
        return a.astype(np.int64) if a.size and np.all(a == np.round(a)) else a
    if f == "f32":
        b = a.astype(np.float32)
        return b if np.array_equal(b.astype(float), a) else a
    if f == "strided":
        big = np.zeros((2 * a.shape[0],) + a.shape[1:])
        big[::2] = a
        return big[::2]
    if f == "readonly":
        b = a.copy()
        b.setflags(write=False)
        return b
    if f == "list":
        return a.tolist()
    return a


def flav_ts(a, f):
    """stamps: not as float32 (numpy compares a float32 array with a Python float in float32: bounds would be rounded)"""
    return flav(a, None if f == "f32" else f)


def flav_pose(m, f):
    # int / float32 pose MATRICES are not supported by evo under numpy 2 (quaternion_from_matrix uses
    # numpy.array(..., dtype=float64, copy=False), which raises): matrices stay float64
    if f == "strided":
        big = np.zeros((8, 8))
        big[::2, ::2] = m
        return big[::2, ::2]
    if f == "readonly":
        b = m.copy()
        b.setflags(write=False)
        return b
    return m


def flav_poses(mats, f):
    """list of 4x4 matrices in flavour f; 'shared': equal consecutive poses are ONE ndarray object ([P]*k)"""
    out = []
    for m in mats:
        if f == "shared" and out and np.array_equal(out[-1], m):
            out.append(out[-1])
        else:
            out.append(flav_pose(m, f))
    return out


# ----------------------------------------------------------------------------- generators
def gen_ds(ctx):
    r = ctx.rng
    nmax = 700 if ctx.thorough else 400
    reps = ["xyz", "se3", "path"]
    for n in range(1, nmax + 1):
        for N in range(1, n + 3):
            yield {"kind": "ds", "n": n, "N": N, "rep": reps[(n + N) % 3]}
    for n in (1, 2, 5, 50):
        yield {"kind": "ds", "n": n, "N": 0, "rep": "xyz"}
    # structured sizes 2^k-1, 2^k, 2^k+1 beyond the exhaustive range; N as numpy integer; array flavours
    pw = sorted({2 ** k + d for k in range(1, 13) for d in (-1, 0, 1)} - {0})
    for n in [x for x in pw if x > nmax]:
        for N in [x for x in pw if x <= n + 1 and (x < 40 or x * 8 >= n)] + [n - 1, n, n + 1]:
            yield {"kind": "ds", "n": n, "N": N, "rep": reps[(n + N) % 3], "Ntype": ("int", "np64", "np32")[(n + N) % 3]}
    for k in range(240):
        n = r.choice(pw[:24] + [r.randint(2, 300)])
        yield {"kind": "ds", "n": n, "N": r.randint(1, n + 1), "rep": reps[k % 3], "Ntype": r.choice(["np64", "np32", "int"]),
               "flavour": FLAVOURS[k % 6]}
    for _ in range(2500 if ctx.thorough else 300):
        n = r.randint(nmax + 1, 5000)
        N = r.choice([r.randint(1, n + 2), r.randint(1, n + 2), r.randint(2, 60), n - r.randint(1, 5), (n - 1) // r.randint(2, 40) + 1])
        yield {"kind": "ds", "n": n, "N": max(N, 1), "rep": r.choice(reps)}


def grid_steps(r, n, scale):
    out = []
    for _ in range(n - 1):
        s = r.choice(STEPS)
        if r.random() < 0.15:
            s = (0, 0, 0)
        if r.random() < 0.1:
            s = tuple(8 * x for x in s)          # a jump
        out.append([x * scale for x in s])
    return out


def gen_motion(ctx):
    r = ctx.rng
    # corpus: the first pose only (stationary, no rotation, positive thresholds), every pose (zero thresholds)
    yield {"kind": "motion", "mode": "grid", "steps": [[0, 0, 0]] * 4, "rots": [0] * 5, "d": 1.0, "a": 45.0, "degrees": True}
    yield {"kind": "motion", "mode": "grid", "steps": [[0, 0, 0]] * 4, "rots": [0] * 5, "d": 0.0, "a": 45.0, "degrees": True}
    yield {"kind": "motion", "mode": "grid", "steps": [[0, 0, 0]] * 4, "rots": [0] * 5, "d": 1.0, "a": 0.0, "degrees": True}
    yield {"kind": "motion", "mode": "grid", "steps": [[3, 4, 0]] * 6, "rots": [0] * 7, "d": 10.0, "a": 45.0, "degrees": True}
    yield {"kind": "motion", "mode": "grid", "steps": [], "rots": [0], "d": 1.0, "a": 1.0, "degrees": False}
    yield {"kind": "motion", "mode": "grid", "steps": [[3, 4, 0]], "rots": [0, 1], "d": -1.0, "a": 1.0, "degrees": False}
    yield {"kind": "motion", "mode": "grid", "steps": [[3, 4, 0]], "rots": [0, 1], "d": 1.0, "a": -1.0, "degrees": False}
    for _ in range(6000 if ctx.thorough else 1500):
        n = r.randint(2, 14)
        scale = r.choice([1, 1, 0.5, 0.25, 2])
        steps = grid_steps(r, n, scale)
        style = r.random()
        if style < 0.3:
            rots = [r.randrange(24)] * n
        elif style < 0.6:
            rots, g = [], r.randrange(24)
            for _ in range(n):
                if r.random() < 0.3:
                    g = r.randrange(24)
                rots.append(g)
        else:
            rots = [r.randrange(24) for _ in range(n)]
        d = r.choice([0, 5, 10, 13, 3, 7, 15, 20, 25, 26, 1000]) * scale
        a = r.choice([0, 0, 45, 100, 150, 200, 1000])
        c = {"kind": "motion", "mode": "grid", "steps": steps, "rots": rots, "d": float(d), "a": float(a), "degrees": True}
        if r.random() < 0.15:
            c["helper"] = r.choice([n, n + 1, 10 * n, 100000])
        yield c
    for _ in range(900 if ctx.thorough else 300):
        n = r.randint(2, 40)
        off = r.choice([0.0, 1e3, 1e6])
        sc = r.choice([1e-3, 0.1, 1.0, 30.0])
        steps = [[r.gauss(0, sc) if r.random() > 0.2 else 0.0 for _ in range(3)] for _ in range(n - 1)]
        quats, q = [], None
        for _ in range(n):
            if q is None or r.random() < 0.5:
                v = [r.gauss(0, 1) for _ in range(4)]
                if q is not None and r.random() < 0.5:       # small rotation of the previous one
                    v = [q[k] + 0.1 * v[k] for k in range(4)]
                nv = math.sqrt(sum(x * x for x in v))
                q = [x / nv for x in v]
            quats.append(q)
        d = r.choice([0.0, sc, 3 * sc, 10 * sc, 1e9])
        deg = r.random() < 0.5
        a = r.choice([0.0, 0.05, 0.3, 1.0, 2.5, 4.0])
        yield {"kind": "motion", "mode": "rand", "steps": steps, "start": [off, -off, 0.5 * off], "quats": quats,
               "d": d, "a": math.degrees(a) if deg else a, "degrees": deg}
    # near misses: the path since the last kept pose misses the distance threshold by a relative 2^-18 .. 2^-30 (far above
    # rounding, far below numpy's isclose defaults): "reached" means >=, exactly. Poses on a line, dyadic coordinates.
    for k in range(60 if ctx.thorough else 24):
        D = r.choice([1.0, 2.0, 8.0, 0.5])
        eps = D * 2.0 ** -r.choice([18, 20, 22, 26, 30])
        steps = [[r.choice([D - eps, D + eps, D, D / 2, D / 2 - eps, D / 2 + eps / 2, D / 4]), 0.0, 0.0] for _ in range(r.randint(3, 8))]
        yield {"kind": "motion", "mode": "rand", "steps": steps, "start": [0.0, 0.0, 0.0], "quats": [[1.0, 0.0, 0.0, 0.0]] * (len(steps) + 1),
               "d": D, "a": 1e6, "degrees": False, "nearmiss": True}
    for k in range(120 if ctx.thorough else 30):
        # one long leg, then short axis-parallel steps (all exactly representable): the path *since the last kept pose*
        # sits half a unit around the threshold; a difference of two long accumulated lengths cannot resolve that
        big = 2.0 ** r.choice([20, 26, 30, 34])
        u = 2.0 ** r.choice([-20, -24, -28])
        ks = [r.randint(1, 5) for _ in range(r.randint(2, 7))]
        steps = [[big, 0.0, 0.0]] + [[0.0, kk * u, 0.0] if r.random() < 0.7 else [0.0, 0.0, kk * u] for kk in ks]
        m = r.randint(1, len(ks))
        D = (sum(ks[:m]) + r.choice([-0.5, 0.0, 0.5])) * u
        yield {"kind": "motion", "mode": "rand", "steps": steps, "start": [0.0, 0.0, 0.0], "quats": [[1.0, 0.0, 0.0, 0.0]] * (len(steps) + 1),
               "d": D, "a": 1e6, "degrees": False, "nearmiss": True, "mixed": True}
    nlong = 5000 if ctx.thorough else 1000
    for k in range(40 if ctx.thorough else 12):
        n = r.randint(200, nlong)
        if k % 2 == 0:
            steps = grid_steps(r, n, 1)
            heads = [90.0 * r.randrange(4)] * n if k % 4 == 0 else None
            if heads is None:
                heads, h = [], 0.0
                for _ in range(n):
                    if r.random() < 0.1:
                        h = 90.0 * r.randrange(4)
                    heads.append(h)
            yield {"kind": "motion", "mode": "planar-grid", "steps": steps, "heads": heads,
                   "d": float(r.choice([5, 25, 100, 1000])), "a": float(r.choice([0, 45, 100, 200])), "degrees": True}
        else:
            steps = [[r.gauss(0, 0.05), r.gauss(0.1, 0.05), 0.0] for _ in range(n - 1)]
            heads, h = [], 0.0
            for _ in range(n):
                h += r.gauss(0, 3.0)
                heads.append(h)
            yield {"kind": "motion", "mode": "planar-rand", "steps": steps, "heads": heads,
                   "d": r.choice([0.5, 2.0, 1e9]), "a": r.choice([5.0, 20.0, 90.0]), "degrees": True}


def grid_stamps(r, n, q):
    s, t = [], r.randint(-8, 8)
    for _ in range(n):
        s.append(t / q)
        t += r.choice([1, 1, 1, 2, 2, 3, 5, 8])
    return s


def rand_stamps(r, n):
    base = r.choice([0.0, 1.5e9 + r.random() * 1e6])
    rate = r.choice([10.0, 30.0, 200.0])
    out, t = [], base
    for _ in range(n):
        out.append(t + r.uniform(-0.2, 0.2) / rate)
        t += 1.0 / rate
        if r.random() < 0.08:
            t += r.uniform(0.1, 3.0)
    return sorted(set(out))


def gen_crop(ctx):
    r = ctx.rng
    yield {"kind": "crop", "ts": [0.0, 1.0, 2.0, 3.0], "s": 1.0, "e": 2.0}
    yield {"kind": "crop", "ts": [0.0, 1.0, 2.0, 3.0], "s": 2.0, "e": 1.0}
    yield {"kind": "crop", "ts": [-5.0, -4.0, 0.0, 4.0], "s": 0.0, "e": None}
    yield {"kind": "crop", "ts": [-5.0, -4.0, 0.0, 4.0], "s": None, "e": 0.0}
    for k in range(4000 if ctx.thorough else 1200):
        if k % 4 == 3:
            ts = rand_stamps(r, r.randint(1, 5000 if (ctx.thorough and k % 40 == 3) else 120))
        else:
            ts = grid_stamps(r, r.randint(1, 12), r.choice([1, 2, 4]))

        def bound():
            c = r.random()
            if c < 0.2:
                return None
            if c < 0.55:
                return r.choice(ts)                       # hit exactly
            if c < 0.7:
                return float(np.nextafter(r.choice(ts), r.choice([-np.inf, np.inf])))
            return r.uniform(ts[0] - 2.0, ts[-1] + 2.0)
        s, e = bound(), bound()
        if s is not None and e is not None and s > e and r.random() < 0.85:
            s, e = e, s
        if k % 10 == 7 and s is not None:
            e = s                                          # start == end
        c = {"kind": "crop", "ts": ts, "s": s, "e": e}
        if k % 6 == 1:                                     # unsorted and duplicate stamps: evo accepts them
            ts2 = list(ts) + [r.choice(ts) for _ in range(r.randint(0, 3))]
            r.shuffle(ts2)
            c["ts"] = ts2
        if k % 7 == 2:
            c["flavour"] = r.choice(FLAVOURS[:5])
        yield c


def gen_split(ctx):
    r = ctx.rng
    yield {"kind": "splitt", "ts": [0.0, 1.0, 3.0, 4.0, 9.0], "thr": 1.0}
    yield {"kind": "splitt", "ts": [0.0, 1.0, 3.0, 4.0, 9.0], "thr": 2.0}
    yield {"kind": "splitt", "ts": [5.0], "thr": 0.0}
    yield {"kind": "splitd", "steps": [[3, 4, 0], [6, 8, 0], [3, 4, 0]], "ts": [0.0, 1.0, 2.0, 3.0], "thr": 5.0}
    yield {"kind": "splitd", "steps": [[6, 8, 0], [3, 4, 0], [3, 4, 0]], "ts": [0.0, 1.0, 2.0, 3.0], "thr": 5.0}
    yield {"kind": "splits", "steps": [[3, 4, 0], [6, 8, 0], [3, 4, 0]], "ts": [0.0, 1.0, 2.0, 3.0], "thr": 5.0}
    yield {"kind": "splits", "steps": [[3, 4, 0], [6, 8, 0]], "ts": [0.0, 1.0, 1.0], "thr": 5.0}
    for k in range(30 if not ctx.thorough else 200):
        # near misses: a gap that exceeds / does not exceed the threshold by a relative 2^-18 .. 2^-30 (cut iff strictly greater)
        thr = r.choice([1.0, 0.5, 2.0])
        eps = thr * 2.0 ** -r.choice([18, 22, 26, 30])
        ts, t = [0.0], 0.0
        for _ in range(r.randint(3, 8)):
            t += r.choice([thr - eps, thr + eps, thr, thr / 2])
            ts.append(t)
        yield {"kind": "splitt", "mode": "grid", "ts": ts, "thr": thr, "nearmiss": True}
    for k in range(40 if not ctx.thorough else 300):
        # steps of very different size (all exactly representable, axis-parallel): one long leg along x, then short steps
        # along y / z whose length or speed sits half a unit next to the threshold - an accumulated path length cannot
        # resolve them, the step itself can
        big = 2.0 ** r.choice([20, 26, 30, 34])
        u = 2.0 ** r.choice([-20, -24, -28])
        nsm = r.randint(2, 7)
        ks = [r.randint(1, 7) for _ in range(nsm)]
        steps = [[big, 0.0, 0.0]] + [[0.0, kk * u, 0.0] if r.random() < 0.7 else [0.0, 0.0, kk * u] for kk in ks]
        if r.random() < 0.3:
            steps.append([-big, 0.0, 0.0])
        dt = r.choice([1.0, 0.5, 2.0])
        ts = [i * dt for i in range(len(steps) + 1)]
        kind = ("splitd", "splits")[k % 2]
        thr = (r.choice(ks) + r.choice([-0.5, 0.0, 0.5])) * u
        if kind == "splits":
            thr = thr / dt
        yield {"kind": kind, "mode": "grid", "steps": steps, "ts": ts, "thr": float(thr), "nearmiss": True, "mixed": True}
    for k in range(6000 if ctx.thorough else 1800):
        kind = ("splitt", "splitd", "splits")[k % 3]
        if k % 5 != 4:      # exact grid
            n = r.randint(1, 14)
            q = r.choice([1, 2, 4])
            if kind == "splits":
                ts, t = [], float(r.randint(-4, 4))
                for _ in range(n):
                    ts.append(t)
                    t += r.choice([0.25, 0.5, 1.0, 1.0, 2.0, 4.0])
                if n > 1 and r.random() < 0.03:
                    j = r.randrange(1, n)
                    ts[j] = ts[j - 1] - r.choice([0.0, 1.0])     # bad stamps: calc_speed raises
            else:
                ts = grid_stamps(r, n, q)
            steps = grid_steps(r, n, r.choice([1, 1, 0.5, 2]))
            if kind == "splitt":
                thr = r.choice([0, 1, 2, 3, 5, 8, 100]) / q
            elif kind == "splitd":
                thr = r.choice([0, 2.5, 3, 5, 7, 10, 13, 25, 26, 40, 1000])
            else:
                thr = r.choice([0, 1, 2.5, 3, 5, 6, 10, 12, 13, 20, 26, 52, 1000])
            c = {"kind": kind, "mode": "grid", "steps": steps, "ts": ts, "thr": float(thr)}
            if k % 11 == 3:
                c["thr"] = -float(r.choice([0.5, 1, 5]))        # negative threshold: every step exceeds it
            if kind != "splits" and k % 9 == 1 and n > 1:
                ts2 = list(ts) + [r.choice(ts)]                  # unsorted + duplicate stamps
                r.shuffle(ts2)
                c["ts"] = ts2[:n]
            if k % 8 == 5:
                c["flavour"] = r.choice(FLAVOURS)
            elif k % 8 in (2, 6) and kind != "splitt":
                # built from positions + quaternions; integer steps incl. diagonal ones (lengths sqrt2, sqrt3, sqrt5 ...):
                # thresholds between the step lengths, so that a length computed in the positions' dtype shows
                c["route"] = "xyzq"
                c["flavour"] = r.choice(["int", "int", "int", "strided", "readonly", "list"])
                if k % 8 == 6:
                    c["steps"] = [[float(r.randint(-2, 2)), float(r.randint(-2, 2)), float(r.choice([0, 0, 1]))] for _ in range(max(n - 1, 0))]
                    c["thr"] = float(r.choice([0.5, 1.2, 1.45, 1.6, 2.1, 2.3, 2.5, 2.9, 3.2]))
                    if kind == "splits":
                        c["ts"] = [float(i) for i in range(n)]
            yield c
        else:
            big = ctx.thorough and k % 50 == 4
            ts = rand_stamps(r, r.randint(1, 5000 if big else 150))
            n = len(ts)
            off = r.choice([0.0, 1e3, 1e6])
            sc = r.choice([1e-3, 0.1, 10.0])
            steps = []
            for _ in range(n - 1):
                s = [r.gauss(0, sc) for _ in range(3)]
                if r.random() < 0.1:
                    s = [0.0, 0.0, 0.0]
                if r.random() < 0.08:
                    s = [30 * x for x in s]
                steps.append(s)
            thr = {"splitt": r.choice([0.0, 0.05, 0.5, 2.0]), "splitd": r.choice([0.0, sc, 5 * sc, 40 * sc]),
                   "splits": r.choice([0.0, 10 * sc, 100 * sc, 1e4 * sc])}[kind]
            yield {"kind": kind, "mode": "rand", "steps": steps, "start": [off, 2 * off, -off], "ts": ts, "thr": thr}


def gen_merge(ctx):
    r = ctx.rng
    yield {"kind": "merge", "stamps": [[0.0, 2.0, 4.0], [1.0, 2.0, 3.0]]}
    yield {"kind": "merge", "stamps": [[5.0, 6.0], [1.0, 2.0]]}
    yield {"kind": "merge", "stamps": [[1.0]]}
    yield {"kind": "merge", "stamps": [[1.0, 2.0]], "twice": 0}
    yield {"kind": "merge", "stamps": [[1.0, 3.0], [2.0, 4.0], [0.0, 5.0]], "twice": 1}
    for k in range(3000 if ctx.thorough else 900):
        m = r.randint(1, 6)
        if k % 3 != 2:
            q = r.choice([1, 2, 4])
            stamps = [grid_stamps(r, r.randint(1, 8 if k % 6 else 40), q) for _ in range(m)]
        else:
            pool = rand_stamps(r, r.randint(m, 5000 if (ctx.thorough and k % 60 == 2) else 200))
            stamps = [[] for _ in range(m)]
            style = r.random()
            for i, t in enumerate(pool):
                if style < 0.5:
                    stamps[r.randrange(m)].append(t)                  # interleaved
                else:
                    stamps[min(m - 1, i * m // len(pool))].append(t)  # consecutive blocks
                if r.random() < 0.05:
                    stamps[r.randrange(m)].append(t)                  # duplicates across / within
            stamps = [sorted(s) for s in stamps if s]
            r.shuffle(stamps)
        c = {"kind": "merge", "stamps": stamps}
        if k % 7 == 3:
            c["stamps"] = [r.sample(x, len(x)) for x in stamps]     # unsorted inputs
        if k % 5 == 1:
            c["twice"] = r.randrange(len(stamps))                    # the same object passed twice
        yield c


READS = ["distances", "distances", "path_length", "speeds", "positions_xyz", "poses_se3", "orientations_quat_wxyz", "check"]


def gen_hist(ctx):
    """histories on ONE object: reads of derived arrays, selectors, splitters (object kept), merge"""
    r = ctx.rng

    def op_read():
        return {"op": "read", "what": r.choice(READS)}

    def op_reduce(n, stamps):
        c = r.random()
        if c < 0.3:
            return {"op": "downsample", "N": r.randint(1, n + 1)}
        if c < 0.55:
            return {"op": "motion", "d": float(r.choice([0, 5, 10, 13, 20, 26, 1000])), "a": float(r.choice([0, 45, 100, 200]))}
        if c < 0.8:
            s, e = r.choice(stamps + [None]), r.choice(stamps + [None])
            if s is not None and e is not None and s > e and r.random() < 0.9:
                s, e = e, s
            return {"op": "crop", "s": s, "e": e}
        return {"op": "ids", "mask": r.getrandbits(n + 2) | (1 << r.randrange(n))}

    def op_split():
        k = r.choice(["splitd", "splitd", "splitt", "splits"])
        thr = {"splitd": r.choice([0, 5, 7, 10, 13, 26, 40]), "splitt": r.choice([0, 0.5, 1, 2, 3]),
               "splits": r.choice([0, 2.5, 5, 10, 20, 52])}[k]
        return {"op": k, "thr": float(thr)}

    def op_merge(q):
        m = r.randint(1, 5)
        st, t = [], r.randint(-8, 20)
        off = r.choice([0.125, 0.0625, 0.03125, 0.1875])
        for _ in range(m):
            st.append(t / q + off)              # never equal to a stamp of the object
            t += r.randint(1, 6)
        return {"op": "merge", "stamps": st, "pos": [[float(r.randint(-20, 60)) for _ in range(3)] for _ in range(m)],
                "rots": [r.randrange(24) for _ in range(m)], "route": r.choice(["se3", "xyz"]), "first": r.random() < 0.5}

    # corpus: read distances -> reduce -> split_distance_gaps (seeded change C11-3)
    yield {"kind": "hist", "route": "se3", "inspect": False, "ts": [0.0, 1.0, 2.0, 3.0, 4.0, 5.0, 6.0, 7.0],
           "steps": [[3, 4, 0], [3, 4, 0], [3, 4, 0], [3, 4, 0], [3, 4, 0], [24, 32, 0], [3, 4, 0]], "rots": [0] * 8,
           "ops": [{"op": "read", "what": "distances"}, {"op": "crop", "s": 2.0, "e": None}, {"op": "splitd", "thr": 10.0}]}
    for k in range(6000 if ctx.thorough else 1600):
        n = r.randint(3, 14)
        q = r.choice([1, 2, 4])
        ts = grid_stamps(r, n, q)
        steps = grid_steps(r, n, 1)
        for _ in range(r.randint(0, 2)):
            if steps:
                j = r.randrange(len(steps))
                steps[j] = [8 * x for x in r.choice(STEPS[:8])]       # a real gap
        g, rots = r.randrange(24), []
        for _ in range(n):
            if r.random() < 0.3:
                g = r.randrange(24)
            rots.append(g)
        if k % 5 < 2:
            ops = [r.choice([op_read(), op_read(), op_split()]), op_reduce(n, ts), op_split()]
            if r.random() < 0.4:
                ops.append(r.choice([op_read(), op_reduce(n, ts), op_split(), op_merge(q)]))
        else:
            ops = []
            for _ in range(r.randint(2, 4)):
                c = r.random()
                ops.append(op_read() if c < 0.25 else op_reduce(n, ts) if c < 0.6 else op_split() if c < 0.85 else op_merge(q))
        offs = [0.125, 0.0625, 0.03125, 0.1875]
        for o in ops:                                # stamps stay distinct over several merges
            if o["op"] == "merge":
                base = o["stamps"][0] % 0.25
                new = offs.pop(0)
                o["stamps"] = [t - base + new for t in o["stamps"]]
        c = {"kind": "hist", "route": r.choice(["se3", "xyz"]), "inspect": r.random() < 0.5, "ts": ts, "steps": steps,
             "rots": rots, "ops": ops}
        if k % 4 == 3:
            c["flavour"] = FLAVOURS[(k // 4) % 6]
            if c["flavour"] == "shared":                      # stationary stretches share ONE matrix object
                c["route"] = "se3"
                c["rots"] = [rots[0]] * n
                c["steps"] = [s_ if r.random() < 0.4 else [0, 0, 0] for s_ in steps]
        yield c


def gen_ids(ctx):
    """reduce_to_ids with arbitrary index lists: identity, permuted, repeated, empty; list / ndarray / tuple"""
    r = ctx.rng
    for k in range(1200 if ctx.thorough else 300):
        n = r.choice([1, 2, 3, 4, 7, 8, 9, r.randint(1, 40)])
        style = k % 5
        if style == 0:
            ids = list(range(n))
        elif style == 1:
            ids = r.sample(range(n), r.randint(1, n))
        elif style == 2:
            ids = [r.randrange(n) for _ in range(r.randint(1, n + 3))]
        elif style == 3:
            ids = []
        else:
            ids = sorted(r.sample(range(n), r.randint(1, n)))
        yield {"kind": "ids", "n": n, "ids": ids, "as": ("list", "ndarray", "tuple", "np32")[k % 4], "rep": ("xyz", "se3", "path")[k % 3],
               "flavour": r.choice([None, None] + FLAVOURS)}


def gen_cases(ctx):
    yield from gen_hist(ctx)
    yield from gen_ids(ctx)
    yield from gen_motion(ctx)
    yield from gen_crop(ctx)
    yield from gen_split(ctx)
    yield from gen_merge(ctx)
    yield from gen_ds(ctx)


# ----------------------------------------------------------------------------- calling evo
_BASE = {}


def base_arrays(n):
    if n not in _BASE:
        if len(_BASE) > 8:
            _BASE.clear()
        k = np.arange(n, dtype=float)
        xyz = np.column_stack([k, 2 * k + 1, -k])
        ang = 0.01 * (k + 1)
        quat = np.column_stack([np.cos(ang / 2), np.zeros(n), np.zeros(n), np.sin(ang / 2)])
        stamps = 100.0 + 0.5 * k
        _BASE[n] = [xyz, quat, stamps, None]
    return _BASE[n]


def base_poses(n):
    b = base_arrays(n)
    if b[3] is None:
        b[3] = [se3(rotz_deg(90.0 * (i % 4)), b[0][i]) for i in range(n)]
    return b[3]


def impl_ds(case):
    from evo.core.trajectory import PoseTrajectory3D, PosePath3D, TrajectoryException
    n, N, rep = case["n"], case["N"], case["rep"]
    xyz, quat, stamps, _ = base_arrays(n)
    poses = base_poses(n) if rep == "se3" else None
    f = case.get("flavour")
    N = {"np64": np.int64, "np32": np.int32}.get(case.get("Ntype"), int)(N)
    if rep == "xyz":
        tr = PoseTrajectory3D(flav(xyz, f), flav(quat, f if f != "int" else None), flav_ts(stamps, f))
    elif rep == "se3":
        poses = flav_poses(poses, f) if f else poses
        tr = PoseTrajectory3D(poses_se3=list(poses), timestamps=flav_ts(stamps, f))
    else:
        tr = PosePath3D(flav(xyz, f), flav(quat, f if f != "int" else None))
    try:
        tr.downsample(N)
    except TrajectoryException:
        return {"err": "E_TRAJ"}
    except Exception as e:  # e.g. IndexError of a broken id computation
        return {"raised": type(e).__name__ + ": " + str(e)[:80]}
    sel = tr.positions_xyz[:, 0].astype(int)
    ids = sel.tolist()
    ok = tr.num_poses == len(ids) and (len(ids) == 0 or (0 <= int(sel.min()) and int(sel.max()) < n))
    if ok:
        ok = np.array_equal(tr.positions_xyz, xyz[sel])
        if rep != "se3":
            ok = ok and np.array_equal(tr.orientations_quat_wxyz, quat[sel])
        else:
            ok = ok and len(tr.poses_se3) == len(ids) and all(
                (p is poses[i]) or np.array_equal(p, poses[i]) for p, i in zip(tr.poses_se3, ids))
        if rep != "path":
            ok = ok and np.array_equal(tr.timestamps, stamps[sel])
    return {"ids": ids, "together": bool(ok)}


def motion_poses(case):
    pos = positions_of(case["steps"], case.get("start", (0.0, 0.0, 0.0)))
    mode = case["mode"]
    if mode == "grid":
        rots = [np.array(G24[g], dtype=float) for g in case["rots"]]
    elif mode == "rand":
        rots = [quat_to_mat(q) for q in case["quats"]]
    else:
        rots = [rotz_deg(h) for h in case["heads"]]
    return [se3(r, p) for r, p in zip(rots, pos)], pos, rots


def ids_by_stamp(stamps_out, index_of):
    out = []
    for t in stamps_out:
        out.append(index_of.get(float(t), -1))
    return out


def impl_motion(case):
    from evo.core.trajectory import PoseTrajectory3D
    from evo.core.filters import FilterException
    poses, pos, _ = motion_poses(case)
    n = len(poses)
    stamps = np.arange(n, dtype=float) * 0.25 + 10.0
    keep = [p.copy() for p in poses]
    tr = PoseTrajectory3D(poses_se3=poses, timestamps=stamps)
    try:
        if case.get("helper"):
            # the route evo_ape / evo_rpe take: common_ape_rpe.downsample_or_filter with BOTH options given; the
            # down-sampling count is >= the number of poses (keeps every pose), so the motion filter alone decides
            import argparse
            from evo import common_ape_rpe
            twin = PoseTrajectory3D(poses_se3=[p.copy() for p in poses], timestamps=stamps.copy())
            common_ape_rpe.downsample_or_filter(
                argparse.Namespace(downsample=case["helper"], motion_filter=[case["d"], case["a"]]), tr, twin)
            if twin.num_poses != tr.num_poses or not np.array_equal(twin.timestamps, tr.timestamps):
                return {"raised": f"downsample_or_filter treats reference and estimate differently: {tr.num_poses} vs {twin.num_poses} poses"}
        else:
            tr.motion_filter(case["d"], case["a"], case["degrees"])
    except FilterException:
        same = tr.num_poses == n and np.array_equal(tr.timestamps, stamps)
        return {"err": "E_FILTER", "unchanged": bool(same)}
    except Exception as e:
        return {"raised": type(e).__name__ + ": " + str(e)[:80]}
    ids = ids_by_stamp(tr.timestamps, {float(t): i for i, t in enumerate(stamps)})
    ok = len(tr.poses_se3) == len(ids) and all(i >= 0 and np.array_equal(p, keep[i]) for p, i in zip(tr.poses_se3, ids))
    ok = ok and np.array_equal(tr.positions_xyz, np.array([keep[i][:3, 3] for i in ids]).reshape(-1, 3))
    return {"ids": ids, "together": bool(ok)}


def payload(n):
    xyz, quat, _, _ = base_arrays(n)
    return xyz, quat


def impl_crop(case):
    from evo.core.trajectory import PoseTrajectory3D, TrajectoryException
    ts = np.array(case["ts"], dtype=float)
    n = len(ts)
    xyz, quat = payload(n)
    f = case.get("flavour")
    tr = PoseTrajectory3D(flav(xyz, f), flav(quat, f if f != "int" else None), flav_ts(ts, f))
    try:
        tr.reduce_to_time_range(case["s"], case["e"])
    except TrajectoryException:
        return {"err": "E_TRAJ"}
    except Exception as e:
        return {"raised": type(e).__name__ + ": " + str(e)[:80]}
    ids = [int(v) for v in tr.positions_xyz[:, 0]] if tr.positions_xyz.size else []
    sel = np.array(ids, dtype=int)
    ok = (all(0 <= i < n for i in ids) and np.array_equal(tr.timestamps, ts[sel])
          and np.array_equal(tr.orientations_quat_wxyz, quat[sel]) and len(tr.timestamps) == len(ids))
    return {"ids": ids, "together": bool(ok)}


def split_traj(case):
    from evo.core.trajectory import PoseTrajectory3D
    ts = np.array(case["ts"], dtype=float)
    n = len(ts)
    if case["kind"] == "splitt":
        pos = [[float(k), 1.0, 0.0] for k in range(n)]
    else:
        pos = positions_of(case["steps"][: n - 1], case.get("start", (0.0, 0.0, 0.0)))
    f = case.get("flavour")
    if case.get("route") == "xyzq":
        # positions + quaternions route: the position array keeps the caller's dtype / layout (int64 on the integer grid)
        poses = [se3(np.eye(3), pos[i]) for i in range(n)]
        keep = [p.copy() for p in poses]
        xyz = flav(np.array(pos, dtype=float).reshape(-1, 3), f)
        quat = np.tile(np.array([1.0, 0.0, 0.0, 0.0]), (n, 1))
        return PoseTrajectory3D(positions_xyz=xyz, orientations_quat_wxyz=quat, timestamps=flav_ts(ts, f)), keep, ts
    poses = [se3(rotz_deg(90.0 * (i % 4)) if f != "shared" else np.eye(3), pos[i]) for i in range(n)]
    keep = [p.copy() for p in poses]
    return PoseTrajectory3D(poses_se3=flav_poses(poses, f) if f else poses, timestamps=flav_ts(ts, f)), keep, ts


def impl_split(case):
    from evo.core.trajectory import TrajectoryException
    tr, keep, ts = split_traj(case)
    try:
        if case["kind"] == "splitt":
            parts = tr.split_time_gaps(case["thr"])
        elif case["kind"] == "splitd":
            parts = tr.split_distance_gaps(case["thr"])
        else:
            parts = tr.split_speed_outliers(case["thr"])
    except TrajectoryException:
        return {"err": "E_TRAJ"}
    except Exception as e:
        return {"raised": type(e).__name__ + ": " + str(e)[:80]}
    # identify poses by position in the parent: parts must be consecutive runs; use running offset + content check
    out, ok, at = [], True, 0
    for p in parts:
        m = p.num_poses
        ids = list(range(at, at + m))
        at += m
        out.append(ids)
        if at > len(keep):
            ok = False
            break
        ok = ok and len(p.timestamps) == m and np.array_equal(p.timestamps, ts[ids[0]: ids[0] + m])
        ok = ok and all(np.array_equal(a, keep[i]) for a, i in zip(p.poses_se3, ids))
        ok = ok and np.array_equal(np.asarray(p.positions_xyz).reshape(-1, 3), np.array([keep[i][:3, 3] for i in ids]).reshape(-1, 3))
    return {"parts": out, "content_matches_consecutive_runs": bool(ok), "total": at}


def merge_inputs(case):
    from evo.core.trajectory import PoseTrajectory3D
    trs, g = [], 0
    for ti, s in enumerate(case["stamps"]):
        m = len(s)
        xyz = np.array([[float(g + k), float(ti), float(k)] for k in range(m)])
        ang = 0.01 * (np.arange(m) + g + 1)
        quat = np.column_stack([np.cos(ang / 2), np.sin(ang / 2), np.zeros(m), np.zeros(m)])
        trs.append(PoseTrajectory3D(xyz, quat, np.array(s, dtype=float)))
        g += m
    return trs


def impl_merge(case):
    from evo.core import trajectory
    trs = merge_inputs(case)
    if "twice" in case:
        trs = trs + [trs[case["twice"]]]
    cs = np.concatenate([t.timestamps for t in trs])
    cx = np.concatenate([t.positions_xyz for t in trs])
    cq = np.concatenate([t.orientations_quat_wxyz for t in trs])
    try:
        m = trajectory.merge(trs)
    except Exception as e:
        return {"raised": type(e).__name__ + ": " + str(e)[:80]}
    n = len(cs)
    # payload -> positions in the concatenation (two for the poses of an object passed twice), handed out in order
    slots, qslots = {}, {}
    for i in range(n):
        slots.setdefault(int(cx[i][0]), []).append(i)
        qslots.setdefault(cq[i].tobytes(), []).append(i)
    slots = {k_: list(v) for k_, v in slots.items()}
    order = [(slots.get(int(v)) or [-1]).pop(0) if slots.get(int(v)) else -1 for v in m.positions_xyz[:, 0]]
    qorder = [qslots[np.asarray(q).tobytes()].pop(0) if qslots.get(np.asarray(q).tobytes()) else -1
              for q in m.orientations_quat_wxyz]
    valid = len(order) == len(m.timestamps) == len(m.orientations_quat_wxyz) and all(0 <= i < n for i in order)
    own_stamp = valid and all(m.timestamps[k] == cs[i] for k, i in enumerate(order))
    own_quat = valid and all(np.array_equal(m.orientations_quat_wxyz[k], cq[i]) for k, i in enumerate(order))
    own_xyz = valid and all(np.array_equal(m.positions_xyz[k], cx[i]) for k, i in enumerate(order))
    return {"order": order, "qorder": qorder, "stamps": [float(t) for t in m.timestamps], "n": n, "valid": bool(valid),
            "own_stamp": bool(own_stamp), "own_quat": bool(own_quat), "own_xyz": bool(own_xyz)}


_QUAT = {}


def g24_quat(g):
    if g not in _QUAT:
        from evo.core import transformations as tf
        _QUAT[g] = np.array(tf.quaternion_from_matrix(se3(np.array(G24[g], dtype=float), [0.0, 0.0, 0.0])))
    return _QUAT[g]


def build_traj(poses, route, f=None):
    """poses: list of (pos, g, stamp); f: array flavour of the inputs"""
    from evo.core.trajectory import PoseTrajectory3D
    ts = flav_ts(np.array([p[2] for p in poses], dtype=float), f)
    if route == "se3":
        mats = [se3(np.array(G24[p[1]], dtype=float), p[0]) for p in poses]
        return PoseTrajectory3D(poses_se3=flav_poses(mats, f) if f else mats, timestamps=ts)
    return PoseTrajectory3D(flav(np.array([p[0] for p in poses], dtype=float), f),
                            flav(np.array([g24_quat(p[1]) for p in poses]), f if f != "int" else None), ts)


def content_ok(tr, poses):
    """position / orientation / timestamp of every pose of `tr` are those of the abstract poses"""
    n = len(poses)
    if not (tr.num_poses == n and len(tr.timestamps) == n):
        return False
    if n == 0:
        return True
    ok = np.array_equal(tr.timestamps, np.array([p[2] for p in poses], dtype=float))
    ok = ok and np.array_equal(np.asarray(tr.positions_xyz).reshape(-1, 3), np.array([p[0] for p in poses], dtype=float))
    ok = ok and len(tr.poses_se3) == n and all(
        np.allclose(m[:3, :3], np.array(G24[p[1]], dtype=float), atol=1e-9) and np.array_equal(m[:3, 3], np.array(p[0], dtype=float))
        for m, p in zip(tr.poses_se3, poses))
    qs = np.asarray(tr.orientations_quat_wxyz).reshape(-1, 4)
    ok = ok and len(qs) == n and all(
        np.allclose(a, g24_quat(p[1]), atol=1e-9) or np.allclose(a, -g24_quat(p[1]), atol=1e-9) for a, p in zip(qs, poses))
    return bool(ok)


def sub_geometry(cur):
    pos = [p[0] for p in cur]
    steps = [[pos[k + 1][c] - pos[k][c] for c in range(3)] for k in range(len(pos) - 1)]
    return {"steps": steps, "start": list(pos[0]) if pos else [0.0, 0.0, 0.0], "ts": [p[2] for p in cur],
            "rots": [p[1] for p in cur], "mode": "grid"}


def impl_hist(case):
    """returns one record per executed op: {"k", "op", "sub" (equivalent fresh-object case) , "impl", ...}"""
    from evo.core.trajectory import TrajectoryException
    from evo.core import trajectory
    from evo.core.filters import FilterException
    pos = positions_of(case["steps"])
    cur = [(pos[i], case["rots"][i], float(case["ts"][i])) for i in range(len(case["ts"]))]
    tr = build_traj(cur, case["route"], case.get("flavour"))
    recs = []
    for k, op in enumerate(case["ops"]):
        if not cur:
            break
        name = op["op"]
        rec = {"k": k, "op": name, "n_before": len(cur)}
        recs.append(rec)
        by_stamp = {p[2]: i for i, p in enumerate(cur)}
        geo = sub_geometry(cur)
        try:
            if name == "read":
                rec["op"] = "read " + op["what"]
                v = getattr(tr, op["what"])
                if callable(v):
                    v()
                rec["unchanged"] = content_ok(tr, cur) if case["inspect"] else (
                    tr.num_poses == len(cur) and np.array_equal(tr.timestamps, np.array(geo["ts"])))
                continue
            if name in ("splitd", "splitt", "splits"):
                rec["sub"] = dict(geo, kind=name, thr=op["thr"])
                try:
                    parts = {"splitd": tr.split_distance_gaps, "splitt": tr.split_time_gaps,
                             "splits": tr.split_speed_outliers}[name](op["thr"])
                except TrajectoryException:
                    rec["impl"] = {"err": "E_TRAJ"}
                    continue
                out, ok = [], True
                for p in parts:
                    ids = [by_stamp.get(float(t), -1) for t in p.timestamps]
                    out.append(ids)
                    ok = ok and all(i >= 0 for i in ids) and content_ok(p, [cur[i] for i in ids if i >= 0])
                ok = ok and tr.num_poses == len(cur) and np.array_equal(tr.timestamps, np.array(geo["ts"]))
                if case["inspect"]:
                    ok = ok and content_ok(tr, cur)
                rec["impl"] = {"parts": out, "content_matches_consecutive_runs": bool(ok), "total": sum(len(x) for x in out)}
                continue
            if name == "merge":
                other = [(list(map(float, op["pos"][i])), op["rots"][i], float(op["stamps"][i])) for i in range(len(op["stamps"]))]
                otr = build_traj(other, op["route"], case.get("flavour"))
                pair = [(tr, cur), (otr, other)] if op["first"] else [(otr, other), (tr, cur)]
                conc = pair[0][1] + pair[1][1]
                rec["sub"] = {"kind": "merge", "stamps": [[p[2] for p in pair[0][1]], [p[2] for p in pair[1][1]]]}
                m = trajectory.merge([pair[0][0], pair[1][0]])
                cmap = {p[2]: i for i, p in enumerate(conc)}
                order = [cmap.get(float(t), -1) for t in m.timestamps]
                valid = all(i >= 0 for i in order) and m.num_poses == len(order)
                new = [conc[i] for i in order] if valid else []
                together = valid and content_ok(m, new)
                rec["impl"] = {"order": order, "qorder": order if together else [-1] * len(order),
                               "stamps": [float(t) for t in m.timestamps], "n": len(conc), "valid": bool(valid),
                               "own_stamp": bool(valid), "own_quat": bool(together), "own_xyz": bool(together)}
                if valid:
                    tr, cur = m, new
                continue
            # ---- selectors (reduce the object in place)
            if name == "downsample":
                rec["sub"] = {"kind": "ds", "n": len(cur), "N": op["N"], "rep": case["route"]}
                call = lambda: tr.downsample(np.int64(op["N"]) if k % 2 else op["N"])  # noqa: E731
            elif name == "motion":
                rec["sub"] = dict(geo, kind="motion", d=op["d"], a=op["a"], degrees=True)
                call = lambda: tr.motion_filter(op["d"], op["a"], True)  # noqa: E731
            elif name == "crop":
                rec["sub"] = {"kind": "crop", "ts": geo["ts"], "s": op["s"], "e": op["e"]}
                call = lambda: tr.reduce_to_time_range(op["s"], op["e"])  # noqa: E731
            else:
                want = [i for i in range(len(cur)) if (op["mask"] >> i) & 1] or [0]
                rec["want"] = want
                call = lambda: tr.reduce_to_ids(np.array(want, dtype=int) if k % 2 else list(want))  # noqa: E731
            try:
                call()
            except TrajectoryException:
                rec["impl"] = {"err": "E_TRAJ"}
                continue
            except FilterException:
                rec["impl"] = {"err": "E_FILTER", "unchanged": tr.num_poses == len(cur)}
                continue
            ids = [by_stamp.get(float(t), -1) for t in tr.timestamps]
            new = [cur[i] for i in ids if i >= 0]
            ok = all(i >= 0 for i in ids) and tr.num_poses == len(ids)
            if case["inspect"] or k == len(case["ops"]) - 1:
                ok = ok and content_ok(tr, new)
            rec["impl"] = {"ids": ids, "together": bool(ok)}
            cur = new
        except Exception as e:  # anything that is not a documented refusal
            rec["impl"] = {"raised": type(e).__name__ + ": " + str(e)[:80]}
            rec.setdefault("sub", {"kind": "raised"})
            break
    final_ok = content_ok(tr, cur) if cur else True
    return {"recs": recs, "final_ok": final_ok}


def impl_ids(case):
    from evo.core.trajectory import PoseTrajectory3D, PosePath3D
    n, rep, f = case["n"], case["rep"], case.get("flavour")
    xyz, quat, stamps, _ = base_arrays(n)
    poses = base_poses(n)
    if rep == "xyz":
        tr = PoseTrajectory3D(flav(xyz, f), flav(quat, f if f != "int" else None), flav_ts(stamps, f))
    elif rep == "se3":
        tr = PoseTrajectory3D(poses_se3=list(flav_poses(poses, f) if f else poses), timestamps=flav_ts(stamps, f))
    else:
        tr = PosePath3D(flav(xyz, f), flav(quat, f if f != "int" else None))
    ids = case["ids"]
    arg = {"list": list(ids), "tuple": list(ids), "ndarray": np.array(ids, dtype=int), "np32": np.array(ids, dtype=np.int32)}[case["as"]]
    try:
        tr.reduce_to_ids(arg)
        got = np.asarray(tr.positions_xyz).reshape(-1, 3)[:, 0].astype(int).tolist()
        sel = np.array(got, dtype=int)
        ok = tr.num_poses == len(got) and all(0 <= i < n for i in got)
        ok = ok and np.array_equal(np.asarray(tr.positions_xyz).reshape(-1, 3), xyz[sel].reshape(-1, 3))
        if rep == "se3":
            ok = ok and all(np.array_equal(p, poses[i]) for p, i in zip(tr.poses_se3, got))
        else:
            ok = ok and np.array_equal(np.asarray(tr.orientations_quat_wxyz).reshape(-1, 4), quat[sel].reshape(-1, 4))
        if rep != "path":
            ok = ok and np.array_equal(tr.timestamps, stamps[sel])
    except Exception as e:
        return {"raised": type(e).__name__ + ": " + str(e)[:80]}
    return {"ids": got, "together": bool(ok)}


def judge_ids(ctx, case, impl, out):
    if judge_common(ctx, case, impl):
        ctx.record(case, False)
        return
    model = parse_ids(out)
    if impl["ids"] != model:
        ctx.mismatch(case, "reduce_to_ids differs from Evo.reduceIds", impl["ids"][:40], model[:40])
    if impl["ids"] != list(case["ids"]):
        ctx.fail(case, "reduce-to-ids", f"kept {impl['ids'][:12]}, requested {case['ids'][:12]}")
    if not impl["together"]:
        ctx.fail(case, "kept-together", "reduce_to_ids: position/orientation/timestamp of a kept pose differ from the input pose")
    ids = case["ids"]
    ctx.count("branch", "ids:empty" if not ids else "ids:repeated" if len(set(ids)) < len(ids) else
              "ids:increasing" if is_increasing(ids) else "ids:permuted")
    ctx.record(case, 0 < len(ids) and ids != list(range(case["n"])))


def safe_impl(case):
    """L12: nothing evo returns may crash the harness; an exception while converting its output is a failure"""
    try:
        return run_impl(case)
    except Exception as e:
        err = {"raised": "while reading evo's output: " + type(e).__name__ + ": " + str(e)[:80]}
        if case["kind"] == "hist":
            return {"recs": [{"k": 0, "op": "?", "n_before": 0, "sub": {"kind": "raised"}, "impl": err}], "final_ok": True}
        return err


def run_impl(case):
    k = case["kind"]
    if k == "hist":
        return impl_hist(case)
    if k == "ids":
        return impl_ids(case)
    if k == "ds":
        return impl_ds(case)
    if k == "motion":
        return impl_motion(case)
    if k == "crop":
        return impl_crop(case)
    if k == "merge":
        return impl_merge(case)
    return impl_split(case)


# ----------------------------------------------------------------------------- exact data of a case (harness side)
def step_lengths(case, n=None):
    """[(Fraction length, exact?)] of the steps between consecutive positions (as evo sees them: float positions)"""
    pos = positions_of(case["steps"] if n is None else case["steps"][: n - 1], case.get("start", (0.0, 0.0, 0.0)))
    out = []
    for a, b in zip(pos, pos[1:]):
        out.append(norm_frac([frac(b[k]) - frac(a[k]) for k in range(3)]))
    return out, pos


def motion_data(case):
    """lens (Fractions), angle function (same unit as the threshold), magnitude for the slack"""
    lens, pos = step_lengths(case)
    mode = case["mode"]
    n = len(pos)
    if mode == "grid":
        ang = lambda j, i: Fraction(g24_angle_deg(case["rots"][j], case["rots"][i]))  # noqa: E731
    elif mode == "rand":
        rots = [quat_to_mat(q) for q in case["quats"]]
        cache = {}

        def ang(j, i):
            if (j, i) not in cache:
                x = angle_between(rots[j], rots[i])
                cache[(j, i)] = frac(math.degrees(x) if case["degrees"] else x)
            return cache[(j, i)]
    else:
        hs = [frac(h) for h in case["heads"]]

        def ang(j, i):
            y = (hs[i] - hs[j]) % 360
            return y if y <= 180 else 360 - y
    return lens, ang, n


def model_line(case):
    k = case["kind"]
    if k == "ds":
        return f"C11 downsample {case['n']} {case['N']}"
    if k == "motion":
        lens, ang, n = motion_data(case)
        L = ratlist([l for l, _ in lens])
        if case["mode"].startswith("planar"):
            return f"C11 motionh {rat(case['d'])} {rat(case['a'])} {L} {ratlist(case['heads'])}"
        tab = [ang(j, i) if j < i else 0 for j in range(n) for i in range(n)]
        return f"C11 motion {rat(case['d'])} {rat(case['a'])} {L} {ratlist(tab)}"
    if k == "crop":
        o = lambda x: "-" if x is None else rat(x)  # noqa: E731
        return f"C11 crop {o(case['s'])} {o(case['e'])} {ratlist(case['ts'])}"
    if k == "splitt":
        return f"C11 splitt {rat(case['thr'])} {ratlist(case['ts'])}"
    if k == "splitd":
        lens, _ = step_lengths(case, len(case["ts"]))
        return f"C11 splitd {rat(case['thr'])} {ratlist([l for l, _ in lens])}"
    if k == "splits":
        lens, _ = step_lengths(case, len(case["ts"]))
        return f"C11 splits {rat(case['thr'])} {ratlist([l for l, _ in lens])} {ratlist(case['ts'])}"
    if k == "merge":
        st = case["stamps"] + ([case["stamps"][case["twice"]]] if "twice" in case else [])
        return f"C11 merge {len(st)} " + " ".join(ratlist(s) for s in st)
    if k == "ids":
        return f"C11 reduce {case['n']} {core.natlist(case['ids'])}"
    raise ValueError(k)


def run_driver_parallel(lines, workers=8):
    if len(lines) < 2000:
        return core.run_driver(lines, prop="C11")
    w = workers
    chunks = [lines[i::w] for i in range(w)]
    with ThreadPoolExecutor(max_workers=w) as ex:
        res = list(ex.map(lambda c: core.run_driver(c, prop="C11"), chunks))
    outs = [None] * len(lines)
    for i in range(w):
        outs[i::w] = res[i]
    return outs


# ----------------------------------------------------------------------------- judging
def parse_ids(s):
    return [int(x) for x in s.split()]


def parse_parts(s):
    return [[int(x) for x in p.split(",")] if p else [] for p in s.split("|")]


def is_increasing(ids):
    return all(a < b for a, b in zip(ids, ids[1:]))


def judge_common(ctx, case, impl):
    """exceptions other than the documented refusals are failures of every clause"""
    if "raised" in impl:
        ctx.fail(case, "operation-raised", f"{case['kind']}: unexpected exception {impl['raised']}")
        ctx.mismatch(case, f"{case['kind']}: evo raised, the model does not", impl["raised"], None)
        return True
    return False


def judge_ds(ctx, case, impl, out):
    n, N = case["n"], case["N"]
    if judge_common(ctx, case, impl):
        ctx.record(case, False)
        return
    got = impl.get("err") or impl["ids"]
    if out == "NOOP":
        same = got == list(range(n))
        ctx.count("branch", "downsample:noop")
    elif out == "E_TRAJ":
        same = got == "E_TRAJ"
        ctx.count("branch", "downsample:refused")
    else:
        same = got != "E_TRAJ" and " ".join(map(str, got)) == out
        ctx.count("branch", "downsample:linspace")
    if not same:
        ctx.mismatch(case, "downsample ids differ from Select.downsampleIds", got if got == "E_TRAJ" else got[:50], out[:300])
    # oracle: the property sentence on evo's output
    if got == "E_TRAJ":
        if N >= 1:
            ctx.fail(case, "downsample-refused", f"n={n} N={N} refused")
    else:
        ids = got
        if not impl["together"]:
            ctx.fail(case, "kept-together", f"downsample n={n} N={N}: position/orientation/timestamp of a kept pose differ from the input pose")
        if N < 1:
            ctx.fail(case, "downsample-count", f"n={n} N={N} not refused")
        elif len(ids) != min(N, n):
            ctx.fail(case, "downsample-count", f"n={n} N={N}: {len(ids)} poses kept, expected {min(N, n)}")
        elif ids[0] != 0:
            ctx.fail(case, "downsample-first", f"n={n} N={N}: first kept id {ids[0]}")
        elif N >= 2 and ids[-1] != n - 1:
            ctx.fail(case, "downsample-last", f"n={n} N={N}: last kept id {ids[-1]}")
        else:
            arr = np.array(ids, dtype=np.int64)
            gaps = np.diff(arr)
            if len(gaps) and int(gaps.min()) <= 0:
                ctx.fail(case, "order-preserved", f"downsample n={n} N={N}: ids not strictly increasing")
            elif 2 <= N < n:
                a, b = n - 1, N - 1
                lo, hi = a // b, -((-a) // b)
                ka = np.arange(len(ids), dtype=np.int64) * a
                dev = np.abs(arr * b - ka)                     # |id_k - k s| * (N-1), exact integers
                if int(dev.max()) > b:
                    k = int(dev.argmax())
                    ctx.fail(case, "downsample-even", f"n={n} N={N}: id[{k}]={ids[k]} is more than 1 from k(n-1)/(N-1)")
                elif int(gaps.min()) < lo or int(gaps.max()) > hi:
                    ctx.fail(case, "downsample-even", f"n={n} N={N}: a gap is outside [{lo},{hi}] (gaps {int(gaps.min())}..{int(gaps.max())})")
                if same and bool(np.any(arr != ka // b)):
                    ctx.count("branch", "downsample:rounding-below-exact-floor")
    ctx.count("dist", "ds:" + case["rep"])
    ctx.record(case, 2 <= N < n)


def judge_motion(ctx, case, impl, out):
    if judge_common(ctx, case, impl):
        ctx.record(case, False)
        return
    lens, ang, n = motion_data(case)
    d, a = frac(case["d"]), frac(case["a"])
    exact_geom = all(e for _, e in lens)
    model = out if out.startswith("E_") else parse_ids(out)
    got = impl.get("err") or impl["ids"]
    ctx.count("dist", "motion:" + case["mode"])
    if got == "E_FILTER" or model == "E_FILTER":
        if got != model:
            ctx.mismatch(case, "motion_filter refusal differs from Select.motionFilter", got, model)
        ctx.count("branch", "motion:refused")
        legit = n < 2 or d < 0 or a < 0
        if got == "E_FILTER" and not legit:
            ctx.fail(case, "motion-refused", "FilterException for >= 2 poses and non-negative thresholds")
        if got == "E_FILTER" and not impl.get("unchanged", True):
            ctx.fail(case, "motion-refused", "trajectory changed although the filter refused")
        if got != "E_FILTER" and legit:
            ctx.fail(case, "motion-refused", "fewer than two poses / negative threshold accepted")
        ctx.record(case, False)
        return
    ids = got
    acc = [Fraction(0)]
    for l, _ in lens:
        acc.append(acc[-1] + l)
    mag = max([acc[-1]] + [abs(frac(x)) for x in case.get("start", (0.0,))] + [Fraction(1, 10 ** 6)])
    sl_d = Fraction(0) if exact_geom else SLACK * mag * 4
    ang_exact = case["mode"] in ("grid", "planar-grid")
    # exact-hit angles on the grid are 90/120/180 degrees: never equal to a generated threshold except 0
    sl_a = Fraction(0) if ang_exact else Fraction(1, 10 ** 9) * (1 if not case["degrees"] else 60)
    # oracle along evo's own choices
    if not impl["together"]:
        ctx.fail(case, "kept-together", "motion_filter: pose/position/timestamp of a kept pose differ from the input pose")
    bad = None
    border = False
    if not ids or ids[0] != 0:
        bad = ("motion-keeps-first", f"first kept id {ids[:1]}")
    elif not is_increasing(ids) or ids[-1] >= n:
        bad = ("order-preserved", "motion_filter ids not strictly increasing / out of range")
    else:
        kept = set(ids)
        p = 0
        nd = na = 0
        for i in range(1, n):
            dd = acc[i] - acc[p]
            if sl_d and abs(dd - d) < sl_d:
                border = True
            by_d = dd >= d
            by_a = False
            if not by_d:
                aa = ang(p, i)
                if sl_a and abs(aa - a) < sl_a:
                    border = True
                by_a = aa >= a
            if border:
                break
            want = by_d or by_a
            if want != (i in kept):
                bad = ("motion-keep-iff", f"pose {i}: path since last kept pose {p} = {float(dd):.6g} (d={float(d)}), "
                       f"angle = {float(ang(p, i)):.6g} (a={float(a)}); kept={i in kept}")
                break
            if want:
                p = i
                nd += by_d
                na += (not by_d)
        if not border and not bad:
            if nd:
                ctx.count("branch", "motion:kept-by-distance")
            if na:
                ctx.count("branch", "motion:kept-by-angle")
            if any(acc[i] - acc[j] == d for j, i in zip(ids, ids[1:])) and exact_geom:
                ctx.count("branch", "motion:distance-threshold-hit-exactly")
    if border:
        ctx.skipped += 1
    else:
        if bad:
            ctx.fail(case, bad[0], bad[1])
        if ids != model:
            ctx.mismatch(case, "motion_filter ids differ from Select.motionFilter", ids[:60], model[:60])
    ctx.record(case, 1 < len(ids) < n)


def judge_crop(ctx, case, impl, out):
    if judge_common(ctx, case, impl):
        ctx.record(case, False)
        return
    ts = [frac(t) for t in case["ts"]]
    s = ts[0] if case["s"] is None else frac(case["s"])
    e = ts[-1] if case["e"] is None else frac(case["e"])
    model = out if out.startswith("E_") else parse_ids(out)
    got = impl.get("err") or impl["ids"]
    if got != model:
        ctx.mismatch(case, "reduce_to_time_range differs from Select.cropIds", got if isinstance(got, str) else got[:60],
                     model if isinstance(model, str) else model[:60])
    if got == "E_TRAJ":
        ctx.count("branch", "crop:refused")
        if s <= e:
            ctx.fail(case, "crop-refused", "start <= end refused")
    else:
        want = [i for i, t in enumerate(ts) if s <= t <= e]
        if s > e:
            ctx.fail(case, "crop-refused", "start > end accepted")
        elif got != want:
            extra = sorted(set(got) - set(want))[:3]
            miss = sorted(set(want) - set(got))[:3]
            ctx.fail(case, "crop-keep-iff" if set(got) != set(want) else "order-preserved",
                     f"kept ids {got[:10]}… expected exactly start<=t<=end: wrongly kept {extra}, wrongly dropped {miss}")
        if not impl["together"]:
            ctx.fail(case, "kept-together", "crop: orientation/timestamp of a kept pose differ from the input pose")
        ctx.count("branch", "crop:empty" if not got else "crop:all" if len(got) == len(ts) else "crop:some")
        if any(t == s or t == e for t in ts):
            ctx.count("branch", "crop:bound-hit-exactly")
    ctx.count("dist", "crop:" + ("None" if case["s"] is None else "s") + "," + ("None" if case["e"] is None else "e"))
    ctx.record(case, got != "E_TRAJ" and 0 < len(got) < len(ts))


def split_steps(case):
    """the step quantity the splitter thresholds, exact Fractions (None for an invalid time step), slack"""
    kind = case["kind"]
    ts = [frac(t) for t in case["ts"]]
    n = len(ts)
    if kind == "splitt":
        steps = [b - a for a, b in zip(ts, ts[1:])]
        mag = max([abs(t) for t in ts] + [Fraction(1, 10 ** 9)])
        exact = case.get("mode", "grid") == "grid"
        return steps, (Fraction(0) if exact else SLACK * mag), False
    lens, pos = step_lengths(case, n)
    exact = all(e for _, e in lens) and case.get("mode", "grid") == "grid"
    total = sum(l for l, _ in lens) if lens else Fraction(0)
    mag = max([total] + [abs(frac(x)) for x in case.get("start", (0.0,))] + [Fraction(1, 10 ** 9)])
    if kind == "splitd":
        return [l for l, _ in lens], (Fraction(0) if exact else SLACK * mag * 4), False
    steps, sls, bad = [], [], False
    for (l, _), a, b in zip(lens, ts, ts[1:]):
        if b - a <= 0:
            bad = True
            steps.append(None)
            sls.append(Fraction(0))
        else:
            steps.append(l / (b - a))
            sls.append(Fraction(0) if exact else SLACK * mag * 4 / (b - a) + SLACK * 4 * steps[-1])
    return steps, sls, bad     # per-step slack for speeds


def judge_split(ctx, case, impl, out):
    if judge_common(ctx, case, impl):
        ctx.record(case, False)
        return
    kind = case["kind"]
    n = len(case["ts"])
    thr = frac(case["thr"])
    steps, sl, bad_dt = split_steps(case)
    ctx.count("dist", kind + ":" + case.get("mode", "grid"))
    model = out if out.startswith("E_") else parse_parts(out)
    if "err" in impl or model == "E_TRAJ":
        got = impl.get("err")
        if got != model:
            ctx.mismatch(case, kind + " refusal differs from the model", got or impl.get("parts"), model)
        ctx.count("branch", kind + ":refused-bad-stamps")
        if got and not (kind == "splits" and bad_dt):
            ctx.fail(case, "split-refused", kind + ": TrajectoryException without a non-positive time step")
        ctx.record(case, False)
        return
    parts = impl["parts"]
    border = False
    for k_, st in enumerate(steps):
        s_ = sl[k_] if isinstance(sl, list) else sl
        if st is not None and s_ and abs(st - thr) < s_:
            border = True
    if border:
        ctx.skipped += 1
        ctx.record(case, False)
        return
    # ---- oracle
    flat = [i for p in parts for i in p]
    if not impl["content_matches_consecutive_runs"] or flat != list(range(n)) or any(len(p) == 0 for p in parts):
        ctx.fail(case, "split-concat", f"{kind}: concatenating the parts does not reproduce the trajectory "
                                        f"(part sizes {[len(p) for p in parts][:12]}, n={n}, pose/stamp content equal: {impl['content_matches_consecutive_runs']})")
    else:
        cuts = [p[0] for p in parts[1:]]
        for c in cuts:
            if not steps[c - 1] > thr:
                ctx.fail(case, "split-cut-exceeds", f"{kind}: cut before pose {c} but step {c - 1} = {float(steps[c - 1]):.6g} <= {float(thr)}")
                break
        cs = set(cuts)
        for k, st in enumerate(steps):
            if st > thr and (k + 1) not in cs:
                ctx.fail(case, "split-no-big-step-inside", f"{kind}: step {k} = {float(st):.6g} > {float(thr)} stays inside a part")
                break
        if any(st == thr for st in steps):
            ctx.count("branch", kind + ":threshold-hit-exactly")
    if parts != model:
        ctx.mismatch(case, kind + " parts differ from Select.slices/cutsOf", parts[:20], model[:20])
    ctx.count("branch", kind + (":one-part" if len(parts) == 1 else ":several-parts"))
    ctx.record(case, 1 < len(parts) < n)


def judge_merge(ctx, case, impl, out):
    if judge_common(ctx, case, impl):
        ctx.record(case, False)
        return
    mo, mq, ms = out.split(";")
    m_order = parse_ids(mo)
    m_qorder = parse_ids(mq)
    m_stamps = [core.parse_rat(x) for x in ms.split()]
    cs = [frac(t) for s in case["stamps"] + ([case["stamps"][case["twice"]]] if "twice" in case else []) for t in s]
    n = len(cs)
    order = impl["order"]
    got_stamps = [frac(t) for t in impl["stamps"]]
    # ---- oracle
    if not impl["valid"] or sorted(order) != list(range(n)):
        ctx.fail(case, "merge-union", f"merged trajectory is not a permutation of the {n} input poses (got {len(order)} poses)")
    else:
        if not impl["own_stamp"]:
            ctx.fail(case, "merge-own-timestamp", "a merged pose does not carry its own timestamp")
        if not (impl["own_quat"] and impl["own_xyz"]):
            ctx.fail(case, "kept-together", "merge: position and orientation of a merged pose come from different input poses")
        if any(a > b for a, b in zip(got_stamps, got_stamps[1:])):
            ctx.fail(case, "merge-sorted", "merged timestamps are not sorted")
    # ---- correspondence (ties as sets)
    def groups(order_, stamps_):
        g = {}
        for i, t in zip(order_, stamps_):
            g.setdefault(t, set()).add(i)
        return g
    if got_stamps != m_stamps or groups(order, got_stamps) != groups(m_order, m_stamps):
        ctx.mismatch(case, "merge differs from Select.mergeTraj (ties compared as sets)", order[:40], m_order[:40])
    elif len(impl["qorder"]) != len(m_qorder) or groups(impl["qorder"], got_stamps) != groups(m_qorder, m_stamps):
        ctx.mismatch(case, "merge: orientations are ordered differently from Select.mergeTraj", impl["qorder"][:40], m_qorder[:40])
    ties = len(set(cs)) < n
    ctx.count("branch", "merge:ties" if ties else "merge:distinct-stamps")
    if order != m_order:
        ctx.count("branch", "merge:tie-order-differs-from-stable")
    ctx.count("dist", f"merge:{len(case['stamps'])}-trajectories")
    if "twice" in case:
        ctx.count("branch", "merge:same-object-twice")
    ctx.record(case, order != list(range(n)))


JUDGE = {"ids": judge_ids, "ds": judge_ds, "motion": judge_motion, "crop": judge_crop, "merge": judge_merge,
         "splitt": judge_split, "splitd": judge_split, "splits": judge_split}


class StepCtx:
    """routes the verdicts of a per-step judge to the history case (so that replay runs the whole history)"""
    def __init__(self, ctx, case, k, op):
        self.ctx, self.case, self.tag = ctx, case, f"history step {k} ({op}): "

    def fail(self, _sub, clause, detail, tags=None):
        self.ctx.fail(self.case, clause, self.tag + detail, tags)

    def mismatch(self, _sub, what, impl=None, model=None):
        self.ctx.mismatch(self.case, self.tag + what, impl, model)

    def count(self, table, key, n=1):
        self.ctx.count(table, "hist/" + key, n)

    def record(self, *a, **k):
        pass

    @property
    def skipped(self):
        return self.ctx.skipped

    @skipped.setter
    def skipped(self, v):
        self.ctx.skipped = v


def hist_lines(impl):
    return [model_line(rec["sub"]) for rec in impl["recs"] if rec.get("sub") and rec["sub"]["kind"] != "raised"]


def judge_hist(ctx, case, impl, outs):
    outs = list(outs)
    dropped = False
    names = []
    for rec in impl["recs"]:
        k, op = rec["k"], rec["op"]
        names.append(op.split()[0])
        sc = StepCtx(ctx, case, k, op)
        if op.startswith("read"):
            if not rec.get("unchanged", True):
                sc.fail(None, "read-modifies", "reading a derived array changed the trajectory")
            continue
        sub = rec.get("sub")
        if sub is not None and sub["kind"] == "raised":
            judge_common(sc, case, rec["impl"])
            continue
        if "impl" not in rec:
            continue
        if op == "ids":
            got = rec["impl"].get("ids")
            if "raised" in rec["impl"] or "err" in rec["impl"]:
                sc.fail(None, "operation-raised", f"reduce_to_ids raised {rec['impl']}")
            else:
                if got != rec["want"]:
                    sc.fail(None, "reduce-to-ids", f"kept {got}, requested {rec['want']}")
                if not rec["impl"]["together"]:
                    sc.fail(None, "kept-together", "reduce_to_ids: pose/orientation/timestamp of a kept pose differ from the input pose")
                dropped = dropped or len(rec["want"]) < rec["n_before"]
            continue
        out = outs.pop(0)
        if out in ("BAD-OP", "BAD-MODEL"):
            raise core.ToolError(f"driver rejected the request of history step {k} of {core.trim(case)}")
        JUDGE[sub["kind"]](sc, sub, rec["impl"], out)
        if "ids" in rec["impl"]:
            dropped = dropped or len(rec["impl"]["ids"]) < rec["n_before"]
    if not impl["final_ok"]:
        ctx.fail(case, "kept-together", "after the history the object's positions / orientations / timestamps are not those of the kept poses")
    ctx.count("dist", f"hist:{case['route']}:{len(case['ops'])}-ops")
    for a, b, c in zip(names, names[1:], names[2:]):
        if a in ("read", "splitd") and b in ("downsample", "motion", "crop", "ids") and c.startswith("split"):
            ctx.count("branch", "hist:read-then-reduce-then-split")
    if "merge" in names:
        ctx.count("branch", "hist:merge-inside-history")
    ctx.record(case, dropped)


def evaluate(ctx, cases):
    plain = [c for c in cases if c["kind"] != "hist"]
    hist = [c for c in cases if c["kind"] == "hist"]
    lines = [model_line(c) for c in plain]
    with ThreadPoolExecutor(max_workers=1) as ex:
        fut = ex.submit(run_driver_parallel, lines)       # the driver works while evo is being called
        himpls = [safe_impl(c) for c in hist]
        hlines = [hist_lines(i) for i in himpls]
        impls = [safe_impl(c) for c in plain]
        outs = fut.result()
    for c in cases:
        if c.get("flavour"):
            ctx.count("dist", f"input-flavour:{c['flavour']}:{c['kind']}")
    flat = [l for ls in hlines for l in ls]
    houts = run_driver_parallel(flat) if flat else []
    at = 0
    for c, i, ls in zip(hist, himpls, hlines):
        judge_hist(ctx, c, i, houts[at: at + len(ls)])
        at += len(ls)
    for c, i, o in zip(plain, impls, outs):
        if o == "BAD-OP" or o == "BAD-MODEL":
            raise core.ToolError(f"driver rejected the request of case {core.trim(c)}: {o}")
        JUDGE[c["kind"]](ctx, c, i, o)


# ----------------------------------------------------------------------------- shrinking
def shrink(case):
    k = case["kind"]
    if k == "ids":
        ids = case["ids"]
        for i in range(len(ids)):
            yield dict(case, ids=ids[:i] + ids[i + 1:])
        if case["n"] > 1 and all(i < case["n"] - 1 for i in ids):
            yield dict(case, n=case["n"] - 1)
        if case.get("flavour"):
            yield dict(case, flavour=None)
        return
    if k == "hist":
        ops = case["ops"]
        for i in range(len(ops)):
            if len(ops) > 1:
                yield dict(case, ops=ops[:i] + ops[i + 1:])
        n = len(case["ts"])
        if n > 2:
            yield dict(case, ts=case["ts"][:-1], rots=case["rots"][:-1], steps=case["steps"][:-1])
        return
    if k == "ds":
        n, N = case["n"], case["N"]
        for n2, N2 in ((n // 2, N // 2), (n - 1, N - 1), (n - 1, N), (n, N - 1)):
            if n2 >= 1 and N2 >= 0:
                yield dict(case, n=n2, N=N2)
        return
    if k == "merge":
        st = case["stamps"]
        for i in range(len(st)):
            if len(st) > 1:
                yield dict(case, stamps=st[:i] + st[i + 1:])
            if len(st[i]) > 1:
                yield dict(case, stamps=st[:i] + [st[i][: len(st[i]) // 2]] + st[i + 1:])
                yield dict(case, stamps=st[:i] + [st[i][1:]] + st[i + 1:])
        return
    if k == "crop":
        ts = case["ts"]
        if len(ts) > 1:
            yield dict(case, ts=ts[: len(ts) // 2])
            yield dict(case, ts=ts[len(ts) // 2:])
            yield dict(case, ts=ts[1:])
            yield dict(case, ts=ts[:-1])
        return
    # motion / splitters: drop a prefix or suffix of poses
    if "steps" not in case and "ts" not in case:
        return
    per_pose = [key for key in ("rots", "quats", "heads", "ts") if key in case]
    n = len(case[per_pose[0]]) if per_pose else len(case["steps"]) + 1
    for lo, hi in ((0, n // 2), (n // 2, n), (1, n), (0, n - 1)):
        if hi - lo >= 1 and (lo, hi) != (0, n):
            c = dict(case)
            for key in per_pose:
                c[key] = case[key][lo:hi]
            if "steps" in case:
                c["steps"] = case["steps"][lo: max(lo, hi - 1)]
            if lo and "start" in case:
                continue
            yield c


def check(ctx):
    lean = core.lean_side(ctx.prop, ctx.tier)
    core.drift(ctx, MODELLED)
    cases = list(gen_cases(ctx))
    evaluate(ctx, cases)
    core.shrink_all(ctx, shrink, evaluate)
    return core.finish(ctx, lean, rule=RULE, open_clauses=OPEN, assumptions=ASSUME)


OPEN = [
    "the rounding-dependent downsample clauses are proved for every rounding function r with F64Rounding r and instantiated for "
    "Evo.F64.rne! (rne_is_f64_rounding, from the rne specification lemmas of Lemmas/F64) for up to 2^25 poses; that numpy's binary64 "
    "arithmetic IS round-to-nearest-even (model rne = hardware) is established by the exhaustive id comparison, not by proof",
    "step lengths and rotation angles enter the model as rationals computed by the harness (exact on the grid stream, float-accurate "
    "with a 2^-40 margin filter on the random stream); scipy's rotation angle is not modelled",
    "numpy.argsort in merge is not stable: order among equal stamps is compared as sets; the model sorts stably",
    "float rounding of accumulated distances / stamp differences / speeds: random cases within the slack of a threshold are skipped",
]
ASSUME = ["trajectories have at least one pose; positions/orientations/timestamps arrays have equal length",
          "timestamps strictly increasing for crop/splitters (the merge and speed-error cases use ties/decreasing stamps on purpose)"]


def replay(ctx, data):
    core.sh("lake build drv_C11", cwd=core.LEAN)
    evaluate(ctx, [data["case"]])
    return core.finish_replay(ctx)
