"""C12 — a metric result is self-consistent (statistics, companion arrays, unit).
Model: lean/EvoModel/Model/Stats.lean, tables: lean/EvoModel/Gen/Units.lean (translate/units.py)."""
import contextlib
import copy
import decimal
import io
import json
import logging
import math
import random
import warnings

import numpy as np

import core
from core import Fraction, frac, rat, ratlist, natlist, hexs
from translate import units as units_tr

decimal.getcontext().prec = 70
D = decimal.Decimal
PI = D("3.14159265358979323846264338327950288419716939937510582097494459230781640628620899")
EPS = Fraction(1, 2 ** 53)

MODELLED = ["evo/core/metrics.py:PE.change_unit", "evo/core/metrics.py:PE.get_statistic",
            "evo/core/metrics.py:PE.get_all_statistics", "evo/core/metrics.py:PE.get_result",
            "evo/core/metrics.py:StatisticsType", "evo/core/metrics.py:PoseRelation",
            "evo/core/metrics.py:APE.__init__", "evo/core/metrics.py:APE.__str__",
            "evo/core/metrics.py:RPE.__init__", "evo/core/metrics.py:RPE.__str__", "evo/core/metrics.py:RPE.process_data", "evo/core/metrics.py:APE.process_data",
            "evo/core/units.py:Unit", "evo/main_ape.py:ape", "evo/main_rpe.py:rpe",
            "evo/core/trajectory.py:PosePath3D.reduce_to_ids", "evo/core/trajectory.py:PoseTrajectory3D.reduce_to_ids",
            "evo/core/geometry.py:accumulated_distances", "evo/core/result.py:Result.add_np_array"]

RULE = ("case kinds: stats (error arrays 1..2e4 values through the model, up to 1e6 through the oracle only in the thorough "
        "tier; magnitudes 1e-12..1e6, constant, single value, integer grid) compared with the rational statistics "
        "(rmse^2, std^2 as squares; min/max/odd median bit-exact); units (all 100 ordered unit pairs every run on fresh "
        "random arrays, plus conversion chains) compared with changeUnit; hist (get_result -> change_unit -> inspect the "
        "earlier result); ape / rpe (random stamped trajectories, all 7 relations, alignment / projection / unit options, "
        "every pairing mode, stationary reference segments for the ratio filter) compared with the bookkeeping model: "
        "stored pose ids, per-entry pose ids, timestamps, seconds, arc lengths, label and title. "
        "reuse (ONE metric object: 2-3 process_data calls on different trajectories with change_unit / get_result in "
        "between, every result judged on that call's data alone; refused batches - wrong tuple length, pose-count mismatch, "
        "no pairs - after a conversion must leave unit, values, label, statistics and later conversions untouched); array flavours for statistics and change_unit "
        "(strided view, read-only, int64); structured sizes 1, 2, 3, 2^k-1, 2^k, 2^k+1; trajectories built from "
        "positions+quaternions or from pose matrices with cached views read before the call, duplicate / unsorted "
        "timestamps, awkward names. non-trivial = more than one distinct value / an allowed non-identity conversion / an RPE with skipped poses")

UNITS = ["none", "millimeters", "centimeters", "meters", "kilometers", "seconds", "degrees", "radians", "frames", "percent"]
RELS = ["full_transformation", "translation_part", "rotation_part", "rotation_angle_rad", "rotation_angle_deg",
        "point_distance", "point_distance_error_ratio"]
STAT_KEYS = ["rmse", "mean", "median", "std", "min", "max", "sse"]

# ---- the property sentence, written down independently of evo and of the model -------------------
SPEC_LENGTH = {"millimeters": Fraction(1, 1000), "centimeters": Fraction(1, 100), "meters": Fraction(1), "kilometers": Fraction(1000)}
SPEC_ANGLE = {"radians": (Fraction(1), 0), "degrees": (Fraction(1, 180), 1)}       # in radians: q * pi^k
SPEC_VALUE = {"none": "unit-less", "millimeters": "mm", "centimeters": "cm", "meters": "m", "kilometers": "km",
              "seconds": "s", "degrees": "deg", "radians": "rad", "frames": "frames", "percent": "%"}
SPEC_REL_UNIT_APE = {"full_transformation": "none", "translation_part": "meters", "rotation_part": "none",
                     "rotation_angle_rad": "radians", "rotation_angle_deg": "degrees", "point_distance": "meters",
                     "point_distance_error_ratio": "none"}
SPEC_REL_UNIT_RPE = dict(SPEC_REL_UNIT_APE, point_distance_error_ratio="percent")
SPEC_REL_VALUE = {"full_transformation": "full transformation", "translation_part": "translation part",
                  "rotation_part": "rotation part", "rotation_angle_rad": "rotation angle in radians",
                  "rotation_angle_deg": "rotation angle in degrees", "point_distance": "point distance",
                  "point_distance_error_ratio": "point distance error ratio"}


def spec_factor(u, v):
    """(q, k): multiply by q*pi^k; None = must be refused. From the property statement."""
    if u == v:
        return (Fraction(1), 0)
    if u in SPEC_LENGTH and v in SPEC_LENGTH:
        return (SPEC_LENGTH[u] / SPEC_LENGTH[v], 0)
    if u in SPEC_ANGLE and v in SPEC_ANGLE:
        (a, i), (b, j) = SPEC_ANGLE[u], SPEC_ANGLE[v]
        return (a / b, i - j)
    return None


def dec(x):
    if isinstance(x, Fraction):
        return D(x.numerator) / D(x.denominator)
    return D(float(x))


def pipow(k):
    return PI ** k if k >= 0 else 1 / PI ** (-k)


def tol(maxin, result, ulps=64):
    return dec(Fraction(ulps) * EPS) * (abs(dec(maxin)) + abs(result)) + D("1e-300")


def close(x, exact, maxin, ulps=64):
    """float x against the high-precision value `exact` (Decimal)"""
    if x != x or math.isinf(x):
        return False
    return abs(dec(x) - exact) <= tol(maxin, exact, ulps)


# ------------------------------------------------------------------------------------------ generators
def rand_errors(r, n, kind):
    if kind == "const":
        c = r.choice([0.0, 1.0, 0.1, r.uniform(0, 10), 10 ** r.uniform(-12, 6)])
        return [c] * n
    if kind == "grid":
        q = r.choice([1, 2, 4, 8])
        return [r.randint(0, 40) / q for _ in range(n)]
    if kind == "wide":
        return [10 ** r.uniform(-12, 6) for _ in range(n)]
    if kind == "offset":
        base = 10 ** r.uniform(0, 6)
        s = 10 ** r.uniform(-6, 0)
        return [base + r.uniform(0, s) for _ in range(n)]
    if kind == "ties":
        vals = [r.uniform(0, 3) for _ in range(max(1, n // 4))]
        return [r.choice(vals) for _ in range(n)]
    sc = 10 ** r.uniform(-3, 2)
    return [abs(r.gauss(0, sc)) for _ in range(n)]


def gen_traj(r, n, grid):
    """two stamped trajectories with n poses as plain lists"""
    if grid:
        t0 = float(r.randint(0, 1000))
        dt = r.choice([0.5, 0.25, 1.0, 0.125])
        ts = [t0 + k * dt for k in range(n)]
    else:
        t0 = r.choice([0.0, 1.5e9 + r.random() * 1e6])
        ts, t = [], t0
        for _ in range(n):
            ts.append(t)
            t += r.uniform(0.01, 0.2)
    stationary = r.random() < 0.5

    def walk(noise):
        p, out = [r.uniform(-5, 5) for _ in range(3)], []
        if grid:
            p = [float(r.randint(-5, 5)) for _ in range(3)]
        still = 0
        for k in range(n):
            out.append(list(p))
            if stationary and still == 0 and r.random() < 0.25:
                still = r.randint(1, 3)
            if still > 0:
                still -= 1
                continue
            if grid:
                ax = r.randrange(3)
                p[ax] += float(r.choice([-2, -1, 1, 2, 3]))
            else:
                p = [c + r.gauss(0, 0.3) for c in p]
        return out
    ref = walk(0)
    if grid:
        est = [[c + float(r.randint(-1, 1)) for c in p] for p in ref]
    else:
        est = [[c + r.gauss(0, 0.05) for c in p] for p in ref]

    def quats():
        out, ang, axis = [], 0.0, [0.0, 0.0, 1.0]
        for _ in range(n):
            ang += r.gauss(0, 0.2)
            if r.random() < 0.1:
                a = [r.gauss(0, 1) for _ in range(3)]
                nn = math.sqrt(sum(c * c for c in a)) or 1.0
                axis = [c / nn for c in a]
            out.append([math.cos(ang / 2)] + [math.sin(ang / 2) * c for c in axis])
        return out
    out = {"ts": ts, "ref_xyz": ref, "est_xyz": est, "ref_q": quats(), "est_q": quats()}
    tm = r.random()
    if tm < 0.06 and n >= 3:
        i = r.randrange(1, n)
        ts[i] = ts[i - 1]                      # duplicate stamp
        out["ts_mode"] = "dup"
    elif tm < 0.12 and n >= 3:
        i = r.randrange(1, n)
        ts[i], ts[i - 1] = ts[i - 1], ts[i]    # not sorted
        out["ts_mode"] = "unsorted"
    if r.random() < 0.3:
        out["route"] = "poses"
    pre = [a for a in ("positions_xyz", "orientations_quat_wxyz", "poses_se3", "distances") if r.random() < 0.2]
    if pre:
        out["preread"] = pre
    return out


def gen_cases(ctx):
    r = ctx.rng
    th = ctx.thorough
    # ---- corpus of minimised past failures (harness/corpus/C12/*.json), replayed first
    for f in sorted((core.VERIF / "harness" / "corpus" / "C12").glob("*.json")):
        c = json.loads(f.read_text())["case"]
        c["corpus"] = f.stem
        yield c
    yield {"kind": "stats", "e": [1.0]}
    yield {"kind": "stats", "e": [1.0, 2.0, 3.0, 6.0]}
    yield {"kind": "stats", "e": [0.1, 0.1, 0.1]}
    yield {"kind": "stats", "e": [3.0, 1.0, 2.0]}
    # long arrays (the property quantifies over 1..10^6 values; thresholds of "large input" code paths: 10^5, 2^17)
    rl = random.Random(f"C12-long/{ctx.seed}")
    for n in (99999, 100000, 131072):
        yield {"kind": "stats", "gen": "long", "e": [float(rl.randint(0, 4096)) / 64 for _ in range(n)], "sized": True}
    yield {"kind": "hist", "u": "meters", "v": "millimeters", "e": [1.0, 2.0], "corpus": "F11"}
    yield {"kind": "hist", "u": "radians", "v": "degrees", "e": [0.5, 1.0]}
    # ---- statistics
    for _ in range(1200 if not th else 12000):
        kind = r.choice(["gauss", "gauss", "const", "grid", "wide", "offset", "ties"])
        n = r.choice([1, 1, 2, 2, 3, 4, 5, r.randint(1, 12), r.randint(1, 60), r.randint(1, 400)])
        yield {"kind": "stats", "gen": kind, "e": rand_errors(r, n, kind)}
    for _ in range(6 if not th else 40):
        kind = r.choice(["gauss", "wide", "offset", "ties"])
        yield {"kind": "stats", "gen": kind, "e": rand_errors(r, r.randint(2000, 6000 if not th else 20000), kind)}
    sizes = [k for p in range(1, 14 if not th else 18) for k in (2 ** p - 1, 2 ** p, 2 ** p + 1)]
    for n in sorted(set(sizes)):
        kind = r.choice(["gauss", "wide", "offset", "ties", "grid", "const"])
        yield {"kind": "stats", "gen": kind, "e": rand_errors(r, n, kind), "sized": True}
    for _ in range(120 if not th else 1200):
        fl_ = r.choice(["strided", "readonly", "int"])
        n = r.choice([1, 2, 3, r.randint(1, 40), r.randint(1, 300)])
        e = [float(r.randint(0, 50)) for _ in range(n)] if fl_ == "int" else rand_errors(r, n, r.choice(["gauss", "wide", "grid"]))
        what = r.random()
        if what < 0.5:
            yield {"kind": "stats", "gen": "flavour", "flavour": fl_, "e": e}
        elif what < 0.8:
            fam = r.choice([["millimeters", "centimeters", "meters", "kilometers"], ["degrees", "radians"], UNITS])
            yield {"kind": "units", "chain": [r.choice(fam) for _ in range(r.randint(2, 4))], "e": e, "flavour": fl_}
        else:
            fam = r.choice([["millimeters", "centimeters", "meters", "kilometers"], ["degrees", "radians"]])
            yield {"kind": "hist", "u": r.choice(fam), "v": r.choice(fam), "e": e, "flavour": fl_}
    yield {"kind": "reuse", "metric": "ape", "rel": "translation_part", "corpus": "reuse-after-change_unit", "steps": [
        {"op": "P", "traj": {"ts": [0.0, 1.0, 2.0], "ref_xyz": [[0.0, 0, 0], [1.0, 0, 0], [2.0, 0, 0]], "est_xyz": [[1.0, 0, 0], [2.0, 0, 0], [3.0, 0, 0]],
                             "ref_q": [[1.0, 0, 0, 0]] * 3, "est_q": [[1.0, 0, 0, 0]] * 3}},
        {"op": "C", "unit": "millimeters"}, {"op": "R"},
        {"op": "P", "traj": {"ts": [0.0, 1.0, 2.0], "ref_xyz": [[0.0, 0, 0], [1.0, 0, 0], [2.0, 0, 0]], "est_xyz": [[2.0, 0, 0], [3.0, 0, 0], [4.0, 0, 0]],
                             "ref_q": [[1.0, 0, 0, 0]] * 3, "est_q": [[1.0, 0, 0, 0]] * 3}},
        {"op": "R"}]}
    # good batch -> change_unit -> refused batch (each class) -> inspect, convert again, inspect, new batch
    for metric in ("ape", "rpe"):
        for rel in ("translation_part", "point_distance", "rotation_angle_deg", "rotation_angle_rad", "full_transformation"):
            nat = SPEC_REL_UNIT_APE[rel]
            fam = list(SPEC_LENGTH) if nat in SPEC_LENGTH else list(SPEC_ANGLE) if nat in SPEC_ANGLE else UNITS
            for why in ("tuple1", "tuple3", "mismatch") + (("nopairs",) if metric == "rpe" else ()):
                for _ in range(1 if not th else 6):
                    u1 = r.choice([u for u in fam if u != nat])
                    steps = [{"op": "P", "traj": gen_traj(r, r.randint(3, 6), r.random() < 0.5)}, {"op": "C", "unit": u1},
                             {"op": "X", "why": why, "traj": gen_traj(r, r.randint(3, 5), True)}, {"op": "R"},
                             {"op": "C", "unit": r.choice(fam)}, {"op": "R"}]
                    if r.random() < 0.5:
                        steps += [{"op": "P", "traj": gen_traj(r, r.randint(3, 6), False)}, {"op": "R"}]
                    yield {"kind": "reuse", "metric": metric, "rel": rel, "steps": steps, "refusal": why}
    for _ in range(80 if not th else 800):
        metric = r.choice(["ape", "rpe"])
        rel = r.choice(["translation_part", "translation_part", "point_distance", "rotation_angle_deg", "rotation_angle_rad",
                        "rotation_part", "full_transformation"])
        nat = (SPEC_REL_UNIT_APE if metric == "ape" else SPEC_REL_UNIT_RPE)[rel]
        fam = list(SPEC_LENGTH) if nat in SPEC_LENGTH else list(SPEC_ANGLE) if nat in SPEC_ANGLE else UNITS
        steps = []
        for k in range(r.randint(2, 3)):
            grid = r.random() < 0.4
            steps.append({"op": "P", "traj": gen_traj(r, r.randint(3, 6), grid)})
            for _ in range(r.randint(0, 2)):
                steps.append(r.choice([{"op": "C", "unit": r.choice(fam)}, {"op": "C", "unit": r.choice(UNITS)}, {"op": "R"}]))
            if r.random() < 0.3:
                steps.append({"op": "X", "why": r.choice(["tuple1", "tuple3", "mismatch"] + (["nopairs"] if metric == "rpe" else [])),
                              "traj": gen_traj(r, r.randint(3, 5), True)})
            steps.append({"op": "R"})
        yield {"kind": "reuse", "metric": metric, "rel": rel, "steps": steps}
    if th:
        for nbig in (100000, 1000000):
            yield {"kind": "stats_big", "n": nbig, "seed": r.randrange(2 ** 31), "gen": r.choice(["grid", "gauss"])}
    # ---- units: the complete matrix on fresh arrays, then chains
    for u in UNITS:
        for v in UNITS:
            n = r.choice([1, 2, 5, 17])
            yield {"kind": "units", "chain": [u, v], "e": rand_errors(r, n, r.choice(["gauss", "wide", "grid"]))}
    for u in UNITS:
        yield {"kind": "units", "chain": [u, r.choice(UNITS)], "e": []}
    for _ in range(300 if not th else 3000):
        fam = r.choice([["millimeters", "centimeters", "meters", "kilometers"], ["degrees", "radians"], UNITS])
        chain = [r.choice(fam) for _ in range(r.randint(3, 6))]
        yield {"kind": "units", "chain": chain, "e": rand_errors(r, r.randint(1, 8), r.choice(["gauss", "wide"]))}
    for _ in range(200 if not th else 2000):
        u, v = r.choice(UNITS), r.choice(UNITS)
        if r.random() < 0.6:
            fam = r.choice([["millimeters", "centimeters", "meters", "kilometers"], ["degrees", "radians"]])
            u, v = r.choice(fam), r.choice(fam)
        yield {"kind": "hist", "u": u, "v": v, "e": rand_errors(r, r.randint(1, 9), r.choice(["gauss", "grid"]))}
    # ---- ape() / rpe()
    for _ in range(900 if not th else 9000):
        grid = r.random() < 0.4
        n = r.randint(3, 14 if not th else 40)
        c = {"kind": r.choice(["ape", "rpe", "rpe"]), "grid": grid, "traj": gen_traj(r, n, grid),
             "rel": None, "align": n >= 5 and r.random() < 0.3, "correct_scale": n >= 5 and r.random() < 0.25,
             "align_origin": r.random() < 0.2, "n_to_align": r.choice([-1, -1, -1, max(3, n - 1)]),
             "plane": r.choice([None, None, None, "xy", "xz", "yz"]),
             "est_name": r.choice(["estimate", "runs/a/est.txt", "est one", "b.tum", "1e3", "-1", "est \u00fc\u4e2d", " trailing ", "dir/"]),
             "ref_name": r.choice(["reference", "gt.tum", "0", "ref \u00e9", "estimate "])}
        c["rel"] = r.choice(RELS if c["kind"] == "rpe" else RELS[:-1])   # APE does not offer the ratio relation
        nat = (SPEC_REL_UNIT_APE if c["kind"] == "ape" else SPEC_REL_UNIT_RPE)[c["rel"]]
        rr = r.random()
        if rr < 0.45 or (rr < 0.9 and nat not in SPEC_LENGTH and nat not in SPEC_ANGLE):
            c["change_unit"] = None
        elif rr < 0.93 and (nat in SPEC_LENGTH or nat in SPEC_ANGLE):
            c["change_unit"] = r.choice(list(SPEC_LENGTH if nat in SPEC_LENGTH else SPEC_ANGLE))
        else:
            c["change_unit"] = r.choice(UNITS[1:])
        if c["kind"] == "rpe":
            du = r.choice(["frames", "frames", "meters", "radians", "degrees"])
            c["delta_unit"] = du
            c["delta"] = {"frames": r.randint(1, 4), "meters": r.choice([1.0, 2.0, 3.0, 4.0]) if grid else r.uniform(0.3, 1.5),
                          "radians": r.uniform(0.05, 0.4), "degrees": r.uniform(3, 20)}[du]
            if du == "frames" and r.random() < 0.3:
                c["delta"] = float(c["delta"])
            c["all_pairs"] = r.random() < 0.4
            c["pairs_from_reference"] = r.random() < 0.4
            c["rel_delta_tol"] = r.choice([0.1, 0.3, 0.5])
            c["support_loop"] = r.random() < 0.5
        yield c


# ------------------------------------------------------------------------------------------ implementation side
@contextlib.contextmanager
def quiet():
    logging.disable(logging.CRITICAL)
    buf = io.StringIO()
    try:
        with contextlib.redirect_stdout(buf), warnings.catch_warnings():
            warnings.simplefilter("ignore")
            yield
    finally:
        logging.disable(logging.NOTSET)


def unit_of(name):
    from evo.core.units import Unit
    return Unit[name]


def make_array(e, flavour=None):
    """the values e as an ndarray of the given flavour (same values in every flavour)"""
    if flavour == "int":
        return np.array([int(x) for x in e], dtype=np.int64)
    if flavour == "strided":
        base = np.full(2 * len(e) + 1, -7.5)
        base[1::2] = e
        return base[1::2]
    a = np.array(e, dtype=float)
    if flavour == "readonly":
        a.setflags(write=False)
    return a


def new_pe(uname, e, flavour=None):
    from evo.core import metrics
    m = metrics.APE()
    m.unit = unit_of(uname)
    m.error = make_array(e, flavour)
    return m


def fl(x):
    return [float(v) for v in np.asarray(x, dtype=float).ravel()]


def impl_stats(e, flavour=None):
    from evo.core import metrics
    m = new_pe("meters", e, flavour)
    before = m.error.tobytes()
    allst = m.get_all_statistics()
    single = {s.value: float(m.get_statistic(s)) for s in metrics.StatisticsType}
    # computing statistics / taking a result must not reorder or rescale the values: value k stays the error of pose k
    res = m.get_result("ref", "est")
    return {"all": {k: float(v) for k, v in allst.items()}, "keys": list(allst.keys()), "single": single,
            "unchanged": m.error.tobytes() == before
            and np.asarray(res.np_arrays["error_array"], dtype=float).tobytes() == np.asarray(make_array(e, None), dtype=float).tobytes()}


def impl_units(case):
    from evo.core import metrics
    chain = case["chain"]
    m = new_pe(chain[0], case["e"], case.get("flavour"))
    steps = []
    for v in chain[1:]:
        arr = m.error
        before, ubefore = arr.tobytes(), m.unit.name
        try:
            m.change_unit(unit_of(v))
            steps.append({"ok": True, "unit": m.unit.name, "values": fl(m.error), "input_array_unchanged": arr.tobytes() == before})
        except metrics.MetricsException:
            steps.append({"ok": False, "unit": m.unit.name, "values": fl(m.error),
                          "untouched": m.unit.name == ubefore and m.error is arr and arr.tobytes() == before})
    return {"steps": steps}


def res_view(res):
    return {"label": res.info.get("label"), "title": res.info.get("title"), "stats": {k: float(v) for k, v in res.stats.items()},
            "error_array": fl(res.np_arrays["error_array"])}


def impl_hist(case):
    from evo.core import metrics
    m = new_pe(case["u"], case["e"], case.get("flavour"))
    r1 = m.get_result("ref", "est")
    v1 = res_view(r1)
    try:
        m.change_unit(unit_of(case["v"]))
        ok = True
    except metrics.MetricsException:
        ok = False
    v1_after = res_view(r1)
    r2 = m.get_result("ref", "est")
    return {"ok": ok, "first_before": v1, "first_after": v1_after, "second": res_view(r2), "pe_unit": m.unit.name,
            "pe_values": fl(m.error)}


def build(tr, which):
    """construction route and the cached views read before the call under test are part of the case;
    the twin used for the expected values is built by the same recipe"""
    from evo.core.trajectory import PoseTrajectory3D
    t = PoseTrajectory3D(positions_xyz=np.array(tr[which + "_xyz"], dtype=float),
                         orientations_quat_wxyz=np.array(tr[which + "_q"], dtype=float),
                         timestamps=np.array(tr["ts"], dtype=float))
    if tr.get("route") == "poses":
        t = PoseTrajectory3D(poses_se3=[np.array(p) for p in t.poses_se3], timestamps=np.array(tr["ts"], dtype=float))
    for attr in tr.get("preread", []):
        getattr(t, attr)
    return t


def traj_view(t):
    return {"ts": fl(t.timestamps), "xyz": [fl(p) for p in t.positions_xyz],
            "poses": [fl(p) for p in t.poses_se3]}


def call_metric(case, ref, est, support_loop):
    from evo.core import metrics
    from evo.core.trajectory import Plane
    from evo import main_ape, main_rpe
    kw = dict(pose_relation=metrics.PoseRelation[case["rel"]], align=case["align"], correct_scale=case["correct_scale"],
              n_to_align=case["n_to_align"], align_origin=case["align_origin"], ref_name=case["ref_name"],
              est_name=case["est_name"], change_unit=unit_of(case["change_unit"]) if case["change_unit"] else None,
              project_to_plane=Plane(case["plane"]) if case["plane"] else None)
    if case["kind"] == "ape":
        return main_ape.ape(ref, est, **kw)
    return main_rpe.rpe(ref, est, delta=case["delta"], delta_unit=unit_of(case["delta_unit"]),
                        rel_delta_tol=case["rel_delta_tol"], all_pairs=case["all_pairs"],
                        pairs_from_reference=case["pairs_from_reference"], support_loop=support_loop, **kw)


def impl_metric(case):
    """runs ape()/rpe(); P = the processed (aligned, projected, not reduced) trajectories, obtained from a second,
    identical call whose arguments are left unreduced (ape: always; rpe: support_loop=True)"""
    from evo.core import metrics, filters
    from evo import EvoException
    out = {}
    with quiet():
        try:
            ref, est = build(case["traj"], "ref"), build(case["traj"], "est")
            res = call_metric(case, ref, est, case.get("support_loop", False))
        except metrics.MetricsException as e:
            return {"error": "E_METRICS", "msg": str(e)[:80]}
        except filters.FilterException as e:
            return {"error": "E_FILTER", "msg": str(e)[:80]}
        except EvoException as e:
            return {"error": "E_OTHER", "msg": type(e).__name__ + ": " + str(e)[:80]}
        except ValueError as e:
            # RPE ratio with every reference distance zero: no value is left and numpy refuses min() of nothing
            if "zero-size array" in str(e) and case["rel"] == "point_distance_error_ratio":
                return {"error": "E_EMPTY", "msg": str(e)[:80]}
            raise
        pref, pest = build(case["traj"], "ref"), build(case["traj"], "est")
        call_metric(case, pref, pest, True)
        # fresh evaluation of the metric on copies of the processed trajectories (natural unit)
        if case["kind"] == "ape":
            m = metrics.APE(metrics.PoseRelation[case["rel"]])
        else:
            m = metrics.RPE(metrics.PoseRelation[case["rel"]], case["delta"], unit_of(case["delta_unit"]),
                            case["rel_delta_tol"], case["all_pairs"], case["pairs_from_reference"])
        m.process_data((copy.deepcopy(pref), copy.deepcopy(pest)))
        out["fresh_error"] = fl(m.error)
        out["fresh_unit"] = m.unit.name
        if case["kind"] == "rpe":
            out["delta_ids"] = [int(j) for j in m.delta_ids]
            out["delta_str"] = str(m.delta)
            # the pairs and their point distances, recomputed like process_data does
            pairs = metrics.id_pairs_from_delta(pref.poses_se3 if case["pairs_from_reference"] else pest.poses_se3,
                                                m.delta, m.delta_unit, m.rel_delta_tol, all_pairs=m.all_pairs)
            out["pairs"] = [[int(i), int(j)] for i, j in pairs]
            out["ref_d"] = [float(np.linalg.norm(pref.positions_xyz[i] - pref.positions_xyz[j])) for i, j in pairs]
            out["est_d"] = [float(np.linalg.norm(pest.positions_xyz[i] - pest.positions_xyz[j])) for i, j in pairs]
    out["info"] = {k: res.info.get(k) for k in ("title", "label", "ref_name", "est_name")}
    out["stats"] = {k: float(v) for k, v in res.stats.items()}
    out["arrays"] = {k: fl(v) for k, v in res.np_arrays.items() if k != "alignment_transformation_sim3"}
    out["array_keys"] = list(res.np_arrays.keys())
    out["traj_keys"] = list(res.trajectories.keys())
    out["stored_ref"] = traj_view(res.trajectories[case["ref_name"]])
    out["stored_est"] = traj_view(res.trajectories[case["est_name"]])
    out["P_ref"] = traj_view(pref)
    out["P_est"] = traj_view(pest)
    if case["kind"] == "rpe" and not case.get("support_loop"):
        out["args_are_stored"] = res.trajectories[case["ref_name"]] is ref and res.trajectories[case["est_name"]] is est
    return out


def big_errors(case):
    rs = np.random.RandomState(case["seed"])
    if case["gen"] == "grid":
        return rs.randint(0, 64, size=case["n"]).astype(float) / 8.0
    return np.abs(rs.normal(0, 0.5, size=case["n"]))


def impl_reuse(case):
    """one metric object over the whole history; the expected fresh values of each process_data come from a
    new metric object on identically built twins"""
    from evo.core import metrics, filters
    from evo.core.units import Unit
    rel = metrics.PoseRelation[case["rel"]]

    def mk():
        return metrics.APE(rel) if case["metric"] == "ape" else metrics.RPE(rel, 1, Unit.frames)
    m = mk()
    out = []
    with quiet():
        for st in case["steps"]:
            if st["op"] == "P":
                m.process_data((build(st["traj"], "ref"), build(st["traj"], "est")))
                twin = mk()
                twin.process_data((build(st["traj"], "ref"), build(st["traj"], "est")))
                out.append({"fresh": fl(twin.error), "fresh_unit": twin.unit.name})
            elif st["op"] == "X":
                ref, est = build(st["traj"], "ref"), build(st["traj"], "est")
                if st["why"] == "tuple1":
                    data = (ref,)
                elif st["why"] == "tuple3":
                    data = (ref, est, est)
                elif st["why"] == "mismatch":
                    est.reduce_to_ids(list(range(est.num_poses - 1)))
                    data = (ref, est)
                else:                                   # nopairs: a single pose has no pair (RPE)
                    ref.reduce_to_ids([0])
                    est.reduce_to_ids([0])
                    data = (ref, est)
                try:
                    m.process_data(data)
                    out.append({"refused": False})
                except (metrics.MetricsException, filters.FilterException) as e:
                    out.append({"refused": True, "exc": type(e).__name__})
            elif st["op"] == "C":
                try:
                    m.change_unit(unit_of(st["unit"]))
                    out.append({"ok": True})
                except metrics.MetricsException:
                    out.append({"ok": False})
            else:
                res = m.get_result("ref", "est")
                out.append({"label": res.info.get("label"), "title": res.info.get("title"), "unit": m.unit.name,
                            "values": fl(res.np_arrays["error_array"]), "stats": {k: float(v) for k, v in res.stats.items()}})
    return {"steps": out}


def run_impl(case):
    """every call into evo is wrapped: an unexpected exception is judged by the oracle, not a harness crash"""
    try:
        return run_impl_(case)
    except Exception as e:  # noqa: BLE001
        return {"crash": type(e).__name__ + ": " + str(e)[:120]}


def run_impl_(case):
    k = case["kind"]
    if k == "reuse":
        return impl_reuse(case)
    if k == "stats":
        return impl_stats(case["e"], case.get("flavour"))
    if k == "stats_big":
        return impl_stats(big_errors(case))
    if k == "units":
        return impl_units(case)
    if k == "hist":
        return impl_hist(case)
    return impl_metric(case)


# ------------------------------------------------------------------------------------------ model side
def flat3(ps):
    return [c for p in ps for c in p]


def model_lines(case, impl):
    if "crash" in impl:
        return []
    k = case["kind"]
    if k == "reuse":
        nat = (SPEC_REL_UNIT_APE if case["metric"] == "ape" else SPEC_REL_UNIT_RPE)[case["rel"]]
        toks = []
        for st, so in zip(case["steps"], impl["steps"]):
            toks.append("P " + ratlist(so["fresh"]) if st["op"] == "P" else "C " + st["unit"] if st["op"] == "C"
                        else "X" if st["op"] == "X" else "R")
        return [f"C12 reuse {hexs(case['metric'].upper())} {nat} " + " ".join(toks)]
    if k == "stats":
        return ["C12 stats " + ratlist(case["e"])]
    if k == "stats_big":
        return []
    if k == "units":
        # one line per step, fed with the values evo had before that step (so that one wrong step is one mismatch)
        lines, cur, unit = [], case["e"], case["chain"][0]
        for v, st in zip(case["chain"][1:], impl["steps"]):
            lines.append(f"C12 cu {unit} 0 {v} {ratlist(cur)}")
            cur, unit = st["values"], st["unit"]
        return lines
    if k == "hist":
        return [f"C12 hist new {hexs('APE')} {case['u']} {case['v']} {ratlist(case['e'])}",
                f"C12 hist old {hexs('APE')} {case['u']} {case['v']} {ratlist(case['e'])}"]
    # ape / rpe
    lines = []
    chg = case["change_unit"] or "-"
    nprobe = 1
    if k == "ape":
        lines.append(f"C12 naming ape {case['rel']} {chg} {nprobe}")
    else:
        d = case["delta"]
        dstr = str(int(d)) if case["delta_unit"] == "frames" else str(d)
        lines.append(f"C12 naming rpe {case['rel']} {chg} {nprobe} {hexs(dstr)} {case['delta_unit']} {1 if case['all_pairs'] else 0}")
    lines.append("C12 suffix %d %d %d %d %s" % (case["align"], case["correct_scale"], case["align_origin"], case["n_to_align"],
                                                  hexs(case["plane"]) if case["plane"] else "-"))
    if "error" in impl:
        return lines
    P_ref, P_est = impl["P_ref"], impl["P_est"]
    if k == "ape":
        lines.append(f"C12 ape {ratlist(P_est['ts'])} {ratlist(flat3(P_ref['xyz']))} {ratlist(flat3(P_est['xyz']))}")
    else:
        lines.append(f"C12 rpe {ratlist(P_est['ts'])} {ratlist(flat3(P_ref['xyz']))} {ratlist(flat3(P_est['xyz']))} {natlist(impl['delta_ids'])}")
        lines.append(f"C12 ratio {ratlist(impl['ref_d'])} {ratlist(impl['est_d'])} {natlist([j for _, j in impl['pairs']])}")
    return lines


# ------------------------------------------------------------------------------------------ exact statistics (oracle)
def exact_stats(e):
    """the definitions of the property statement in exact arithmetic (independent of evo and of the Lean model)"""
    fs = [frac(x) for x in e]
    n = len(fs)
    s = sum(fs, Fraction(0))
    ss = sum((x * x for x in fs), Fraction(0))
    mean = s / n
    srt = sorted(fs)
    med = srt[n // 2] if n % 2 else (srt[n // 2 - 1] + srt[n // 2]) / 2
    var = sum(((x - mean) ** 2 for x in fs), Fraction(0)) / n
    return {"rmse": dec(ss / n).sqrt(), "mean": dec(mean), "median": dec(med), "std": dec(var).sqrt(),
            "min": dec(min(fs)), "max": dec(max(fs)), "sse": dec(ss), "_med_exact": n % 2 == 1,
            "_fr": {"min": min(fs), "max": max(fs), "median": med}}


def oracle_stats(ctx, case, e, st, what="stats"):
    """st: {name: float} as reported by evo for the values e"""
    if sorted(st.keys()) != sorted(STAT_KEYS):
        ctx.fail(case, "statistics-complete", f"{what}: statistics {sorted(st.keys())}")
        return
    ex = exact_stats(e)
    mx = max(abs(float(x)) for x in e)
    bad = [k for k in STAT_KEYS if st[k] != st[k] or math.isinf(st[k])]
    if bad:
        ctx.fail(case, "statistic-equals-definition", f"{what}: {bad[0]} = {st[bad[0]]!r}, definition gives {float(ex[bad[0]])!r}", {"stat": bad[0]})
        return
    for k in STAT_KEYS:
        if k in ("min", "max") or (k == "median" and ex["_med_exact"]):
            good = st[k] == st[k] and not math.isinf(st[k]) and frac(st[k]) == ex["_fr"][k]
        elif k == "sse":
            good = close(st[k], ex[k], mx * mx)
        else:
            good = close(st[k], ex[k], mx)
        if not good:
            ctx.fail(case, "statistic-equals-definition", f"{what}: {k} = {st[k]!r}, definition gives {float(ex[k])!r}", {"stat": k})
    sl = float(tol(mx, D(mx))) * 2
    if not (st["min"] <= st["median"] <= st["max"]):
        ctx.fail(case, "min<=median<=max", f"{what}: {st['min']} {st['median']} {st['max']}")
    if not (st["min"] - sl <= st["mean"] <= st["rmse"] + sl and st["rmse"] <= st["max"] + sl):
        ctx.fail(case, "min<=mean<=rmse<=max", f"{what}: {st['min']} {st['mean']} {st['rmse']} {st['max']}")
    lhs, rhs = dec(st["rmse"]) ** 2, dec(st["mean"]) ** 2 + dec(st["std"]) ** 2
    if abs(lhs - rhs) > 4 * tol(mx * mx, lhs):
        ctx.fail(case, "rmse^2=mean^2+std^2", f"{what}: {float(lhs)} vs {float(rhs)}")


# ------------------------------------------------------------------------------------------ judges
def judge_stats(ctx, case, impl, outs):
    e = case["e"] if case["kind"] == "stats" else big_errors(case)
    st = impl["all"]
    if case["kind"] == "stats":
        m = [core.parse_rat(x) for x in outs[0].split()]
        names = ["rmse", "mean", "median", "std", "min", "max", "sse"]
        mx = max(abs(x) for x in e)
        for name, val in zip(names, m):
            if name not in st:
                ctx.mismatch(case, f"get_all_statistics lacks {name}", sorted(st), names)
                continue
            exact = dec(val).sqrt() if name in ("rmse", "std") else dec(val)
            if name in ("min", "max") or (name == "median" and len(e) % 2 == 1):
                good = st[name] == st[name] and not math.isinf(st[name]) and frac(st[name]) == val
            else:
                good = close(st[name], exact, mx * mx if name == "sse" else mx)
            if not good:
                ctx.mismatch(case, f"statistic {name} differs from Stats.{name}", st[name], float(exact))
        if list(impl["keys"]) != names:
            ctx.mismatch(case, "order/set of statistics differs from Gen.Units.statistics", impl["keys"], names)
    if {k: repr(v) for k, v in impl["single"].items()} != {k: repr(st.get(k)) for k in impl["single"]}:
        ctx.fail(case, "get_statistic=get_all_statistics", f"{impl['single']} vs {st}")
    if not impl["unchanged"]:
        ctx.fail(case, "inputs-unmodified", "computing statistics changed the error array")
    oracle_stats(ctx, case, e, st)
    ctx.count("dist", "stats:" + case.get("gen", "corpus"))
    n = len(e)
    ctx.count("dist", "n=1" if n == 1 else "n<=5" if n <= 5 else "n<=400" if n <= 400 else "n<=20000" if n <= 20000 else "n>20000")
    ctx.count("branch", "median-odd" if n % 2 else "median-even")
    ctx.record(case if case["kind"] == "stats" else dict(case), len(set(map(float, e))) > 1)


def scaled(values, q, k):
    f = dec(q) * pipow(k)
    return [dec(x) * f for x in values]


def judge_units(ctx, case, impl, outs):
    cur, unit = case["e"], case["chain"][0]
    nontrivial = False
    for v, st, out in zip(case["chain"][1:], impl["steps"], outs):
        # ---- model
        if out == "REFUSED":
            if st["ok"]:
                ctx.mismatch(case, f"change_unit {unit}->{v} accepted, model refuses", st["unit"], out)
        else:
            toks = out.split()
            mu, mk, mv = toks[0], int(toks[1]), [core.parse_rat(x) for x in toks[2:]]
            if not st["ok"]:
                ctx.mismatch(case, f"change_unit {unit}->{v} refused, model converts", "MetricsException", out[:60])
            elif st["unit"] != mu or len(st["values"]) != len(mv):
                ctx.mismatch(case, f"change_unit {unit}->{v}: unit/length differ", (st["unit"], len(st["values"])), (mu, len(mv)))
            else:
                for a, b, x in zip(st["values"], mv, cur):
                    if not close(a, dec(b) * pipow(mk), abs(x) * 0, ulps=8):
                        ctx.mismatch(case, f"change_unit {unit}->{v}: value differs from Stats.changeUnit", a, float(dec(b) * pipow(mk)))
                        break
            ctx.count("branch", "cu-same" if unit == v else "cu-length" if mk == 0 else "cu-angle")
        # ---- oracle
        sf = spec_factor(unit, v)
        if not cur:
            ctx.count("branch", "cu-empty")
        elif sf is None:
            ctx.count("branch", "cu-refused")
            if st["ok"]:
                ctx.fail(case, "conversion-refused", f"{unit} -> {v} was carried out: {st['values'][:3]}", {"from": unit, "to": v})
            elif not st["untouched"]:
                ctx.fail(case, "refused-leaves-values", f"{unit} -> {v} refused but unit/values changed", {"from": unit, "to": v})
        else:
            if not st["ok"]:
                ctx.fail(case, "conversion-carried-out", f"{unit} -> {v} refused", {"from": unit, "to": v})
            else:
                if st["unit"] != v:
                    ctx.fail(case, "unit-updated", f"{unit} -> {v}: unit now {st['unit']}")
                want = scaled(cur, *sf)
                bad = [i for i, (a, w) in enumerate(zip(st["values"], want)) if not close(a, w, 0, ulps=8)]
                if bad or len(want) != len(st["values"]):
                    i = bad[0] if bad else 0
                    ctx.fail(case, "exact-conversion-factor", f"{unit} -> {v}: value {cur[i]!r} became {st['values'][i]!r}, "
                             f"exact factor gives {float(want[i])!r}", {"from": unit, "to": v})
                if unit != v:
                    nontrivial = True
        cur, unit = st["values"], st["unit"]
    ctx.count("dist", "units:chain%d" % (len(case["chain"]) - 1))
    ctx.record(case, nontrivial)


def parse_hist(out):
    a, b, c, d = [x.strip() for x in out.split("|")]
    lab, ucre = a.split()
    return {"label": bytes.fromhex(lab).decode(), "unit_at_creation": ucre,
            "res": [core.parse_rat(x) for x in b.split()], "pe_unit": c, "pe": [core.parse_rat(x) for x in d.split()]}


def judge_hist(ctx, case, impl, outs):
    new, old = parse_hist(outs[0]), parse_hist(outs[1])
    u, v, e = case["u"], case["v"], case["e"]
    sf = spec_factor(u, v)
    fa, fb = impl["first_after"], impl["first_before"]
    # ---- model (heap model of the repaired code): the earlier result's array after the conversion
    k = 0 if sf is None else sf[1]
    want_res = list(new["res"])
    if len(fa["error_array"]) != len(want_res) or any(frac(a) != w for a, w in zip(fa["error_array"], want_res)):
        ctx.mismatch(case, "earlier result's error_array after change_unit differs from the heap model (changeUnitH)",
                     fa["error_array"][:4], [float(x) for x in want_res[:4]])
    if fa["label"] != new["label"]:
        ctx.mismatch(case, "label of the earlier result differs from metricLabel", fa["label"], new["label"])
    if impl["pe_unit"] != new["pe_unit"]:
        ctx.mismatch(case, "unit of the metric after change_unit differs from the model", impl["pe_unit"], new["pe_unit"])
    elif any(not close(a, dec(b) * pipow(k), 0, ulps=8) for a, b in zip(impl["pe_values"], new["pe"])):
        ctx.mismatch(case, "values of the metric after change_unit differ from the model", impl["pe_values"][:4], None)
    if old["res"] != new["res"]:
        ctx.count("branch", "hist-F10-old-model-differs".replace("F10", "F11"))
    # ---- oracle: the result handed out earlier is still self-consistent
    if fa != fb:
        what = [k_ for k_ in fa if fa[k_] != fb[k_]]
        ctx.fail(case, "earlier-result-unchanged", f"get_result(); change_unit({u}->{v}) changed {what} of the earlier result: "
                 f"{fb['error_array'][:3]} -> {fa['error_array'][:3]} under label {fa['label']!r}", {"from": u, "to": v})
    if f"({SPEC_VALUE[u]})" not in (fa["label"] or ""):
        ctx.fail(case, "label-names-unit", f"earlier result label {fa['label']!r} does not name {SPEC_VALUE[u]}")
    oracle_stats(ctx, case, fa["error_array"], fa["stats"], "earlier result")
    s2 = impl["second"]
    expect_unit = v if (sf is not None) else u
    if f"({SPEC_VALUE[expect_unit]})" not in (s2["label"] or ""):
        ctx.fail(case, "label-names-unit", f"result after change_unit({u}->{v}) has label {s2['label']!r}")
    oracle_stats(ctx, case, s2["error_array"], s2["stats"], "later result")
    if sf is not None:
        want = scaled(e, *sf)
        if any(not close(a, w, 0, ulps=8) for a, w in zip(s2["error_array"], want)):
            ctx.fail(case, "exact-conversion-factor", f"later result values {s2['error_array'][:3]}")
    ctx.count("dist", "hist:" + ("allowed" if sf is not None and u != v else "same" if u == v else "refused"))
    ctx.record(case, sf is not None and u != v)


def cum_sqrt(step_sq):
    out, s = [D(0)], D(0)
    for x in step_sq:
        s += dec(x).sqrt()
        out.append(s)
    return out


def arclen(xyz):
    """exact-arithmetic accumulated distances of a list of positions"""
    out, s = [D(0)], D(0)
    for a, b in zip(xyz, xyz[1:]):
        s += dec(sum(((frac(q) - frac(p)) ** 2 for p, q in zip(a, b)), Fraction(0))).sqrt()
        out.append(s)
    return out


def same_pose(a, b, k, j):
    return (a["ts"][k] == b["ts"][j] and a["xyz"][k] == b["xyz"][j] and a["poses"][k] == b["poses"][j])


def judge_metric(ctx, case, impl, outs):
    kind = case["kind"]
    table = SPEC_REL_UNIT_APE if kind == "ape" else SPEC_REL_UNIT_RPE
    nat = table[case["rel"]]
    chg = case["change_unit"]
    sf = spec_factor(nat, chg) if chg else (Fraction(1), 0)
    ctx.count("dist", f"{kind}:{case['rel']}")
    ctx.count("dist", "change_unit:" + ("none" if not chg else "allowed" if sf else "refused"))
    # ---------------- naming (model)
    naming = outs[0]
    if "error" in impl:
        ctx.count("branch", "metric-" + impl["error"])
        if impl["error"] == "E_METRICS":
            if naming != "REFUSED":
                ctx.mismatch(case, "ape()/rpe() raised MetricsException, model converts", impl["msg"], naming)
            if sf is not None:
                ctx.fail(case, "conversion-carried-out", f"{kind}() refused change_unit {nat}->{chg}: {impl['msg']}")
        ctx.record(case, False)
        return
    if naming == "REFUSED":
        ctx.mismatch(case, "model refuses the unit change, ape()/rpe() returned a result", impl["info"]["label"], naming)
        final_unit = None
    else:
        mu, mlab, mtitle = naming.split()
        final_unit = mu
        mlab, mtitle = bytes.fromhex(mlab).decode(), bytes.fromhex(mtitle).decode()
        msuffix = "" if outs[1] == "-" else bytes.fromhex(outs[1]).decode()
        if impl["info"]["label"] != mlab:
            ctx.mismatch(case, "info.label differs from metricLabel", impl["info"]["label"], mlab)
        if impl["info"]["title"] != mtitle + msuffix:
            ctx.mismatch(case, "info.title differs from title model", impl["info"]["title"], mtitle + msuffix)
    # ---------------- naming (oracle)
    if sf is None:
        ctx.fail(case, "conversion-refused", f"{kind}() carried out change_unit {nat}->{chg}", {"from": nat, "to": chg})
        ctx.record(case, False)
        return
    unit = chg or nat
    lab, title = impl["info"]["label"] or "", impl["info"]["title"] or ""
    name = kind.upper()
    if not (lab.startswith(name) and f"({SPEC_VALUE[unit]})" in lab):
        ctx.fail(case, "label-names-metric-and-unit", f"label {lab!r}, values are {name} in {SPEC_VALUE[unit]}")
    if not (title.startswith(name) and SPEC_REL_VALUE[case["rel"]] in title and f"({SPEC_VALUE[unit]})" in title.split("\n")[0]):
        ctx.fail(case, "title-names-metric-relation-unit", f"title {title!r}, expected {name}, {SPEC_REL_VALUE[case['rel']]}, ({SPEC_VALUE[unit]})")
    if impl["info"]["est_name"] != case["est_name"] or impl["info"]["ref_name"] != case["ref_name"]:
        ctx.fail(case, "names-recorded", f"{impl['info']}")
    if impl["fresh_unit"] != nat:
        ctx.fail(case, "relation-unit", f"{kind.upper()}({case['rel']}) has unit {impl['fresh_unit']}, expected {nat}")
    # ---------------- values are the metric of the processed trajectories, in the unit named
    err = impl["arrays"]["error_array"]
    fresh = impl["fresh_error"]
    want = scaled(fresh, *sf)
    if len(err) != len(want) or any(not close(a, w, 0, ulps=8) for a, w in zip(err, want)):
        ctx.fail(case, "values-in-named-unit", f"error_array {err[:3]} vs metric of the processed trajectories x factor {[float(w) for w in want[:3]]}")
    if err:
        oracle_stats(ctx, case, err, impl["stats"], "result")
    P_ref, P_est, S_ref, S_est = impl["P_ref"], impl["P_est"], impl["stored_ref"], impl["stored_est"]
    n = len(P_est["ts"])
    if impl["traj_keys"] != ([case["ref_name"], case["est_name"]]):
        ctx.fail(case, "stored-trajectories", f"trajectory keys {impl['traj_keys']}")
    # which processed pose does value k belong to (property statement)
    if kind == "ape":
        owner = list(range(n))
        keep = list(range(n))
        # independent evaluation of translation / point distance from the stored trajectories
        if case["rel"] in ("translation_part", "point_distance") and len(S_ref["xyz"]) == len(err):
            for k_, (a, b) in enumerate(zip(S_est["xyz"], S_ref["xyz"])):
                d2 = sum(((frac(x) - frac(y)) ** 2 for x, y in zip(a, b)), Fraction(0))
                w = dec(d2).sqrt() * dec(sf[0]) * pipow(sf[1])
                mxin = max(abs(c) for c in a + b) * float(sf[0])
                if not close(err[k_], w, mxin, ulps=64):
                    ctx.fail(case, "values-computed-on-stored-trajectories", f"value {k_}: {err[k_]} vs {float(w)} from the stored poses")
                    break
    else:
        pairs = impl["pairs"]
        if case["rel"] == "point_distance_error_ratio":
            pairs = [p for p, d in zip(pairs, impl["ref_d"]) if d != 0.0]
            if len(pairs) != len(impl["pairs"]):
                ctx.count("branch", "ratio-zero-distance-filtered")
        owner = [j for _, j in pairs]
        keep = [0] + owner
        if impl["delta_ids"] != owner:
            ctx.fail(case, "delta-ids-are-pair-ends", f"delta_ids {impl['delta_ids'][:8]} vs pair ends {owner[:8]}")
        if not case.get("support_loop") and not impl.get("args_are_stored", True):
            ctx.count("branch", "rpe-args-not-stored")
    if len(err) != len(owner):
        ctx.fail(case, "one-entry-per-value", f"{len(err)} values for {len(owner)} poses/pairs")
        ctx.record(case, True)
        return
    # stored trajectories = processed ones (restricted for RPE)
    for nm, S, P in (("reference", S_ref, P_ref), ("estimate", S_est, P_est)):
        if len(S["ts"]) != len(keep) or any(not same_pose(S, P, k_, j) for k_, j in enumerate(keep)):
            ctx.fail(case, "stored-trajectories-are-processed-ones", f"{nm}: stored {len(S['ts'])} poses, expected processed poses {keep[:8]}",
                     {"which": nm})
    # companion arrays (oracle): one entry per value, referring to pose owner[k]
    A = impl["arrays"]
    need = ["seconds_from_start", "timestamps", "distances_from_start", "distances"]
    for key in need:
        if key not in A:
            ctx.fail(case, "companion-array-present", f"{key} missing")
        elif len(A[key]) != len(err):
            ctx.fail(case, "one-entry-per-value", f"{key} has {len(A[key])} entries for {len(err)} values", {"array": key})
    if all(key in A and len(A[key]) == len(err) for key in need):
        off = 0 if kind == "ape" else 1
        t0 = frac(P_est["ts"][0])
        dref = arclen([P_ref["xyz"][j] for j in keep])
        dest = arclen([P_est["xyz"][j] for j in keep])
        mxp = max(abs(c) for p in P_ref["xyz"] + P_est["xyz"] for c in p)
        for k_, j in enumerate(owner):
            if A["timestamps"][k_] != P_est["ts"][j]:
                ctx.fail(case, "companion-refers-to-pose", f"timestamps[{k_}] = {A['timestamps'][k_]!r}, pose {j} has {P_est['ts'][j]!r}", {"array": "timestamps"})
                break
            if not close(A["seconds_from_start"][k_], dec(frac(P_est["ts"][j]) - t0), abs(P_est["ts"][j]), ulps=2):
                ctx.fail(case, "companion-refers-to-pose", f"seconds_from_start[{k_}] = {A['seconds_from_start'][k_]!r}", {"array": "seconds_from_start"})
                break
            if not close(A["distances_from_start"][k_], dref[k_ + off], mxp * (k_ + 2)):
                ctx.fail(case, "companion-refers-to-pose", f"distances_from_start[{k_}] = {A['distances_from_start'][k_]!r}, reference path length to pose {j} is {float(dref[k_ + off])!r}", {"array": "distances_from_start"})
                break
            if not close(A["distances"][k_], dest[k_ + off], mxp * (k_ + 2)):
                ctx.fail(case, "companion-refers-to-pose", f"distances[{k_}] = {A['distances'][k_]!r}, estimate path length to pose {j} is {float(dest[k_ + off])!r}", {"array": "distances"})
                break
    # ---------------- bookkeeping model
    comp = [x.strip() for x in outs[2].split("|")]
    m_stored = [int(x) for x in comp[0].split()]
    m_sec = [core.parse_rat(x) for x in comp[1].split()]
    m_ts = [core.parse_rat(x) for x in comp[2].split()]
    m_owner = [int(x) for x in comp[3].split()]
    m_ref = cum_sqrt([core.parse_rat(x) for x in comp[4].split()])
    m_est = cum_sqrt([core.parse_rat(x) for x in comp[5].split()])
    skip = int(comp[6])
    if m_owner != owner:
        ctx.mismatch(case, "pose of each value differs from Companions.poseOf", owner, m_owner)
    for nm, S, P in (("reference", S_ref, P_ref), ("estimate", S_est, P_est)):
        if len(S["ts"]) != len(m_stored) or any(j >= n or not same_pose(S, P, k_, j) for k_, j in enumerate(m_stored)):
            ctx.mismatch(case, f"stored {nm} trajectory differs from Companions.stored", len(S["ts"]), m_stored[:10])
    mxp = max(abs(c) for p in P_ref["xyz"] + P_est["xyz"] for c in p)
    for key, mv, exact_cmp in (("timestamps", [dec(x) for x in m_ts], True), ("seconds_from_start", [dec(x) for x in m_sec], False),
                               ("distances_from_start", m_ref[skip:], False), ("distances", m_est[skip:], False)):
        a = A.get(key)
        if a is None or len(a) != len(mv):
            ctx.mismatch(case, f"{key}: length differs from the bookkeeping model", None if a is None else len(a), len(mv))
            continue
        for k_, (x, w) in enumerate(zip(a, mv)):
            good = frac(x) == m_ts[k_] if exact_cmp else close(x, w, (abs(P_est["ts"][0]) if key.startswith("sec") else mxp * (k_ + 2)), ulps=64 if not key.startswith("sec") else 2)
            if not good:
                ctx.mismatch(case, f"{key}[{k_}] differs from the bookkeeping model", x, float(w))
                break
    if kind == "rpe":
        ids_s, vals_s = [x.strip() for x in outs[3].split("|")]
        if case["rel"] == "point_distance_error_ratio":
            m_ids = [int(x) for x in ids_s.split()]
            m_vals = [dec(core.parse_rat(x)) for x in vals_s.split()]
            if m_ids != impl["delta_ids"]:
                ctx.mismatch(case, "delta_ids after the zero-distance filter differ from Stats.ratioFilter", impl["delta_ids"], m_ids)
            elif any(not close(a, w, 0, ulps=8) for a, w in zip(fresh, m_vals)):
                ctx.mismatch(case, "ratio values differ from Stats.ratioFilter", fresh[:4], [float(x) for x in m_vals[:4]])
        ctx.count("branch", "rpe-" + ("all-pairs" if case["all_pairs"] else "consecutive") + "-" + case["delta_unit"])
        ctx.count("branch", "rpe-support_loop" if case.get("support_loop") else "rpe-in-place")
    else:
        ctx.count("branch", "ape")
    ctx.record(case, kind == "rpe" and len(keep) < n or kind == "ape")


def n_lines(case, impl):
    return len(model_lines(case, impl))


def judge_reuse(ctx, case, impl, outs):
    """every get_result of the history is judged on the data of the latest process_data alone"""
    name = case["metric"].upper()
    nat = (SPEC_REL_UNIT_APE if case["metric"] == "ape" else SPEC_REL_UNIT_RPE)[case["rel"]]
    mres = [x.strip() for x in outs[0].split(";")] if outs[0].strip() else []
    ri, n_proc = 0, 0
    exp_vals, exp_unit = None, nat            # what the property statement expects the object to hold
    converted_earlier, conv_since_p = False, False
    for k, (st, so) in enumerate(zip(case["steps"], impl["steps"])):
        if st["op"] == "P":
            if so["fresh_unit"] != nat:
                ctx.fail(case, "relation-unit", f"{name}({case['rel']}) has unit {so['fresh_unit']}")
            exp_vals, exp_unit = [dec(x) for x in so["fresh"]], nat
            n_proc += 1
            converted_earlier, conv_since_p = converted_earlier or conv_since_p, False
        elif st["op"] == "X":
            # a refused batch: nothing about the object may change (exp_vals / exp_unit stay)
            ctx.count("branch", "reuse-refused-" + st["why"] + ("-after-conversion" if conv_since_p else ""))
            if not so["refused"]:
                ctx.fail(case, "malformed-batch-refused", f"step {k}: process_data accepted a batch of class {st['why']}")
                return
        elif st["op"] == "C":
            sf = spec_factor(exp_unit, st["unit"])
            if sf is not None and exp_vals:
                conv_since_p = conv_since_p or st["unit"] != exp_unit
                f = dec(sf[0]) * pipow(sf[1])
                exp_vals, exp_unit = [v * f for v in exp_vals], st["unit"]
        else:
            # ---- model (mirrors the code after fix 46322c3: process_data resets the unit to the native one)
            if ri < len(mres):
                toks = mres[ri].split()
                mu, mlab, mk = toks[0], bytes.fromhex(toks[1]).decode(), int(toks[2])
                mv = [core.parse_rat(x) for x in toks[4:]]
                if so["unit"] != mu or so["label"] != mlab:
                    ctx.mismatch(case, f"step {k}: unit/label of the reused metric differ from the model", (so["unit"], so["label"]), (mu, mlab))
                elif len(mv) != len(so["values"]) or any(not close(a, dec(b) * pipow(mk), 0, ulps=8) for a, b in zip(so["values"], mv)):
                    ctx.mismatch(case, f"step {k}: values of the reused metric differ from the model", so["values"][:4], [float(b) for b in mv[:4]])
            else:
                ctx.mismatch(case, f"step {k}: no model result", None, outs[0][:60])
            ri += 1
            # ---- oracle
            tags = {}
            lab, title = so["label"] or "", so["title"] or ""
            want_u = f"({SPEC_VALUE[exp_unit]})"
            if not (lab.startswith(name) and want_u in lab and want_u in title.split("\n")[0] and SPEC_REL_VALUE[case["rel"]] in title):
                ctx.fail(case, "label-names-unit-actually-used", f"step {k}: label {lab!r} / title {title.splitlines()[0]!r}, but the values "
                         f"{so['values'][:3]} of evaluation #{n_proc} are {name} ({case['rel']}) in {SPEC_VALUE[exp_unit]}", tags)
            if len(so["values"]) != len(exp_vals) or any(not close(a, w, 0, ulps=8) for a, w in zip(so["values"], exp_vals)):
                ctx.fail(case, "result-holds-this-evaluations-values", f"step {k}: values {so['values'][:3]}, evaluation #{n_proc} in "
                         f"{SPEC_VALUE[exp_unit]} gives {[float(w) for w in exp_vals[:3]]}", tags)
            if so["values"]:
                oracle_stats(ctx, case, so["values"], so["stats"], f"step {k} result")
    ctx.count("dist", f"reuse:{case['metric']}:{n_proc}-evaluations")
    ctx.count("branch", "reuse-converted-then-reprocessed" if converted_earlier else "reuse-plain")
    ctx.record(case, n_proc >= 2)


def judge(ctx, case, impl, outs):
    if "crash" in impl:
        ctx.fail(case, "evo-call-crashed", impl["crash"], {"kind": case["kind"]})
        ctx.record(case, False)
        return
    k = case["kind"]
    if k == "reuse":
        judge_reuse(ctx, case, impl, outs)
        return
    if k in ("stats", "stats_big"):
        judge_stats(ctx, case, impl, outs)
    elif k == "units":
        judge_units(ctx, case, impl, outs)
    elif k == "hist":
        judge_hist(ctx, case, impl, outs)
    else:
        judge_metric(ctx, case, impl, outs)


def evaluate(ctx, cases):
    impls = [run_impl(c) for c in cases]
    lines, spans = [], []
    for c, im in zip(cases, impls):
        ls = model_lines(c, im)
        spans.append((len(lines), len(lines) + len(ls)))
        lines += ls
    outs = core.run_driver(lines, prop="C12")
    for c, im, (a, b) in zip(cases, impls, spans):
        try:
            judge(ctx, c, im, outs[a:b])
        except Exception as e:  # noqa: BLE001 -- what evo returned could not even be judged: a finding about this case, never a tool error
            ctx.fail(c, "output-cannot-be-judged", f"the harness could not judge what evo returned: {type(e).__name__}: {str(e)[:200]}")


def shrink(case):
    k = case["kind"]
    if k in ("stats", "hist") or k == "units":
        e = case["e"]
        if len(e) > 1:
            for cut in (len(e) // 2, 1):
                for start in range(0, len(e), cut):
                    c = dict(case)
                    c["e"] = e[:start] + e[start + cut:]
                    if c["e"]:
                        yield c
        if k == "units" and len(case["chain"]) > 2:
            for i in range(len(case["chain"]) - 1):
                c = dict(case)
                c["chain"] = case["chain"][i:i + 2]
                yield c
        return
    if k in ("ape", "rpe"):
        tr = case["traj"]
        n = len(tr["ts"])
        if n > 3:
            for cut in (n // 2, 1):
                for start in range(0, n, cut):
                    if n - cut < 3:
                        continue
                    c = dict(case)
                    c["traj"] = {key: v[:start] + v[start + cut:] for key, v in tr.items()}
                    if len(c["traj"]["ts"]) >= 3:
                        c["n_to_align"] = -1
                        yield c
        for key, val in (("align", False), ("correct_scale", False), ("align_origin", False), ("plane", None), ("n_to_align", -1)):
            if case[key] != val:
                c = dict(case)
                c[key] = val
                yield c


def check(ctx):
    lean = core.lean_side(ctx.prop, ctx.tier, pre_build=units_tr.generate)
    core.drift(ctx, MODELLED)
    cases = list(gen_cases(ctx))
    evaluate(ctx, cases)
    core.shrink_all(ctx, shrink, evaluate)
    return core.finish(
        ctx, lean, rule=RULE,
        extra_trusted=["translator harness/translate/units.py (ast of evo/core/units.py + running change_unit on all 100 unit pairs)",
                       "decimal (70 digits) for the final sqrt and for pi"],
        open_clauses=["float rounding of numpy's mean/std/sum and of the unit factors: checked per case within 64 (statistics) / 4 (conversions) ulp, not proved",
                      "rad<->deg: the model keeps the exact factor 180/pi as (q, power of pi); evo's rad2deg/deg2rad is compared with it in 70-digit arithmetic",
                      "'an earlier result is not changed by change_unit' (F11) is proved for a heap model with explicit array identity; the real aliasing is checked by the history cases",
                      "values-are-those-of-the-stored-trajectories: recomputed exactly for translation/point distance, through evo's own process_data (proved in C01/C02) for the rotation relations",
                      "distances_from_start of an RPE result is the path length through the stored (reduced) reference poses, as evo defines it"],
        assumptions=["error values are >= 0 for rmse <= max (every PE metric produces norms / absolute angles)"])


def replay(ctx, data):
    units_tr.generate()
    core.sh("lake build drv_C12", cwd=core.LEAN)
    evaluate(ctx, [data["case"]])
    return core.finish_replay(ctx)
