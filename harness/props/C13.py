"""C13 — merging and tabulating results. Model: lean/EvoModel/Model/ResultMerge.lean."""
import contextlib
import copy
import itertools
import csv
import io
import json
import logging
import os
import shutil
import tempfile
import warnings
import zipfile

import numpy as np

import core
from core import Fraction, frac, rat, ratlist, hexs

EPS = Fraction(1, 2 ** 53)

MODELLED = ["evo/core/result.py:merge_results", "evo/core/result.py:Result.__init__", "evo/core/result.py:Result.add_np_array",
            "evo/core/result.py:Result.add_info", "evo/core/result.py:Result.add_stats",
            "evo/tools/pandas_bridge.py:result_to_df", "evo/tools/pandas_bridge.py:load_results_as_dataframe",
            "evo/tools/pandas_bridge.py:save_df_as_table", "evo/main_res.py:run",
            "evo/tools/file_interface.py:save_res_file", "evo/tools/file_interface.py:load_res_file"]

RULE = ("case kinds: merge (0..8 results; statistics and arrays under 1..5 keys; per-key array lengths equal / unequal in one "
        "key / empty; dict insertion orders permuted per result; one statistic or array key differing in one result; dyadic "
        "grid values compared exactly, random values within a few ulp of the exact rational mean; results holding one ndarray object "
        "under several keys or views of one base array under several keys, at position 0 and elsewhere, float64 and int64 "
        "arrays, strided / read-only arrays, structured array lengths up to 17, the same Result object at two positions, every "
        "order of 3 results, each list merged twice; inputs snapshotted before "
        "and after) compared with ResultMerge.mergeResults (structure: key order, lengths, info exactly); table (1..5 result "
        "zips written by main_ape.ape / main_rpe.rpe + file_interface.save_res_file, then evo.main_res.run in-process with "
        "--save_table and optionally --merge / --use_filenames; CSV parsed back, zip members read independently with "
        "zipfile/json/numpy) compared with ResultMerge.resultTable. non-trivial = at least two results")

STAT_POOL = ["rmse", "mean", "median", "std", "min", "max", "sse", "extra"]
ARR_POOL = ["error_array", "timestamps", "seconds_from_start", "distances", "aux"]


# ------------------------------------------------------------------------------------------ generators
def gen_value(r, grid):
    if grid:
        return r.randint(-64, 64) / r.choice([1, 2, 4, 8])
    return r.choice([r.uniform(0, 10), r.gauss(0, 1), 10 ** r.uniform(-9, 6), 1.5e9 + r.random()])


def gen_merge(r, n=None, corpus=None):
    n = r.randint(1, 8) if n is None else n
    grid = r.random() < 0.5
    skeys = r.sample(STAT_POOL, r.randint(1, 5))
    akeys = r.sample(ARR_POOL, r.randint(0, 4))
    mode = r.choice(["equal", "equal", "unequal", "unequal", "empty", "one-differs"])
    base_len = {k: r.choice([0, 1, 2, 3, 4, 5, 6] if mode == "empty" else [1, 1, 2, 2, 3, 3, 4, 5, 6, 7, 8, 9, 15, 16, 17]) for k in akeys}
    odd_result = r.randrange(n)
    odd_key = r.choice(akeys) if akeys else None
    permute = r.random() < 0.5
    # aliasing plan: some results hold ONE ndarray object under several keys, or views of one base array
    alias_mode = r.choice([None, None, None, "same", "same", "views"]) if len(akeys) >= 2 else None
    alias_keys = r.sample(akeys, r.randint(2, min(3, len(akeys)))) if alias_mode else []
    alias_at = set() if not alias_mode else r.choice([{0}, {0}, {r.randrange(n)}, set(range(n)), {0, n - 1}])
    if alias_mode == "same":
        for k in alias_keys:
            base_len[k] = base_len[alias_keys[0]]
    results = []
    for i in range(n):
        sk, ak = list(skeys), list(akeys)
        if permute:
            r.shuffle(sk)
            r.shuffle(ak)
        lens = dict(base_len)
        if mode == "unequal":
            for k in ak:
                lens[k] = r.randint(0, 6)
        elif mode == "one-differs" and i == odd_result and odd_key is not None:
            lens[odd_key] = base_len[odd_key] + r.randint(1, 3)
        res = {"info": {"title": f"t{i}", "est_name": f"dir{i}/est{i}.txt", "label": "APE (m)"},
               "stats": [[k, gen_value(r, grid)] for k in sk],
               "arrays": [[k, [gen_value(r, grid) for _ in range(lens[k])]] for k in ak]}
        if r.random() < 0.15:
            res["flavour"] = r.choice(["strided", "readonly"])
        if r.random() < 0.15:
            res["dtype"] = "int"
            res["arrays"] = [[k, [float(r.randint(-64, 64)) for _ in a]] for k, a in res["arrays"]]
        if i in alias_at:
            arrs = dict((k, a) for k, a in res["arrays"])
            if alias_mode == "same":
                ln = len(arrs[alias_keys[0]]) if mode != "unequal" else r.randint(0, 6)
                vals = (arrs[alias_keys[0]] + [1.0] * 6)[:ln]
                res["arrays"] = [[k, list(vals) if k in alias_keys else a] for k, a in res["arrays"]]
                res["alias"] = {"mode": "same", "keys": list(alias_keys)}
            else:
                need = max(len(arrs[k]) for k in alias_keys)
                base = [gen_value(r, grid) if res.get("dtype") != "int" else float(r.randint(-64, 64))
                        for _ in range(need + r.randint(0, 3))]
                sl = {k: [r.randint(0, len(base) - len(arrs[k])), len(arrs[k])] for k in alias_keys}
                res["arrays"] = [[k, base[sl[k][0]:sl[k][0] + sl[k][1]] if k in alias_keys else a] for k, a in res["arrays"]]
                res["alias"] = {"mode": "views", "base": base, "slices": sl}
        results.append(res)
    # clones: every result an identical copy of the first one (same info, statistics, arrays) — the only difference a key
    # mutation can then make is the key set itself (shortcuts that compare results for equality must not hide it)
    clones = n >= 2 and r.random() < 0.12
    if clones:
        import copy as _copy
        results = [_copy.deepcopy({k: v for k, v in results[0].items() if k != "alias"}) for _ in range(n)]
    keymut = None
    if n >= 2 and r.random() < (0.7 if clones else 0.2):
        i = r.randrange(n)
        which = r.choice(["stats", "arrays"]) if akeys else "stats"
        kind = r.choice(["add", "drop", "rename"])
        d = results[i][which]
        if kind == "add" or not d:
            d.insert(r.randint(0, len(d)), ["zzz", 1.0 if which == "stats" else [1.0]])
        elif kind == "drop":
            d.pop(r.randrange(len(d)))
        else:
            d[r.randrange(len(d))][0] = "renamed"
        keymut = [i, which, kind]
    return {"kind": "merge", "grid": grid, "mode": mode, "permuted": permute, "keymut": keymut, "results": results,
            "aliasing": None if clones else alias_mode, "clones": clones}


def gen_filespec(r, tag):
    return {"seed": r.randrange(2 ** 31), "n": r.randint(3, 9), "metric": r.choice(["ape", "ape", "rpe"]),
            "rel": r.choice(["translation_part", "translation_part", "rotation_angle_deg", "full_transformation"]),
            "align": r.random() < 0.1,
            "est_name": r.choice([f"est{tag}", f"runs/{tag}/est.txt", f"d{tag}/traj.tum", f"{tag}.tum", "same/est.txt", "estimate", "b.tum", "1e3", "-1", "est \u00fc\u4e2d", " trailing ", "dir/", "a\\b"])}


def spell(name, spelling):
    return {"rel": name, "dot": "./" + name, "updir": "sub/../" + name, "abs": "<ABS>/" + name, "path": name}[spelling]


def gen_history(r, corpus=None):
    """a sequence of steps in one process and one directory that re-uses the same file names"""
    nn = 1 if corpus else r.randint(1, 3)
    names = [f"r{i}.zip" for i in range(nn)]
    current = {}
    steps = []
    for k in range(2 if corpus else r.randint(2, 4)):
        if k == 0:
            write = {str(i): gen_filespec(r, f"{i}a") for i in range(nn)}
        else:
            idx = r.sample(range(nn), r.randint(1, nn))
            write = {str(i): gen_filespec(r, f"{i}{'bcde'[k - 1]}") for i in idx}
            if r.random() < 0.15:
                write = {}
        current.update(write)
        via = "run" if corpus else r.choice(["run", "run", "df", "load"])
        merge = (not corpus) and r.random() < 0.35
        uf = (not corpus) and r.random() < 0.3
        spelling = "rel" if corpus else r.choice(["rel", "rel", "dot", "updir", "abs"] + (["path"] if via == "load" else []))
        labels = [spell(n, spelling) if uf else os.path.basename(current[str(i)]["est_name"]) for i, n in enumerate(names)]
        if via == "df" and not merge and len(set(labels)) != len(labels):
            via = "run"            # duplicate labels are judged by evo_res itself only
        steps.append({"write": write, "via": via, "merge": merge, "use_filenames": uf, "spelling": spelling})
    c = {"kind": "history", "names": names, "steps": steps}
    if corpus:
        c["corpus"] = corpus
    return c


def gen_cases(ctx):
    r = ctx.rng
    th = ctx.thorough
    # ---- corpus: F10 (same arrays, other insertion order), single, two-equal, two-unequal
    yield {"kind": "merge", "grid": True, "corpus": "F10", "results": [
        {"info": {"est_name": "a"}, "stats": [["rmse", 1.0]], "arrays": [["a", [1.0, 2.0]], ["b", [1.0, 2.0, 3.0]]]},
        {"info": {"est_name": "b"}, "stats": [["rmse", 3.0]], "arrays": [["b", [3.0, 2.0, 1.0]], ["a", [3.0, 4.0]]]}]}
    yield {"kind": "merge", "grid": True, "corpus": "F10-broadcast", "results": [
        {"info": {}, "stats": [["rmse", 1.0]], "arrays": [["a", [1.0, 2.0]], ["b", [1.0, 2.0, 3.0]]]},
        {"info": {}, "stats": [["rmse", 3.0]], "arrays": [["b", [3.0, 4.0]], ["a", [3.0, 2.0, 1.0]]]}]}
    yield {"kind": "merge", "grid": True, "corpus": "single", "results": [
        {"info": {"est_name": "a"}, "stats": [["rmse", 1.0]], "arrays": [["e", [1.0, 2.0]]]}]}
    yield {"kind": "merge", "grid": True, "corpus": "order", "results": [
        {"info": {"est_name": "a"}, "stats": [["rmse", 1.0]], "arrays": [["e", [1.0, 2.0]]]},
        {"info": {"est_name": "b"}, "stats": [["rmse", 2.0]], "arrays": [["e", [3.0]]]},
        {"info": {"est_name": "c"}, "stats": [["rmse", 6.0]], "arrays": [["e", [4.0, 5.0, 6.0]]]}]}
    yield {"kind": "merge", "grid": True, "corpus": "none", "results": []}
    # identical results whose key sets differ (extra array key in the later ones; first result without arrays): refused
    same = {"info": {"est_name": "a"}, "stats": [["rmse", 1.0], ["mean", 0.5]]}
    yield {"kind": "merge", "grid": True, "corpus": "clone-extra-array-later", "results": [
        dict(same, arrays=[["e", [1.0, 2.0]]]), dict(same, arrays=[["e", [1.0, 2.0]], ["t", [0.0, 1.0]]]),
        dict(same, arrays=[["e", [1.0, 2.0]], ["t", [0.0, 1.0]]])]}
    yield {"kind": "merge", "grid": True, "corpus": "clone-first-without-arrays", "results": [
        dict(same, arrays=[]), dict(same, arrays=[["e", [1.0, 2.0]]])]}
    yield {"kind": "merge", "grid": True, "corpus": "clone-extra-stat-later", "results": [
        dict(same, arrays=[["e", [1.0]]]), dict(same, stats=same["stats"] + [["max", 2.0]], arrays=[["e", [1.0]]])]}
    yield {"kind": "merge", "grid": True, "corpus": "clones-equal-keys", "results": [
        dict(same, arrays=[["e", [1.0, 2.0]]]), dict(same, arrays=[["e", [1.0, 2.0]]]), dict(same, arrays=[["e", [1.0, 2.0]]])]}
    yield {"kind": "merge", "grid": True, "corpus": "C13-4", "aliasing": "same", "results": [
        {"info": {"est_name": "a"}, "stats": [["rmse", 1.0]], "arrays": [["a", [1.0, 2.0]], ["b", [1.0, 2.0]]],
         "alias": {"mode": "same", "keys": ["a", "b"]}},
        {"info": {"est_name": "b"}, "stats": [["rmse", 3.0]], "arrays": [["a", [3.0, 4.0]], ["b", [5.0, 8.0]]]}]}
    yield {"kind": "merge", "grid": True, "corpus": "views", "aliasing": "views", "results": [
        {"info": {}, "stats": [["rmse", 1.0]], "arrays": [["a", [1.0, 2.0]], ["b", [2.0, 3.0]]], "dtype": "int",
         "alias": {"mode": "views", "base": [1.0, 2.0, 3.0], "slices": {"a": [0, 2], "b": [1, 2]}}},
        {"info": {}, "stats": [["rmse", 3.0]], "arrays": [["b", [5.0, 8.0]], ["a", [3.0, 4.0]]]}]}
    for _ in range(3000 if not th else 40000):
        yield gen_merge(r)
    for _ in range(150 if not th else 2000):       # the same Result object at two positions of the list
        c = gen_merge(r, n=r.randint(2, 6))
        i, j = sorted(r.sample(range(len(c["results"])), 2))
        if r.random() < 0.5:
            i, j = j, i
        c["results"][j] = copy.deepcopy(c["results"][i])
        c["same_object"] = [[i, j]]
        yield c
    for _ in range(40 if not th else 400):          # >= 3 results in every order
        c = gen_merge(r, n=r.choice([3, 3, 4]))
        perms = list(itertools.permutations(range(len(c["results"]))))
        for pm in (perms if len(perms) <= 6 else r.sample(perms, 6)):
            yield dict(c, results=[copy.deepcopy(c["results"][k]) for k in pm], perm=list(pm))
    for _ in range(150 if not th else 2000):
        nf = r.randint(1, 5)
        files = []
        for i in range(nf):
            files.append({"seed": r.randrange(2 ** 31), "n": r.randint(3, 9), "metric": r.choice(["ape", "ape", "rpe"]),
                          "rel": r.choice(["translation_part", "translation_part", "rotation_angle_deg", "full_transformation"]),
                          "align": r.random() < 0.15,
                          "est_name": r.choice([f"est{i}", f"runs/{i}/est.txt", f"d{i}/traj.tum", f"{i}.tum", "same/est.txt", "estimate", "b.tum", "1e3", "-1", "est \u00fc\u4e2d", " trailing ", "dir/", "a\\b"]),
                          "file": r.choice([f"r{i}.zip", f"sub{i}/res.zip", f"r{i}.zip", f"MH[0{i}]_ape.zip", f"run{i} (1).zip", f"a{i}*b.zip",
                                            f"q{i}?.zip", f"{i}[x].zip", f"resü{i}.zip", f"-{i}.zip" if False else f"r_{i}.zip"])})
        if r.random() < 0.12:
            files.append(dict(r.choice(files)))        # the same file named twice on the command line
        if r.random() < 0.5:
            r.shuffle(files)                           # command-line order is the input order (not sorted, not "natural")
        if r.random() < 0.2 and len(files) >= 2:
            files[0]["file"], files[1]["file"] = "run_10.zip", "run_2.zip"     # given in shell-glob order
        yield {"kind": "table", "files": files, "merge": r.random() < 0.4, "use_filenames": r.random() < 0.35,
               "ignore_title": r.random() < 0.5}
    yield gen_history(r, corpus="C13-3")
    for _ in range(60 if not th else 700):
        yield gen_history(r)


# ------------------------------------------------------------------------------------------ implementation side
@contextlib.contextmanager
def quiet():
    logging.disable(logging.CRITICAL)
    try:
        with contextlib.redirect_stdout(io.StringIO()), contextlib.redirect_stderr(io.StringIO()), warnings.catch_warnings():
            warnings.simplefilter("ignore")
            yield
    finally:
        logging.disable(logging.NOTSET)


def build_result(d):
    from evo.core.result import Result
    res = Result()
    res.add_info(dict(d["info"]))
    for k, v in d["stats"]:
        res.stats[k] = v
    dt = np.int64 if d.get("dtype") == "int" else float
    al = d.get("alias") or {}
    shared, base = {}, None
    if al.get("mode") == "views":
        base = np.array(al["base"], dtype=dt)
    for k, a in d["arrays"]:
        arr = None
        if al.get("mode") == "same" and k in al["keys"]:
            key = tuple(a)                      # one object for all alias keys holding these values
            if key not in shared:
                shared[key] = np.array(a, dtype=dt)
            arr = shared[key]
        elif base is not None and k in al["slices"]:
            off, ln = al["slices"][k]
            if [float(x) for x in base[off:off + ln]] == [float(x) for x in a]:
                arr = base[off:off + ln]           # a view of the common base array
        if arr is None:
            if d.get("flavour") == "strided":
                basearr = np.full(2 * len(a) + 1, -7, dtype=dt)
                basearr[1::2] = a
                arr = basearr[1::2]
            else:
                arr = np.array(a, dtype=dt)
                if d.get("flavour") == "readonly":
                    arr.setflags(write=False)
        res.add_np_array(k, arr)
    return res


def view(res):
    return {"info": dict(res.info), "stats": [[k, float(v)] for k, v in res.stats.items()],
            "arrays": [[k, [float(x) for x in np.asarray(a, dtype=float).ravel()]] for k, a in res.np_arrays.items()]}


def bits(res):
    return (json.dumps(res.info, sort_keys=False), [(k, np.float64(v).tobytes()) for k, v in res.stats.items()],
            [(k, np.asarray(a).tobytes(), np.asarray(a).shape) for k, a in res.np_arrays.items()])


def impl_merge(case):
    from evo.core import result
    rs = [build_result(d) for d in case["results"]]
    for i, j in case.get("same_object", []):
        rs[j] = rs[i]
    before = [bits(r_) for r_ in rs]
    arrays_before = [dict(r_.np_arrays) for r_ in rs]
    out = {}
    with quiet():
        try:
            m = result.merge_results(rs)
            out["merged"] = view(m)
            out["is_first"] = m is rs[0] if rs else False
            out["shares_memory"] = any(np.shares_memory(a, b) for a in m.np_arrays.values() for r_ in rs for b in r_.np_arrays.values()) \
                if len(rs) > 1 else False
        except result.ResultException:
            out["error"] = "E_KEYS"
        except ValueError as e:
            out["error"] = "E_NORESULTS" if "no results" in str(e) else "E_VALUE:" + str(e)[:60]
        except Exception as e:  # anything else is a crash of merge_results, judged by the oracle
            out["error"] = "E_CRASH:" + type(e).__name__ + ":" + str(e)[:60]
        # the same call once more: the outcome may not depend on what an earlier call left behind
        try:
            second = view(result.merge_results(rs))
        except Exception as e:  # noqa: BLE001
            second = "raised " + type(e).__name__
        first = out.get("merged", "raised")
        out["second_call_same"] = (second == first) if "merged" in out else (isinstance(second, str) and second.startswith("raised"))
    out["inputs_unchanged"] = [bits(r_) for r_ in rs] == before and all(
        list(r_.np_arrays.keys()) == list(ab.keys()) and all(r_.np_arrays[k] is ab[k] for k in ab) for r_, ab in zip(rs, arrays_before))
    return out


def make_traj(seed, n):
    from evo.core.trajectory import PoseTrajectory3D
    rs = np.random.RandomState(seed)
    xyz = np.cumsum(rs.normal(size=(n, 3)), axis=0)
    ang = np.cumsum(rs.normal(scale=0.2, size=n))
    q = np.column_stack([np.cos(ang / 2), np.zeros(n), np.zeros(n), np.sin(ang / 2)])
    ref = PoseTrajectory3D(positions_xyz=xyz, orientations_quat_wxyz=q, timestamps=np.arange(n) * 0.1 + 100.0)
    xyz2 = xyz + rs.normal(scale=0.05, size=(n, 3))
    ang2 = ang + rs.normal(scale=0.02, size=n)
    q2 = np.column_stack([np.cos(ang2 / 2), np.zeros(n), np.zeros(n), np.sin(ang2 / 2)])
    est = PoseTrajectory3D(positions_xyz=xyz2, orientations_quat_wxyz=q2, timestamps=np.arange(n) * 0.1 + 100.0)
    return ref, est


def num(c):
    """a CSV cell as a number; anything else stays text (and then differs from every expected statistic)"""
    try:
        return float(c)
    except ValueError:
        return c


def read_zip(path):
    """content of a result file, read without evo"""
    with zipfile.ZipFile(path) as z:
        info = json.loads(z.read("info.json"))
        stats = json.loads(z.read("stats.json"))
        arrays = []
        for name in z.namelist():
            if name.endswith(".npy"):
                a = np.load(io.BytesIO(z.read(name)))
                arrays.append([name[:-4], [float(x) for x in np.asarray(a, dtype=float).ravel()]])
    return {"info": {k: str(v) for k, v in info.items()}, "stats": [[k, float(v)] for k, v in stats.items()], "arrays": arrays}


def impl_table(case):
    from evo import main_ape, main_rpe, main_res, main_res_parser
    from evo.core import metrics, result
    from evo.core.units import Unit
    from evo.tools import file_interface
    d = tempfile.mkdtemp(prefix="c13_")
    cwd = os.getcwd()
    out = {}
    try:
        os.chdir(d)
        paths = []
        with quiet():
            for f in case["files"]:
                ref, est = make_traj(f["seed"], f["n"])
                rel = metrics.PoseRelation[f["rel"]]
                if f["metric"] == "ape":
                    res = main_ape.ape(ref, est, rel, align=f["align"], est_name=f["est_name"])
                else:
                    res = main_rpe.rpe(ref, est, rel, 1, Unit.frames, align=f["align"], est_name=f["est_name"])
                p = f["file"]
                if os.path.dirname(p):
                    os.makedirs(os.path.dirname(p), exist_ok=True)
                file_interface.save_res_file(p, res)
                paths.append(p)
        out["files"] = [read_zip(p) for p in paths]
        file_bytes = [open(p, "rb").read() for p in paths]
        argv = paths + ["--save_table", "table.csv", "--no_warnings"]
        if case["merge"]:
            argv.append("--merge")
        if case["use_filenames"]:
            argv.append("--use_filenames")
        if case["ignore_title"]:
            argv.append("--ignore_title")
        with quiet():
            try:
                main_res.run(main_res_parser.parser().parse_args(argv))
                out["status"] = "ok"
            except SystemExit as e:
                out["status"] = "exit:%s" % (e.code,)
            except result.ResultException:
                out["status"] = "E_KEYS"
            except Exception as e:
                out["status"] = "crash:" + type(e).__name__ + ":" + str(e)[:60]
        out["inputs_unchanged"] = [open(p, "rb").read() for p in paths] == file_bytes
        if os.path.exists("table.csv"):
            rows = list(csv.reader(open("table.csv", newline="")))
            header = rows[0][1:]
            out["table"] = [[row[0], [[h, num(c)] for h, c in zip(header, row[1:]) if c != ""]] for row in rows[1:]]
            out["raw"] = open("table.csv").read()[:2000]
        else:
            out["table"] = None
    finally:
        os.chdir(cwd)
        shutil.rmtree(d, ignore_errors=True)
    return out


def write_result_file(f, path):
    from evo import main_ape, main_rpe
    from evo.core import metrics
    from evo.core.units import Unit
    from evo.tools import file_interface
    ref, est = make_traj(f["seed"], f["n"])
    rel = metrics.PoseRelation[f["rel"]]
    if f["metric"] == "ape":
        res = main_ape.ape(ref, est, rel, align=f["align"], est_name=f["est_name"])
    else:
        res = main_rpe.rpe(ref, est, rel, 1, Unit.frames, align=f["align"], est_name=f["est_name"])
    file_interface.save_res_file(path, res)


def df_rows(df):
    """(label, stats) per column of the MultiIndex frame built by load_results_as_dataframe, positionally"""
    st = df.loc["stats"]
    rows = []
    for j in range(st.shape[1]):
        col = st.iloc[:, j]
        rows.append([str(st.columns[j]), [[str(k), float(v)] for k, v in col.items() if v == v]])
    return rows


def impl_history(case):
    """all steps in this process, in one directory, re-using the file names"""
    import pathlib
    from evo import main_res, main_res_parser
    from evo.core import result
    from evo.tools import file_interface, pandas_bridge
    d = os.path.realpath(tempfile.mkdtemp(prefix="c13h_"))
    cwd = os.getcwd()
    out = {"steps": []}
    try:
        os.chdir(d)
        os.makedirs("sub", exist_ok=True)
        for step in case["steps"]:
            so = {}
            with quiet():
                for i, f in sorted(step["write"].items()):
                    write_result_file(f, case["names"][int(i)])
            so["files"] = [read_zip(n) for n in case["names"]]
            file_bytes = [open(n, "rb").read() for n in case["names"]]
            paths = [spell(n, step["spelling"]).replace("<ABS>", d) for n in case["names"]]
            so["paths"] = [spell(n, step["spelling"]) for n in case["names"]]
            if os.path.exists("table.csv"):
                os.remove("table.csv")
            so["table"] = None
            with quiet():
                try:
                    if step["via"] == "run":
                        argv = paths + ["--save_table", "table.csv", "--no_warnings", "--ignore_title"]
                        argv += ["--merge"] if step["merge"] else []
                        argv += ["--use_filenames"] if step["use_filenames"] else []
                        main_res.run(main_res_parser.parser().parse_args(argv))
                        if os.path.exists("table.csv"):
                            rows = list(csv.reader(open("table.csv", newline="")))
                            header = rows[0][1:]
                            so["table"] = [[row[0], [[h, num(c)] for h, c in zip(header, row[1:]) if c != ""]] for row in rows[1:]]
                    elif step["via"] == "df":
                        so["table"] = df_rows(pandas_bridge.load_results_as_dataframe(paths, step["use_filenames"], step["merge"]))
                    else:
                        loads = []
                        for n, pth in zip(case["names"], paths):
                            other = os.path.join(d, n) if step["spelling"] != "abs" else n
                            first = pathlib.Path(pth) if step["spelling"] == "path" else pth
                            for q in (first, other, "handle"):
                                if q == "handle":
                                    with open(n, "rb") as fh:
                                        r_ = file_interface.load_res_file(fh)
                                else:
                                    r_ = file_interface.load_res_file(q)
                                loads.append({"info": {k: str(v) for k, v in r_.info.items()},
                                              "stats": [[k, float(v)] for k, v in r_.stats.items()],
                                              "arrays": sorted([k, [float(x) for x in np.asarray(a, dtype=float).ravel()]]
                                                               for k, a in r_.np_arrays.items())})
                        so["loads"] = loads
                    so["status"] = "ok"
                except SystemExit as e:
                    so["status"] = "exit:%s" % (e.code,)
                except result.ResultException:
                    so["status"] = "E_KEYS"
                except Exception as e:
                    so["status"] = "crash:" + type(e).__name__ + ":" + str(e)[:60]
            so["inputs_unchanged"] = [open(n, "rb").read() for n in case["names"]] == file_bytes
            if so["table"] is not None:      # the scratch directory differs from run to run: abstract it in file-name labels
                so["table"] = [[lab.replace(d, "<ABS>"), st] for lab, st in so["table"]]
            out["steps"].append(so)
    finally:
        os.chdir(cwd)
        shutil.rmtree(d, ignore_errors=True)
    return out


def run_impl(case):
    if case["kind"] == "merge":
        return impl_merge(case)
    return impl_table(case) if case["kind"] == "table" else impl_history(case)


# ------------------------------------------------------------------------------------------ model side
def enc_res(d):
    info = d["info"]
    t = [str(len(info))] + [hexs(str(k)) + " " + hexs(str(v)) for k, v in info.items()]
    t += [str(len(d["stats"]))] + [hexs(k) + " " + rat(v) for k, v in d["stats"]]
    t += [str(len(d["arrays"]))] + [hexs(k) + " " + ratlist(a) for k, a in d["arrays"]]
    return " ".join(t)


def dec_res(toks, i):
    def h(s):
        return "" if s == "-" else bytes.fromhex(s).decode()
    n = int(toks[i]); i += 1
    info = {}
    for _ in range(n):
        info[h(toks[i])] = h(toks[i + 1]); i += 2
    n = int(toks[i]); i += 1
    stats = []
    for _ in range(n):
        stats.append([h(toks[i]), core.parse_rat(toks[i + 1])]); i += 2
    n = int(toks[i]); i += 1
    arrays = []
    for _ in range(n):
        k = h(toks[i]); m = int(toks[i + 1]); i += 2
        arrays.append([k, [core.parse_rat(x) for x in toks[i:i + m]]]); i += m
    return {"info": info, "stats": stats, "arrays": arrays}, i


def model_lines(case, impl):
    if case["kind"] == "merge":
        body = " ".join([str(len(case["results"]))] + [enc_res(d) for d in case["results"]])
        return ["C13 merge " + body, "C13 mergeold " + body]
    if case["kind"] == "history":
        lines = []
        for step, so in zip(case["steps"], impl["steps"]):
            if step["via"] == "load":
                continue
            body = " ".join([str(len(so["files"]))] + [hexs(pth) + " " + enc_res(dd) for pth, dd in zip(so["paths"], so["files"])])
            lines.append("C13 table %d %d %s" % (step["use_filenames"], step["merge"], body))
        return lines
    files = impl["files"]
    body = " ".join([str(len(files))] + [hexs(f["file"]) + " " + enc_res(d) for f, d in zip(case["files"], files)])
    return ["C13 table %d %d %s" % (case["use_filenames"], case["merge"], body)]


# ------------------------------------------------------------------------------------------ judges
def near(x, exact, scale, ulps=16):
    """float x against the exact rational; scale = sum of the magnitudes that were added"""
    if x != x or x in (float("inf"), float("-inf")):
        return False
    return abs(frac(x) - exact) <= ulps * EPS * (abs(scale) + abs(exact))


def judge_merge(ctx, case, impl, outs):
    rs = case["results"]
    n = len(rs)
    out = outs[0]
    ctx.count("dist", "merge:n=%d" % n)
    ctx.count("dist", "merge:" + case.get("mode", "corpus") + (":permuted" if case.get("permuted") else ""))
    if case.get("aliasing"):
        where = sorted(i for i, d in enumerate(rs) if d.get("alias"))
        ctx.count("dist", "merge:aliased-%s:%s" % (case["aliasing"], "first" if where[:1] == [0] else "later" if where else "none"))
    if any(d.get("dtype") == "int" for d in rs):
        ctx.count("dist", "merge:int-dtype")
    # ---------------- correspondence with the model
    if out.startswith("E_"):
        ctx.count("branch", out)
        if impl.get("error") != out:
            ctx.mismatch(case, "merge_results outcome differs from mergeResults", impl.get("error", "merged"), out)
    elif "error" in impl:
        ctx.mismatch(case, "merge_results raised, model merges", impl["error"], out[:60])
    else:
        toks = out.split()
        strat = toks[1]
        m, _ = dec_res(toks, 2)
        got = impl["merged"]
        ctx.count("branch", "single" if n == 1 else "average" if strat == "A" else "append")
        if outs[1] != out:
            ctx.count("branch", "pinned-strategy-differs(F10)")
        if got["info"] != m["info"]:
            ctx.mismatch(case, "info differs from the model", got["info"], m["info"])
        if [k for k, _ in got["stats"]] != [k for k, _ in m["stats"]]:
            ctx.mismatch(case, "statistic keys/order differ from the model", [k for k, _ in got["stats"]], [k for k, _ in m["stats"]])
        else:
            for (k, a), (_, b) in zip(got["stats"], m["stats"]):
                sc = sum(abs(frac(v)) for d in rs for kk, v in d["stats"] if kk == k)
                if not (frac(a) == b if case["grid"] and n in (1, 2, 4, 8) else near(a, b, sc)):
                    ctx.mismatch(case, f"statistic {k} differs from the model", a, float(b))
                    break
        if [(k, len(a)) for k, a in got["arrays"]] != [(k, len(a)) for k, a in m["arrays"]]:
            ctx.mismatch(case, "array keys/order/lengths differ from the model", [(k, len(a)) for k, a in got["arrays"]],
                         [(k, len(a)) for k, a in m["arrays"]])
        else:
            for (k, a), (_, b) in zip(got["arrays"], m["arrays"]):
                sc = max([abs(frac(x)) for d in rs for kk, arr in d["arrays"] if kk == k for x in arr] + [Fraction(0)]) * max(n, 1)
                exact = strat == "C" or n == 1 or (case["grid"] and n in (2, 4, 8))
                if any(not (frac(x) == y if exact else near(x, y, sc)) for x, y in zip(a, b)):
                    ctx.mismatch(case, f"array {k} differs from the model", a[:6], [float(y) for y in b[:6]])
                    break
    # ---------------- oracle (property statement)
    if not impl["inputs_unchanged"]:
        ctx.fail(case, "inputs-unmodified", "merge_results changed an input result")
    if not impl.get("second_call_same", True):
        ctx.fail(case, "second-call-same-result", "merging the same list again gave a different outcome")
    if case.get("same_object"):
        ctx.count("dist", "merge:same-object-twice")
    if case.get("perm"):
        ctx.count("dist", "merge:permutation-of-%d" % n)
    if any(d.get("flavour") for d in rs):
        ctx.count("dist", "merge:strided/readonly-arrays")
    if n == 0:
        ctx.record(case, False)
        return
    skeys = [sorted(k for k, _ in d["stats"]) for d in rs]
    akeys = [sorted(k for k, _ in d["arrays"]) for d in rs]
    same_keys = all(s == skeys[0] for s in skeys) and all(a == akeys[0] for a in akeys)
    if n == 1:
        if "error" in impl or not impl["is_first"] or impl["merged"] != {"info": rs[0]["info"], "stats": rs[0]["stats"], "arrays": rs[0]["arrays"]}:
            ctx.fail(case, "single-result-returned-unchanged", f"{impl.get('error') or impl['merged']}")
        ctx.record(case, False)
        return
    if not same_keys:
        if impl.get("error") != "E_KEYS":
            ctx.fail(case, "different-keys-refused", f"results with different key sets were not refused: {impl.get('error') or 'merged'}")
        ctx.record(case, True)
        return
    if "error" in impl:
        ctx.fail(case, "equal-keys-merged", f"results with equal key sets were not merged: {impl['error']}", {"error": impl["error"].split(":")[0]})
        ctx.record(case, True)
        return
    got = impl["merged"]
    if got["info"] != rs[0]["info"]:
        ctx.fail(case, "info-of-first", f"{got['info']} vs {rs[0]['info']}")
    gs = dict(got["stats"])
    if sorted(gs) != skeys[0]:
        ctx.fail(case, "statistic-keys", f"{sorted(gs)}")
    else:
        for k in skeys[0]:
            vals = [frac(dict(d["stats"])[k]) for d in rs]
            if not near(gs[k], sum(vals) / n, sum(abs(v) for v in vals)):
                ctx.fail(case, "statistic-is-mean", f"{k}: {gs[k]!r}, mean of {[float(v) for v in vals]} is {float(sum(vals) / n)!r}")
                break
    ga = dict((k, a) for k, a in got["arrays"])
    if sorted(ga) != akeys[0]:
        ctx.fail(case, "array-keys", f"{sorted(ga)}")
    else:
        per_key = {k: [dict((kk, a) for kk, a in d["arrays"])[k] for d in rs] for k in akeys[0]}
        equal = all(len(set(len(a) for a in arrs)) == 1 for arrs in per_key.values())
        for k, arrs in per_key.items():
            if equal:
                want = [sum(frac(a[i]) for a in arrs) / n for i in range(len(arrs[0]))]
                good = len(ga[k]) == len(want) and all(near(x, w, sum(abs(frac(a[i])) for a in arrs)) for i, (x, w) in enumerate(zip(ga[k], want)))
                if not good:
                    ctx.fail(case, "arrays-averaged-when-equal-lengths", f"{k}: {ga[k][:6]} vs element-wise mean {[float(w) for w in want[:6]]}",
                             {"permuted": bool(case.get("permuted") or case.get("corpus", "").startswith("F10"))})
                    break
            else:
                want = [x for a in arrs for x in a]
                if ga[k] != want:
                    ctx.fail(case, "arrays-concatenated-in-input-order", f"{k}: {ga[k][:8]} vs {want[:8]}")
                    break
    if impl.get("shares_memory"):
        ctx.fail(case, "merged-independent-of-inputs", "an array of the merged result shares memory with an input")
    ctx.record(case, True)


def judge_table(ctx, case, impl, outs):
    files = impl["files"]
    out = outs[0]
    nf = len(files)
    ctx.count("dist", "table:files=%d" % nf)
    ctx.count("dist", "table:" + ("merge" if case["merge"] else "plain") + ("+filenames" if case["use_filenames"] else ""))
    table = impl["table"]
    # ---------------- model
    if out.startswith("E_"):
        ctx.count("branch", "table-" + out)
        want_status = {"E_DUP": "exit:1", "E_KEYS": "E_KEYS"}.get(out)
        if impl["status"] != want_status:
            ctx.mismatch(case, "evo_res outcome differs from resultTable", impl["status"], out)
        if table is not None:
            ctx.mismatch(case, "evo_res wrote a table although the model refuses", table, out)
    elif impl["status"] != "ok" or table is None:
        ctx.mismatch(case, "evo_res failed, model produces a table", impl["status"], out[:80])
    else:
        toks = out.split()
        nrows, i, mrows = int(toks[1]), 2, []
        for _ in range(nrows):
            lab = "" if toks[i] == "-" else bytes.fromhex(toks[i]).decode()
            ns = int(toks[i + 1]); i += 2
            st = []
            for _ in range(ns):
                st.append([bytes.fromhex(toks[i]).decode(), core.parse_rat(toks[i + 1])]); i += 2
            mrows.append([lab, st])
        ctx.count("branch", "table-merge-row" if case["merge"] and nf > 1 else "table-rows")
        if [r_[0] for r_ in table] != [r_[0] for r_ in mrows]:
            ctx.mismatch(case, "row labels differ from resultTable", [r_[0] for r_ in table], [r_[0] for r_ in mrows])
        else:
            for (lab, st), (_, ms) in zip(table, mrows):
                if sorted(k for k, _ in st) != sorted(k for k, _ in ms):
                    ctx.mismatch(case, f"row {lab}: statistic columns differ from the model", st, [[k, float(v)] for k, v in ms])
                    break
                md = dict(ms)
                exact = not (case["merge"] and nf > 1)
                sc = {k: sum(abs(frac(dict(f["stats"]).get(k, 0.0))) for f in files) for k in md}
                if any(not (frac(v) == md[k] if exact else near(v, md[k], sc[k])) for k, v in st):
                    ctx.mismatch(case, f"row {lab}: values differ from the model", st, [[k, float(v)] for k, v in ms])
                    break
    # ---------------- oracle
    if not impl["inputs_unchanged"]:
        ctx.fail(case, "inputs-unmodified", "a result file was changed by evo_res")
    names = [f["file"] if case["use_filenames"] else os.path.basename(d["info"].get("est_name", "")) for f, d in zip(case["files"], files)]
    if case["merge"]:
        sk = [sorted(k for k, _ in d["stats"]) for d in files]
        ak = [sorted(k for k, _ in d["arrays"]) for d in files]
        if nf > 1 and not (all(s == sk[0] for s in sk) and all(a == ak[0] for a in ak)):
            if impl["status"] != "E_KEYS":
                ctx.fail(case, "different-keys-refused", f"evo_res --merge on results with different keys: {impl['status']}")
            ctx.record(case, True)
            return
        if impl["status"] != "ok" or table is None or len(table) != 1:
            ctx.fail(case, "merged-table-written", f"status {impl['status']}, table {table}")
            ctx.record(case, nf > 1)
            return
        lab, st = table[0]
        want_lab = os.path.basename(files[0]["info"].get("est_name", ""))
        if lab != want_lab:
            ctx.fail(case, "table-label", f"merged row labelled {lab!r}, first result's estimate is {want_lab!r}")
        got = dict(st)
        for k in sk[0]:
            vals = [frac(dict(d["stats"])[k]) for d in files]
            if k not in got or not near(got[k], sum(vals) / nf, sum(abs(v) for v in vals)):
                ctx.fail(case, "table-has-merged-values", f"{k}: {got.get(k)!r} vs mean {float(sum(vals) / nf)!r} of {[float(v) for v in vals]}")
                break
        if sorted(got) != sk[0]:
            ctx.fail(case, "table-has-merged-values", f"columns {sorted(got)}")
        ctx.record(case, nf > 1)
        return
    if len(set(names)) != len(names):
        if impl["status"] == "ok":
            ctx.fail(case, "labels-unique", f"duplicate labels {names} accepted")
        ctx.record(case, True)
        return
    if impl["status"] != "ok" or table is None:
        ctx.fail(case, "table-written", f"status {impl['status']}")
        ctx.record(case, nf > 1)
        return
    if [r_[0] for r_ in table] != names:
        ctx.fail(case, "table-label", f"rows {[r_[0] for r_ in table]}, expected {names}")
    else:
        for (lab, st), d in zip(table, files):
            if sorted(map(tuple, st)) != sorted(map(tuple, d["stats"])):
                ctx.fail(case, "row-has-exactly-the-file-statistics", f"row {lab}: {st} vs stats.json {d['stats']}")
                break
    ctx.record(case, nf > 1)


class StepCtx:
    """judge one step of a history with judge_table: findings are attached to the whole history"""
    def __init__(self, ctx, case, k):
        self.ctx, self.case, self.k = ctx, case, k

    def fail(self, _case, clause, detail, tags=None):
        self.ctx.fail(self.case, clause, f"step {self.k}: {detail}", dict(tags or {}, history=True))

    def mismatch(self, _case, what, impl=None, model=None):
        self.ctx.mismatch(self.case, f"step {self.k}: {what}", impl, model)

    def count(self, table, key, n=1):
        if table == "branch":
            self.ctx.count(table, "history-" + key, n)

    def record(self, _case, nontrivial=True):
        pass


def judge_history(ctx, case, impl, outs):
    k_line = 0
    overwritten = False
    for k, (step, so) in enumerate(zip(case["steps"], impl["steps"])):
        if k > 0 and step["write"]:
            overwritten = True
        ctx.count("branch", "history-via-" + step["via"] + ("-after-overwrite" if overwritten else ""))
        ctx.count("dist", "history:spelling=" + step["spelling"])
        if step["via"] == "load":
            want = [{"info": dd["info"], "stats": dd["stats"], "arrays": sorted(dd["arrays"])} for dd in so["files"] for _ in (0, 1, 2)]
            if so["status"] != "ok":
                ctx.fail(case, "load-returns-file-content", f"step {k}: load_res_file failed: {so['status']}", {"history": True})
            elif so["loads"] != want:
                bad = next(i for i, (a, b) in enumerate(zip(so["loads"], want)) if a != b)
                ctx.fail(case, "load-returns-file-content", f"step {k}: load_res_file #{bad} of {case['names'][bad // 3]} returned "
                         f"{so['loads'][bad]['stats'][:2]}, the file holds {want[bad]['stats'][:2]}", {"history": True})
            if not so["inputs_unchanged"]:
                ctx.fail(case, "inputs-unmodified", f"step {k}: a result file was changed by load_res_file", {"history": True})
            continue
        sub = {"kind": "table", "files": [{"file": pth} for pth in so["paths"]], "merge": step["merge"],
               "use_filenames": step["use_filenames"]}
        judge_table(StepCtx(ctx, case, k), sub, so, [outs[k_line]])
        k_line += 1
    ctx.count("dist", "history:steps=%d,files=%d" % (len(case["steps"]), len(case["names"])))
    ctx.record(case, overwritten)


def judge(ctx, case, impl, outs):
    {"merge": judge_merge, "table": judge_table, "history": judge_history}[case["kind"]](ctx, case, impl, outs)


def evaluate(ctx, cases):
    impls = [run_impl(c) for c in cases]
    lines, spans = [], []
    for c, im in zip(cases, impls):
        ls = model_lines(c, im)
        spans.append((len(lines), len(lines) + len(ls)))
        lines += ls
    outs = core.run_driver(lines, prop="C13")
    for c, im, (a, b) in zip(cases, impls, spans):
        try:
            judge(ctx, c, im, outs[a:b])
        except Exception as e:  # noqa: BLE001 -- what evo returned could not even be judged: a finding about this case, never a tool error
            ctx.fail(c, "output-cannot-be-judged", f"the harness could not judge what evo returned: {type(e).__name__}: {str(e)[:200]}")


def shrink(case):
    if case["kind"] == "merge":
        rs = case["results"]
        if len(rs) > 2:
            for i in range(len(rs)):
                c = dict(case)
                c["results"] = rs[:i] + rs[i + 1:]
                yield c
        for which in ("stats", "arrays"):
            ks = [k for k, _ in rs[0][which]] if rs else []
            for k in ks:
                c = dict(case)
                c["results"] = [dict(d, **{which: [kv for kv in d[which] if kv[0] != k]}) for d in rs]
                yield c
        for i, d in enumerate(rs):
            for j, (k, a) in enumerate(d["arrays"]):
                if len(a) > 1:
                    c = dict(case)
                    nd = dict(d)
                    nd["arrays"] = [list(x) for x in d["arrays"]]
                    nd["arrays"][j] = [k, a[:-1]]
                    c["results"] = rs[:i] + [nd] + rs[i + 1:]
                    yield c
    elif case["kind"] == "history":
        st = case["steps"]
        if len(st) > 2:
            for i in range(len(st) - 1, 0, -1):
                c = dict(case)
                merged = [dict(x) for x in st]
                if i + 1 < len(st):          # keep the writes of a dropped step
                    merged[i + 1] = dict(merged[i + 1], write=dict(st[i]["write"], **st[i + 1]["write"]))
                c["steps"] = merged[:i] + merged[i + 1:]
                yield c
        for i, x in enumerate(st):
            for key, val in (("merge", False), ("use_filenames", False), ("spelling", "rel")):
                if x[key] != val:
                    c = dict(case)
                    c["steps"] = st[:i] + [dict(x, **{key: val})] + st[i + 1:]
                    yield c
    else:
        fs = case["files"]
        if len(fs) > 1:
            for i in range(len(fs)):
                c = dict(case)
                c["files"] = fs[:i] + fs[i + 1:]
                yield c
        for key in ("use_filenames", "ignore_title"):
            if case[key]:
                c = dict(case)
                c[key] = False
                yield c


def check(ctx):
    lean = core.lean_side(ctx.prop, ctx.tier)
    core.drift(ctx, MODELLED)
    cases = list(gen_cases(ctx))
    evaluate(ctx, cases)
    core.shrink_all(ctx, shrink, evaluate)
    return core.finish(
        ctx, lean, rule=RULE,
        extra_trusted=["zipfile/json/numpy.load for reading result files independently of evo; csv for parsing the table"],
        open_clauses=["'every tabulation reflects what the files hold now' (no state kept between calls in one process) is a frame condition of the implementation: the model is a pure function of the current file contents; checked by the history stream (overwrite a path, tabulate / load again)",
                      "'no input result is modified' is a frame condition: the model is purely functional; checked on every case by bitwise snapshots and object identity of the input arrays",
                      "float rounding of the left-to-right sums and the final division: compared within 16*2^-53*(sum of magnitudes); dyadic grid cases with 1, 2, 4, 8 results compared exactly",
                      "pandas/CSV formatting is outside the model: the table is parsed back (repr round trip of doubles) and compared cell by cell; empty info/array columns written by pandas are ignored",
                      "arrays are modelled as flat value lists (ndarray.size, np.append flatten); 2-D arrays (alignment matrix) appear only through their flattened values"],
        assumptions=["keys of a dict are distinct (Python dict)", "arrays under equal keys have equal shapes when their sizes are equal"])


def replay(ctx, data):
    core.sh("lake build drv_C13", cwd=core.LEAN)
    evaluate(ctx, [data["case"]])
    return core.finish_replay(ctx)
