"""C14 — plane projection (evo/core/trajectory.py `project`, transformations.py `euler_from_matrix` 'sxyz').
Model: lean/EvoModel/Model/Project.lean.

Correspondence: zeroed positions (exact), Euler direction handed to atan2 (exact rational, from the
driver) → reference rotation about the plane normal vs evo's new rotation block; refusal history.
Oracle: the clauses of the property evaluated on evo's poses before/after, independent of the model."""
import math
import numpy as np
import core
from core import Fraction, frac, rat

MODELLED = ["evo/core/trajectory.py:PosePath3D.project", "evo/core/trajectory.py:PosePath3D.__init__",
            "evo/core/trajectory.py:Plane", "evo/core/transformations.py:euler_from_matrix", "evo/core/lie_algebra.py:so3_exp"]

U = 64 * 2.0 ** -53
TOL = U * 2                          # unit-vector entries: 64·2⁻⁵³·(|input| + |result|)
MARGIN = Fraction(1, 2 ** 40)        # relative distance of cy² from _EPS² below which the branch is not compared
NULL = {"xy": 2, "xz": 1, "yz": 0}
INPL = {"xy": (0, 1), "xz": (0, 2), "yz": (1, 2)}

RULE = ("cases = (plane, construction route poses_se3-only | xyz+quat, views read before the first project() ∈ {none, positions, quaternions, both}, "
        "1..8 poses, optional timestamps, 1..3 project calls with no view read in between; all 9 plane pairs × 2 routes × 4 read sets systematically); "
        "exact gimbal-lock attitudes (R00 = R10 = 0, the 8 axis-aligned ones) for every plane and route; planar poses on the 1° grid "
        "(−180°,180°] for each plane + random headings, general poses (uniform rotations, translations 1e-3..1e6), gimbal-lock "
        "attitudes (pitch ±90° exact, rounded, and within 1e-16..1e-14 of it; branch compared when |cy²/_EPS² − 1| > 2⁻⁴⁰); "
        "positions compared exactly, rotation block against rotAbout(cos φ, sin φ) with φ = atan2 of the model's exact direction "
        "to 1.4e-14; non-trivial = at least one pose whose rotation is changed by the projection or a refused call; distinct by content hash")

OPEN = ["atan2/cos/sin and scipy's so3_exp are not modelled: the model fixes the exact direction handed to atan2 and takes the normalised "
        "vector as a certified input (Dir.IsUnit, proved unique); the harness applies sqrt/atan2/cos/sin in double precision",
        "XZ plane, |heading| > 90°: the property is false of the code (finding F1, kernel-checked counterexample project_xz_counterexample); "
        "project_xz_fixes_planar_partial covers |heading| ≤ 90° only",
        "float rounding: rotation entries compared to 1.4e-14, gimbal branch not compared within 2⁻⁴⁰ (relative) of the threshold",
        "'cached positions/quaternions are regenerated' is checked by the oracle on every case, the model has a single representation"]


# ----------------------------------------------------------------------------- generators
def rot_about(k, c, s):
    if k == 2:
        return [[c, -s, 0.0], [s, c, 0.0], [0.0, 0.0, 1.0]]
    if k == 1:
        return [[c, 0.0, s], [0.0, 1.0, 0.0], [-s, 0.0, c]]
    return [[1.0, 0.0, 0.0], [0.0, c, -s], [0.0, s, c]]


def planar_pose(plane, deg, a, b):
    k = NULL[plane]
    th = math.radians(deg)
    R = rot_about(k, math.cos(th), math.sin(th))
    t = [0.0, 0.0, 0.0]
    i, j = INPL[plane]
    t[i], t[j] = a, b
    return [R[0] + [t[0]], R[1] + [t[1]], R[2] + [t[2]], [0.0, 0.0, 0.0, 1.0]]


def quat_rot(r):
    q = np.array([r.gauss(0, 1) for _ in range(4)])
    q /= np.linalg.norm(q)
    w, x, y, z = q
    return [[1 - 2 * (y * y + z * z), 2 * (x * y - z * w), 2 * (x * z + y * w)],
            [2 * (x * y + z * w), 1 - 2 * (x * x + z * z), 2 * (y * z - x * w)],
            [2 * (x * z - y * w), 2 * (y * z + x * w), 1 - 2 * (x * x + y * y)]]


def euler_sxyz(ax, ay, az):
    """Rz(az)·Ry(ay)·Rx(ax), the matrix whose sxyz Euler angles are (ax, ay, az)"""
    Rx = np.array(rot_about(0, math.cos(ax), math.sin(ax)))
    Ry = np.array(rot_about(1, math.cos(ay), math.sin(ay)))
    Rz = np.array(rot_about(2, math.cos(az), math.sin(az)))
    return (Rz @ Ry @ Rx).tolist()


def gimbal_rot(r):
    how = r.choice(["exact", "rounded", "near", "near"])
    sgn = r.choice([1, -1])
    if how == "exact":
        # first column (0, 0, ∓1): exact zeros
        c, s = r.choice([(1.0, 0.0), (0.0, 1.0), (-1.0, 0.0), (0.0, -1.0), (0.6, 0.8), (-0.8, 0.6)])
        return [[0.0, -s, sgn * c], [0.0, c, sgn * s], [-float(sgn), 0.0, 0.0]], how
    if how == "rounded":
        return euler_sxyz(r.uniform(-3, 3), sgn * math.pi / 2, r.uniform(-3, 3)), how
    d = 10.0 ** r.uniform(-16.5, -14)
    return euler_sxyz(r.uniform(-3, 3), sgn * (math.pi / 2 - d), r.uniform(-3, 3)), how


def tvec(r):
    if r.random() < 0.3:
        return [r.randint(-64, 64) / r.choice([1, 2, 4]) for _ in range(3)]
    mag = 10.0 ** r.uniform(-3, 6)
    return [r.uniform(-1, 1) * mag for _ in range(3)]


def pose(R, t):
    return [list(R[0]) + [t[0]], list(R[1]) + [t[1]], list(R[2]) + [t[2]], [0.0, 0.0, 0.0, 1.0]]


READS = ("none", "pos", "quat", "both")
PLANES = ("xy", "xz", "yz")


def exact_gimbal_rots():
    """the 8 axis-aligned attitudes with R00 == R10 == 0 exactly (body x axis onto ±z)"""
    out = []
    for sgn in (1.0, -1.0):
        for c, s in ((1.0, 0.0), (0.0, 1.0), (-1.0, 0.0), (0.0, -1.0)):
            out.append([[0.0, -s, sgn * c], [0.0, c, sgn * s], [-sgn, 0.0, 0.0]])
    return out


def stamps_for(r, n):
    """timestamps are not looked at by project(): increasing, unsorted, with duplicates, or none"""
    how = r.choice(["none", "none", "increasing", "increasing", "unsorted", "duplicates"])
    if how == "none":
        return None
    st = [float(i) * 0.1 + 1.5e9 for i in range(n)]
    if how == "unsorted":
        r.shuffle(st)
    elif how == "duplicates":
        st = [st[r.randrange(n)] for _ in range(n)]
    return st


def finish_case(r, c):
    n = len(c["poses"])
    c["mode"] = r.choice(["se3", "se3", "quat"])
    c["reads"] = r.choice(READS)
    c["stamps"] = stamps_for(r, n)
    if r.random() < 0.35:
        c["flavour"] = r.choice(["fortran", "stack", "strided", "aliased", "ndarray3", "ndarray3", "tuple", "objarray"] if c["mode"] == "se3" else ["list", "readonly", "strided"])
        if c["flavour"] == "aliased":
            # repeat some poses: slot i shares the matrix object of slot alias[i]
            m = n + r.randint(1, 3)
            alias = list(range(n)) + [r.randrange(n) for _ in range(m - n)]
            order = list(range(m)); r.shuffle(order)
            first = {}
            poses, al = [], []
            for new_i, old in enumerate(order):
                src = alias[old]
                first.setdefault(src, new_i)
                poses.append(c["poses"][src]); al.append(first[src])
            c["poses"], c["alias"] = poses, al
            for key in ("deg", "how"):
                if c.get(key) is not None:
                    c[key] = [c[key][alias[old]] for old in order]
            c["stamps"] = stamps_for(r, m)
    if r.random() < 0.1:
        c["bad_plane_first"] = True
    c["calls"] = r.choice([[c["plane"]], [c["plane"], c["plane"]], [c["plane"], r.choice(list(NULL))],
                           [c["plane"], r.choice(list(NULL)), r.choice(list(NULL))]])
    return c


def gen_cases(ctx):
    r = ctx.rng
    # corpus: F1 (known finding) and its neighbours
    yield {"kind": "planar", "plane": "xz", "deg": [120.0], "poses": [planar_pose("xz", 120.0, 1.0, 3.0)], "mode": "se3",
           "stamps": None, "calls": ["xz"], "corpus": "F1"}
    yield {"kind": "planar", "plane": "xz", "deg": [60.0], "poses": [planar_pose("xz", 60.0, 1.0, 3.0)], "mode": "se3",
           "stamps": None, "calls": ["xz", "xz"], "corpus": "F1-within-90"}
    yield {"kind": "planar", "plane": "xy", "deg": [120.0], "poses": [planar_pose("xy", 120.0, 1.0, 3.0)], "mode": "quat",
           "stamps": [0.0], "calls": ["xy", "yz"], "corpus": "xy-120"}
    # refusal histories: construction route × views read before the first project() × all 9 plane pairs
    # (nothing is read between the calls), with and without timestamps
    for mode in ("se3", "quat"):
        for reads in READS:
            for p1 in PLANES:
                for p2 in PLANES:
                    stamps = [0.0, 0.5] if r.random() < 0.5 else None
                    yield {"kind": "general", "plane": p1, "deg": None, "poses": [pose(quat_rot(r), tvec(r)) for _ in range(2)],
                           "mode": mode, "reads": reads, "stamps": stamps, "calls": [p1, p2] + ([r.choice(PLANES)] if r.random() < 0.3 else [])}
    # operations between two projections: the second projection must still be refused (also on a deep copy)
    for op in OPS:
        for mode in ("se3", "quat"):
            for st in (True, False):
                p1, p2 = r.choice(PLANES), r.choice(PLANES)
                n = r.choice([3, 4, 6])
                yield {"kind": "general", "plane": p1, "deg": None, "poses": [pose(quat_rot(r), tvec(r)) for _ in range(n)],
                       "mode": mode, "reads": r.choice(READS), "stamps": [0.1 * i for i in range(n)] if st else None,
                       "calls": [p1, "op:" + op] + (["op:" + r.choice(OPS)] if r.random() < 0.3 else []) + [p2]}
    # before the first projection: metadata shared with / synchronised copies handed to *other* objects that get projected;
    # between two projections: the metadata replaced or cleared (the second projection is still refused)
    for mode in ("se3", "quat"):
        for st in (True, False):
            n = r.choice([3, 4, 6])
            mk = lambda calls: {"kind": "general", "plane": next(c for c in calls if not c.startswith("op:")), "deg": None,  # noqa: E731
                                "poses": [pose(quat_rot(r), tvec(r)) for _ in range(n)], "mode": mode, "reads": r.choice(READS),
                                "stamps": [0.1 * i for i in range(n)] if st else None, "calls": calls}
            p1, p2 = r.choice(PLANES), r.choice(PLANES)
            yield mk(["op:meta_shared_sibling", p1, p2])
            yield mk([p1, "op:meta_replace", p2])
            yield mk([p1, "op:meta_clear", p2])
            yield mk(["op:euler_then_reduce", p1, p2])
            if st:
                other = r.choice([p for p in PLANES if p != p1])
                yield mk(["op:assoc_sibling:" + other, p1, p2])
    # poses_se3 given as one (n, 4, 4) ndarray / tuple / object array, n up to 33
    for n in (1, 2, 6, 7, 8, 9, 16, 17, 33):
        for fl in ("ndarray3", "tuple", "objarray"):
            plane = r.choice(PLANES)
            yield {"kind": "general", "plane": plane, "deg": None, "poses": [pose(quat_rot(r), tvec(r)) for _ in range(n)],
                   "mode": "se3", "flavour": fl, "reads": r.choice(READS), "stamps": None, "calls": [plane, r.choice(PLANES)]}
    # structured sizes (L5)
    for n in (1, 2, 3, 4, 7, 8, 9, 15, 16, 17, 31, 32, 33):
        plane = r.choice(PLANES)
        yield finish_case(r, {"kind": "general", "plane": plane, "deg": None, "poses": [pose(quat_rot(r), tvec(r)) for _ in range(n)]})
    # exact gimbal-lock attitudes (R00 == R10 == 0 exactly), every plane, both storage modes
    for plane in PLANES:
        for mode in ("se3", "quat"):
            rots = exact_gimbal_rots()
            yield {"kind": "gimbal", "plane": plane, "deg": None, "poses": [pose(R, tvec(r)) for R in rots], "how": ["exact"] * len(rots),
                   "mode": mode, "reads": r.choice(READS), "stamps": None, "calls": [plane]}
    # planar poses on the 1° grid over (−180°, 180°], every plane, chunks of 6 poses
    for plane in ("xy", "xz", "yz"):
        degs = [float(d) for d in range(-179, 181)]
        r.shuffle(degs)
        for i in range(0, 360, 6):
            chunk = degs[i:i + 6]
            yield finish_case(r, {"kind": "planar", "plane": plane, "deg": chunk,
                                  "poses": [planar_pose(plane, d, *tvec(r)[:2]) for d in chunk]})
    n = 400 if not ctx.thorough else 8000
    for _ in range(n):
        plane = r.choice(list(NULL))
        m = r.randint(1, 4)
        degs = [r.choice([r.uniform(-180, 180), r.uniform(-180, 180), 90.0 + r.uniform(-1, 1) * 10.0 ** r.uniform(-13, -1),
                          -90.0 + r.uniform(-1, 1) * 10.0 ** r.uniform(-13, -1), 180.0 - 10.0 ** r.uniform(-13, -1),
                          -180.0 + 10.0 ** r.uniform(-13, -1), 10.0 ** r.uniform(-14, -2) * r.choice([1, -1])]) for _ in range(m)]
        yield finish_case(r, {"kind": "planar", "plane": plane, "deg": degs,
                              "poses": [planar_pose(plane, d, *tvec(r)[:2]) for d in degs]})
    n = 400 if not ctx.thorough else 8000
    for _ in range(n):
        plane = r.choice(list(NULL))
        m = r.randint(1, 4)
        yield finish_case(r, {"kind": "general", "plane": plane, "deg": None,
                              "poses": [pose(quat_rot(r), tvec(r)) for _ in range(m)]})
    n = 400 if not ctx.thorough else 8000
    for _ in range(n):
        plane = r.choice(list(NULL))
        m = r.randint(1, 3)
        ps, hows = [], []
        for _ in range(m):
            R, how = gimbal_rot(r)
            ps.append(pose(R, tvec(r)))
            hows.append(how)
        yield finish_case(r, {"kind": "gimbal", "plane": plane, "deg": None, "poses": ps, "how": hows})


# ----------------------------------------------------------------------------- implementation
def run_impl(case):
    try:
        return run_impl_(case)
    except Exception as e:  # an unexpected exception of evo is an observable failure
        return {"crash": f"{type(e).__name__}: {e}"}


def quat_of(R):
    """wxyz quaternion of a rotation matrix (harness-side, Shepperd), used to build the quaternion storage mode"""
    R = np.array(R)
    t = np.trace(R)
    cand = [t, R[0, 0], R[1, 1], R[2, 2]]
    k = int(np.argmax(cand))
    if k == 0:
        q = np.array([1 + t, R[2, 1] - R[1, 2], R[0, 2] - R[2, 0], R[1, 0] - R[0, 1]])
    elif k == 1:
        q = np.array([R[2, 1] - R[1, 2], 1 + 2 * R[0, 0] - t, R[0, 1] + R[1, 0], R[0, 2] + R[2, 0]])
    elif k == 2:
        q = np.array([R[0, 2] - R[2, 0], R[0, 1] + R[1, 0], 1 + 2 * R[1, 1] - t, R[1, 2] + R[2, 1]])
    else:
        q = np.array([R[1, 0] - R[0, 1], R[0, 2] + R[2, 0], R[1, 2] + R[2, 1], 1 + 2 * R[2, 2] - t])
    return q / np.linalg.norm(q)


def snapshot(tr):
    """all observable views; an exception while reading a view is recorded, not raised"""
    out = {"errors": []}
    def get(name, f):
        try:
            out[name] = f()
        except Exception as e:  # e.g. LinAlgError from the quaternion conversion of a NaN matrix
            out[name] = None
            out["errors"].append(f"{name}: {type(e).__name__}: {e}")
    get("poses", lambda: [np.array(p, dtype=float).tolist() for p in tr.poses_se3])
    get("xyz", lambda: np.array(tr.positions_xyz, dtype=float).tolist())
    get("quat", lambda: np.array(tr.orientations_quat_wxyz, dtype=float).tolist())
    get("stamps", lambda: (np.array(tr.timestamps, dtype=float).tolist() if hasattr(tr, "timestamps") else None))
    get("n", lambda: int(tr.num_poses))
    return out


def build(case):
    """a fresh object by the construction route of the case; `reads` = views read before the first project()"""
    from evo.core.trajectory import PosePath3D, PoseTrajectory3D
    poses = [np.array(p, dtype=float) for p in case["poses"]]
    fl = case.get("flavour")
    kw = {}
    stamps = None if case["stamps"] is None else np.array(case["stamps"])
    if case["mode"] == "se3":
        if fl == "fortran":
            lst = [np.asfortranarray(p.copy()) for p in poses]
        elif fl == "stack":                       # views of one (n, 4, 4) base array (how stacked pose files are usually split)
            lst = list(np.array(poses))
        elif fl == "ndarray3":                    # the (n, 4, 4) array itself as poses_se3 (iteration yields temporary views)
            lst = np.stack(poses)
        elif fl == "tuple":
            lst = tuple(p.copy() for p in poses)
        elif fl == "objarray":
            lst = np.empty(len(poses), dtype=object)
            for i, p_ in enumerate(poses):
                lst[i] = p_.copy()
        elif fl == "strided":                     # non-contiguous views into a larger array
            big = np.full((len(poses), 8, 9), 7.0)
            big[:, 1::2, 1::2] = np.array(poses)
            lst = [big[i, 1::2, 1::2] for i in range(len(poses))]
        elif fl == "aliased":                     # one matrix object in several slots: slot i holds the object of slot alias[i]
            objs = {}
            lst = []
            for i, j in enumerate(case["alias"]):
                if j not in objs:
                    objs[j] = poses[j].copy()
                lst.append(objs[j])
        else:
            lst = [p.copy() for p in poses]
        kw["poses_se3"] = lst
    else:
        xyz = np.array([p[:3, 3] for p in poses])
        quat = np.array([quat_of(p[:3, :3]) for p in poses])
        if fl == "list":
            xyz, quat = xyz.tolist(), quat.tolist()
            stamps = None if stamps is None else stamps.tolist()
        elif fl == "readonly":
            xyz.setflags(write=False)
            quat.setflags(write=False)
            if stamps is not None:
                stamps.setflags(write=False)
        elif fl == "strided":
            bx = np.full((len(poses), 6), 7.0); bx[:, ::2] = xyz; xyz = bx[:, ::2]
            bq = np.full((len(poses), 8), 7.0); bq[:, ::2] = quat; quat = bq[:, ::2]
        kw["positions_xyz"] = xyz
        kw["orientations_quat_wxyz"] = quat
    if case["stamps"] is not None:
        tr = PoseTrajectory3D(timestamps=stamps, **kw)
    else:
        tr = PosePath3D(**kw)
    return tr


OPS = ("transform_left", "transform_right", "transform_prop", "transform_sim3", "scale", "align", "align_scale", "align_origin",
       "reduce_to_ids", "downsample", "deepcopy")


def apply_op(tr, op, case):
    """an operation between two projections; returns the object to continue with (the copy for deepcopy)"""
    import copy
    from evo.core import lie_algebra as lie
    T = lie.se3(np.array(rot_about(2, 0.6, 0.8)) @ np.array(rot_about(0, 0.8, -0.6)), np.array([1.0, -2.0, 0.5]))
    ref = build({**case, "flavour": None, "mode": "se3"})
    n = tr.num_poses
    if op == "transform_left":
        tr.transform(T)
    elif op == "transform_right":
        tr.transform(T, right_mul=True)
    elif op == "transform_prop":
        tr.transform(T, right_mul=True, propagate=True)
    elif op == "transform_sim3":
        tr.transform(lie.sim3(T[:3, :3], T[:3, 3], 2.0))
    elif op == "scale":
        tr.scale(2.0)
    elif op == "align":
        tr.align(ref)
    elif op == "align_scale":
        tr.align(ref, correct_scale=True)
    elif op == "align_origin":
        tr.align_origin(ref)
    elif op == "reduce_to_ids":
        tr.reduce_to_ids(list(range(0, n, 2)) if n > 1 else [0])
    elif op == "downsample":
        tr.downsample(max(1, n // 2))
    elif op == "deepcopy":
        return copy.deepcopy(tr)
    elif op == "euler_then_reduce":
        # the Euler angles are looked at (roll/pitch/yaw plot), then the object is reduced to other poses: the projection that
        # follows works on the poses the object holds NOW (the twin is reduced the same way by the caller of this history)
        tr.get_orientations_euler("sxyz")
        tr.reduce_to_ids(list(range(tr.num_poses - 1, -1, -2))[::-1] if tr.num_poses > 2 else [tr.num_poses - 1])
    elif op == "meta_replace":          # the "already projected" state must not live in the public metadata
        tr.meta = {}
    elif op == "meta_clear":
        tr.meta.clear()
    elif op == "meta_shared_sibling":
        # a sibling object that shares the *meta dict* (meta=tr.meta) is projected: the object under test was never projected
        from evo.core.trajectory import PosePath3D, Plane
        sib = PosePath3D(poses_se3=[np.array(p_) for p_ in tr.poses_se3], meta=tr.meta)
        sib.project(Plane.XY)
    elif op.startswith("assoc_sibling:"):
        # a synchronised copy (sync.associate_trajectories) of the object under test is projected onto another plane: the
        # object under test must not be affected (its own projection afterwards starts from its own poses)
        from evo.core import sync
        from evo.core.trajectory import Plane, PoseTrajectory3D
        if isinstance(tr, PoseTrajectory3D):
            tr.poses_se3                      # matrices materialised: what a shallow copy would share
            a_, b_ = sync.associate_trajectories(tr, copy.deepcopy(tr))
            a_.project({"xy": Plane.XY, "xz": Plane.XZ, "yz": Plane.YZ}[op.split(":")[1]])
            b_.transform(T)
    return tr


def read_views(tr, reads):
    if reads in ("pos", "both"):
        tr.positions_xyz
    if reads in ("quat", "both"):
        tr.orientations_quat_wxyz


def run_impl_(case):
    import warnings
    from evo.core.trajectory import Plane, TrajectoryException
    P = {"xy": Plane.XY, "xz": Plane.XZ, "yz": Plane.YZ}
    reads = case.get("reads", "none")
    with warnings.catch_warnings():
        warnings.simplefilter("ignore")
        b0 = build(case)
        if "op:euler_then_reduce" in case["calls"]:      # what the projection starts from in this history: the reduced poses
            b0.reduce_to_ids(list(range(b0.num_poses - 1, -1, -2))[::-1] if b0.num_poses > 2 else [b0.num_poses - 1])
        out = {"before": snapshot(b0), "calls": []}          # twin: the object under test is not read
        try:
            out["evo_check_before"] = bool(build(case).check()[0])
        except Exception as e:
            out["evo_check_before"] = f"{type(e).__name__}: {e}"
        # twin projected once: the state after the first projection
        b = build(case)
        read_views(b, reads)
        if "op:euler_then_reduce" in case["calls"]:
            b.reduce_to_ids(list(range(b.num_poses - 1, -1, -2))[::-1] if b.num_poses > 2 else [b.num_poses - 1])
        b.project(P[next(c for c in case["calls"] if not c.startswith("op:"))])
        out["after"] = snapshot(b)
        out["ops"] = []
        try:
            out["evo_check"] = bool(b.check()[0])
        except Exception as e:
            out["evo_check"] = f"{type(e).__name__}: {e}"
        # object under test: the whole call history, no view is read between the calls
        tr = build(case)
        read_views(tr, reads)
        if case.get("bad_plane_first"):
            try:
                tr.project(case["calls"][0])         # the plane's *string*, not a Plane: must be refused as unknown
                out["bad_plane"] = "accepted"
            except TrajectoryException:
                out["bad_plane"] = "TrajectoryException"
        for pl in case["calls"]:
            if pl.startswith("op:"):
                try:
                    tr = apply_op(tr, pl[3:], case)
                    out["ops"].append("ok")
                except Exception as e:          # e.g. align of fewer than 3 / degenerate poses: recorded, the history goes on
                    out["ops"].append(f"{type(e).__name__}: {e}")
                continue
            try:
                tr.project(P[pl])
                out["calls"].append("OK")
            except TrajectoryException:
                out["calls"].append("REFUSED")
        out["final"] = snapshot(tr)
    return out


# ----------------------------------------------------------------------------- model
def pose12(m):
    return " ".join(rat(m[i][j]) for i in range(3) for j in range(4))


def model_lines(case, impl):
    if "crash" in impl or impl["before"]["poses"] is None:
        return []
    planes = [c for c in case["calls"] if not c.startswith("op:")]     # operations in between do not touch the flag in the model
    lines = [f"C14 hist {len(planes)} " + " ".join(planes)]
    for p in impl["before"]["poses"]:
        lines.append(f"C14 proj {case['plane']} {pose12(p)}")
    return lines


def ref_direction(xsq, xneg, y):
    """(cos φ, sin φ), φ = atan2(y, ±√xsq): the single final irrational step, double precision on correctly rounded inputs"""
    x = math.sqrt(float(xsq))
    if xneg:
        x = -x
    phi = math.atan2(float(y), x)
    return math.cos(phi), math.sin(phi), phi


def extract_cs(plane, R):
    if plane == "xy":
        return R[0][0], R[1][0]
    if plane == "xz":
        return R[0][0], R[0][2]
    return R[1][1], R[2][1]


# ----------------------------------------------------------------------------- judging
def judge(ctx, case, impl, outs):
    plane = case["plane"]
    k = NULL[plane]
    ctx.count("dist", f"{case['kind']}:{plane}:{case['mode']}")
    if case.get("flavour"):
        ctx.count("dist", "flavour:" + case["flavour"])
    ctx.count("dist", "poses=%d" % len(case["poses"]))
    ctx.count("dist", f"route:{case['mode']}{'+stamps' if case['stamps'] is not None else ''}:reads={case.get('reads', 'none')}:calls={len(case['calls'])}")
    if "crash" in impl:
        ctx.fail(case, "no-unexpected-exception", impl["crash"], {"plane": plane})
        ctx.record(case, False)
        return
    before, after = impl["before"], impl["after"]
    if not outs or after["poses"] is None or len(after["poses"]) != len(before["poses"]):
        oracle(ctx, case, impl)
        ctx.record(case, False)
        return
    # ---- correspondence
    m_hist = outs[0].split()
    if m_hist != impl["calls"]:
        ctx.mismatch(case, "sequence of carried out / refused project() calls differs from Project.history", impl["calls"], m_hist)
    changed = False
    for i, line in enumerate(outs[1:]):
        tok = line.split()
        mt = [core.parse_rat(x) for x in tok[0:3]]
        xsq, xneg, y, gimbal, margin = core.parse_rat(tok[3]), tok[4] == "1", core.parse_rat(tok[5]), tok[6] == "1", core.parse_rat(tok[7])
        pa = after["poses"][i]
        if not all(math.isfinite(x) for row in pa for x in row):
            ctx.mismatch(case, f"pose {i}: projected pose has non-finite entries", pa, None)
            continue
        if [frac(pa[r][3]) for r in range(3)] != mt:
            ctx.mismatch(case, f"pose {i}: projected position differs from zeroNormal", [pa[r][3] for r in range(3)], [str(x) for x in mt])
        if margin <= MARGIN:
            ctx.skipped += 1
            continue
        ctx.count("branch", f"{plane}:{'gimbal' if gimbal else 'regular'}" + (":x<0" if xneg else "") + (":zero-direction" if xsq + y * y == 0 else ""))
        c, s, phi = ref_direction(xsq, xneg, y)
        ref = rot_about(k, c, s)
        R = [row[:3] for row in pa[:3]]
        worst = max(abs(R[a][b] - ref[a][b]) for a in range(3) for b in range(3))
        if worst > TOL:
            ctx.mismatch(case, f"pose {i}: new rotation block differs from rotAbout({plane}, cos φ, sin φ), φ = atan2 of the model direction "
                               f"({'gimbal' if gimbal else 'regular'} branch) by {worst:.3e}", R, ref)
        # squares and signs of the direction
        ce, se = extract_cs(plane, R)
        n = float(xsq + y * y)
        if n > 0 and abs(ce * ce * n - float(xsq)) > 4 * TOL * n:
            ctx.mismatch(case, f"pose {i}: cos² of the projected heading is not xsq/(xsq+y²)", ce * ce, float(xsq) / n)
        Rb = [row[:3] for row in before["poses"][i][:3]]
        if max(abs(R[a][b] - Rb[a][b]) for a in range(3) for b in range(3)) > 1e-9:
            changed = True
    # ---- oracle
    oracle(ctx, case, impl)
    ctx.record(case, changed or "REFUSED" in impl["calls"])


def is_planar_input(plane, M):
    """the pose lies in the plane: normal coordinate 0, rotation block a rotation about the normal (exact structure)"""
    k = NULL[plane]
    if M[k][3] != 0.0:
        return False
    for a in range(3):
        if a != k and (M[a][k] != 0.0 or M[k][a] != 0.0):
            return False
    return M[k][k] == 1.0


def same_snapshot(a, b):
    """equality of two snapshots, NaN-tolerant (NaN entries are reported by valid-rigid-pose)"""
    import json
    return json.dumps(a, sort_keys=True) == json.dumps(b, sort_keys=True)


def oracle(ctx, case, impl):
    plane = case["plane"]
    k = NULL[plane]
    i0, i1 = INPL[plane]
    before, after, final = impl["before"], impl["after"], impl["final"]
    base = {"plane": plane}
    # evo must not raise while its views are read, before or after the projection
    for name, snap in (("before", before), ("after the first projection", after), ("after the last call", final)):
        if snap["errors"]:
            ctx.fail(case, "no-unexpected-exception", f"reading the views {name}: " + "; ".join(snap["errors"]), base)
    if isinstance(impl["evo_check"], str):
        ctx.fail(case, "no-unexpected-exception", f"check() after projection: {impl['evo_check']}", base)
    if before["poses"] is None or after["poses"] is None or after["n"] is None:
        return
    # count, order, timestamps
    if after["n"] != before["n"] or len(after["poses"]) != len(before["poses"]):
        ctx.fail(case, "count-unchanged", f"{before['n']} poses before, {after['n']} after", base)
        return
    if after["stamps"] != before["stamps"]:
        ctx.fail(case, "timestamps-unchanged", "timestamps differ after project()", base)
    for i, (pb, pa) in enumerate(zip(before["poses"], after["poses"])):
        tags = dict(base)
        # heading of a planar input beyond ±90° ⇔ its cosine entry is negative
        cb, sb = extract_cs(plane, [row[:3] for row in pb[:3]])
        tags["heading_beyond_90"] = bool(cb < 0)
        if not all(math.isfinite(x) for row in pa for x in row):
            ctx.fail(case, "valid-rigid-pose", f"pose {i}: non-finite entries after projection: {[row[:3] for row in pa[:3]]}", tags)
            continue
        if pa[k][3] != 0.0:
            ctx.fail(case, "out-of-plane-zero", f"pose {i}: coordinate {k} is {pa[k][3]!r} after projection", tags)
        if pa[i0][3] != pb[i0][3] or pa[i1][3] != pb[i1][3]:
            ctx.fail(case, "in-plane-unchanged", f"pose {i}: in-plane coordinates {pb[i0][3]!r},{pb[i1][3]!r} → {pa[i0][3]!r},{pa[i1][3]!r} (order/identity of poses)", tags)
        if list(pa[3]) != [0.0, 0.0, 0.0, 1.0]:
            ctx.fail(case, "valid-rigid-pose", f"pose {i}: bottom row {pa[3]}", tags)
        R = [[frac(x) for x in row[:3]] for row in pa[:3]]
        # pure rotation about the normal: normal row and column are e_k
        for a in range(3):
            want = 1 if a == k else 0
            if abs(R[a][k] - want) > Fraction(1, 10 ** 15) or abs(R[k][a] - want) > Fraction(1, 10 ** 15):
                ctx.fail(case, "pure-rotation-about-normal", f"pose {i}: row/column {k} of the rotation is not the unit vector "
                                                              f"({[float(R[a][k]) for a in range(3)]}, {[float(x) for x in R[k]]})", tags)
                break
        # valid rigid-body pose: RᵀR = I, det = 1 (exact arithmetic on evo's floats)
        G = [[sum(R[c][a] * R[c][b] for c in range(3)) for b in range(3)] for a in range(3)]
        dev = max(abs(G[a][b] - (1 if a == b else 0)) for a in range(3) for b in range(3))
        det = (R[0][0] * (R[1][1] * R[2][2] - R[1][2] * R[2][1]) - R[0][1] * (R[1][0] * R[2][2] - R[1][2] * R[2][0])
               + R[0][2] * (R[1][0] * R[2][1] - R[1][1] * R[2][0]))
        if dev > Fraction(1, 10 ** 14) or abs(det - 1) > Fraction(1, 10 ** 14):
            ctx.fail(case, "valid-rigid-pose", f"pose {i}: RᵀR deviates from I by {float(dev):.3e}, det = {float(det)!r}", tags)
        # planar poses are fixed
        if is_planar_input(plane, pb):
            d = max(abs(pa[a][b] - pb[a][b]) for a in range(3) for b in range(4))
            if d > TOL:
                ce, se = extract_cs(plane, [row[:3] for row in pa[:3]])
                ctx.fail(case, "planar-pose-unchanged",
                         f"pose {i} lies in the {plane} plane (heading {math.degrees(math.atan2(sb, cb)):.6f}°) but is changed by {d:.3e}: "
                         f"heading after projection {math.degrees(math.atan2(se, ce)):.6f}°", tags)
        # cached views regenerated
        if after["xyz"] is None or after["quat"] is None:
            continue
        if after["xyz"][i] != [pa[0][3], pa[1][3], pa[2][3]]:
            ctx.fail(case, "views-consistent", f"pose {i}: positions_xyz {after['xyz'][i]} ≠ translation of poses_se3", tags)
        w, x, y, z = after["quat"][i]
        Rq = [[1 - 2 * (y * y + z * z), 2 * (x * y - z * w), 2 * (x * z + y * w)],
              [2 * (x * y + z * w), 1 - 2 * (x * x + z * z), 2 * (y * z - x * w)],
              [2 * (x * z - y * w), 2 * (y * z + x * w), 1 - 2 * (x * x + y * y)]]
        if max(abs(Rq[a][b] - pa[a][b]) for a in range(3) for b in range(3)) > 1e-12:
            ctx.fail(case, "views-consistent", f"pose {i}: orientations_quat_wxyz does not describe the projected rotation", tags)
    if impl["evo_check"] is False and impl.get("evo_check_before", True) is True:
        ctx.fail(case, "valid-rigid-pose", "evo's own check() rejects the projected trajectory", base)
    if impl.get("bad_plane", "TrajectoryException") != "TrajectoryException":
        ctx.fail(case, "unknown-plane-refused", f"project({case['calls'][0]!r}) (a string, not a Plane) was {impl['bad_plane']}", base)
    # one-shot
    if impl["calls"][0] != "OK":
        ctx.fail(case, "first-projection-carried-out", "the first project() was refused", base)
    if any(c != "REFUSED" for c in impl["calls"][1:]):
        ctx.fail(case, "second-projection-refused", f"calls {case['calls']} → projections {impl['calls']}, operations {impl.get('ops')}", base)
    for op, res in zip([c for c in case["calls"] if c.startswith("op:")], impl.get("ops", [])):
        ctx.count("branch", "between projections: " + op[3:] + (" (op raised)" if res != "ok" else ""))
    has_ops = any(c.startswith("op:") for c in case["calls"])
    if not has_ops and all(c == "REFUSED" for c in impl["calls"][1:]) and not same_snapshot(final, after):
        ctx.fail(case, "second-projection-refused", "a refused project() call changed the object", base)
    neutral_ops = [c for c in case["calls"] if c.startswith("op:")]
    if has_ops and all(c[3:].split(":")[0] in ("meta_replace", "meta_clear", "meta_shared_sibling", "assoc_sibling", "euler_then_reduce") for c in neutral_ops) \
            and impl["calls"] and impl["calls"][0] == "OK" and all(c == "REFUSED" for c in impl["calls"][1:]) \
            and not same_snapshot(final, after):
        # operations on the metadata / on OTHER objects (siblings sharing metadata, synchronised copies that get projected) do
        # not touch the poses of the object under test: it must end up exactly as a fresh object projected once
        ctx.fail(case, "in-plane-unchanged", f"history {case['calls']}: the object does not show the projection of its own poses "
                 f"(it differs from an identically built object projected directly): operations on other objects / the metadata "
                 f"leaked into it", base)


# ----------------------------------------------------------------------------- plumbing
def history_independent(ctx, cases, impls):
    """L2: the same history right after a gimbal-lock / refused-call case must give the result it gave before"""
    import json
    deg = {"kind": "gimbal", "plane": "xy", "deg": None, "poses": [pose(R, [1.0, 2.0, 3.0]) for R in exact_gimbal_rots()[:2]],
           "mode": "se3", "reads": "none", "stamps": None, "calls": ["xy", "yz"]}
    step = max(1, len(cases) // 60)
    for i in range(0, len(cases), step):
        run_impl(deg)
        again = run_impl(cases[i])
        if json.dumps(again, sort_keys=True) != json.dumps(impls[i], sort_keys=True):
            ctx.fail(cases[i], "result-independent-of-call-history", "the same history gives a different result after other calls in the same process",
                     {"plane": cases[i]["plane"]})
        ctx.count("branch", "repeated after a gimbal-lock case")


def evaluate(ctx, cases):
    impls = [run_impl(c) for c in cases]
    if len(cases) > 50:
        history_independent(ctx, cases, impls)
    lines, spans = [], []
    for c, im in zip(cases, impls):
        try:
            ls = model_lines(c, im)
        except (ValueError, OverflowError):      # non-finite input pose computed by evo (quaternion route): reported by the oracle
            ls = []
        spans.append((len(lines), len(ls)))
        lines += ls
    outs = core.run_driver(lines, prop="C14") if lines else []
    for c, im, (o, n) in zip(cases, impls, spans):
        try:
            judge(ctx, c, im, outs[o:o + n])
        except Exception as e:  # noqa: BLE001 -- what evo returned could not even be judged: a finding about this case, never a tool error
            ctx.fail(c, "output-cannot-be-judged", f"the harness could not judge what evo returned: {type(e).__name__}: {str(e)[:200]}")


def shrink(case):
    n = len(case["poses"])
    if n > 1:
        for i in range(n):
            c = dict(case)
            if c.get("flavour") == "aliased":
                continue
            c["poses"] = case["poses"][:i] + case["poses"][i + 1:]
            for key in ("deg", "stamps", "how"):
                if c.get(key) is not None:
                    c[key] = case[key][:i] + case[key][i + 1:]
            yield c
    if len(case["calls"]) > 1:
        c = dict(case); c["calls"] = case["calls"][:-1]
        if not c["calls"][-1].startswith("op:"):
            yield c
        for i, x in enumerate(case["calls"]):
            if x.startswith("op:"):
                c = dict(case); c["calls"] = case["calls"][:i] + case["calls"][i + 1:]; yield c
    if case["stamps"] is not None:
        c = dict(case); c["stamps"] = None; yield c
    if case["mode"] == "quat":
        c = dict(case); c["mode"] = "se3"; yield c
    if case.get("flavour"):
        c = {k: v for k, v in case.items() if k not in ("flavour", "alias")}; yield c
    if case.get("reads", "none") != "none":
        c = dict(case); c["reads"] = "none"; yield c
    for i, p in enumerate(case["poses"]):
        if any(p[a][3] not in (0.0, 1.0) for a in range(3)):
            c = dict(case)
            q = [list(row) for row in p]
            for a in range(3):
                q[a][3] = 0.0 if p[a][3] == 0.0 else 1.0
            c["poses"] = case["poses"][:i] + [q] + case["poses"][i + 1:]
            yield c


CONTAINERS = ("ndarray3", "tuple", "objarray", "stack", "aliased")


def stabilise(ctx):
    """Failures that involve object identities (container flavours) can depend on the allocator state of this long-running
    process.  For each clause whose smallest failing case is of that kind, keep a failing case that also fails in a *fresh*
    process (checked with `--replay` in a subprocess), so that the replay file reproduces."""
    import json, subprocess, sys, os
    by = {}
    for case, f in ctx.failures:
        by.setdefault(f["clause"], []).append((case, f))
    size = lambda cf: len(json.dumps(cf[0], default=str))
    keep, unconfirmed, confirmed = [], [], False
    for clause, lst in by.items():
        lst.sort(key=size)
        if lst[0][0].get("flavour") not in CONTAINERS:
            keep += lst
            confirmed = True
            continue
        cands = lst[:2] + sorted(lst, key=lambda cf: -len(cf[0]["poses"]))[:4]
        found = None
        for case, f in cands:
            tmp = core.VERIF / "evidence" / "replay" / f"tmp-C14-{os.getpid()}.json"
            tmp.parent.mkdir(parents=True, exist_ok=True)
            tmp.write_text(json.dumps({"property": "C14", "seed": ctx.seed, "case": case}, default=str))
            try:
                rc = subprocess.run([sys.executable, str(core.VERIF / "harness" / "main.py"), "C14", "--replay", str(tmp)],
                                    capture_output=True, timeout=300).returncode
            except Exception:
                rc = None
            finally:
                tmp.unlink(missing_ok=True)
            if rc == 1:
                found = (case, f)
                break
        if found:
            keep.append(found)
            confirmed = True
        else:
            unconfirmed += lst
        ctx.notes.setdefault("state_dependent_failures", {})[clause] = "reproduced in a fresh process" if found else "seen only in the long-running process"
    # clauses seen only in this process are reported only when nothing reproducible was found (they are listed in the notes)
    ctx.failures = keep if confirmed else keep + unconfirmed


def check(ctx):
    lean = core.lean_side(ctx.prop, ctx.tier)
    core.drift(ctx, MODELLED)
    cases = list(gen_cases(ctx))
    evaluate(ctx, cases)
    core.shrink_all(ctx, shrink, evaluate)
    if ctx.failures:
        stabilise(ctx)
    return core.finish(ctx, lean, rule=RULE, open_clauses=OPEN,
                       assumptions=["input poses are valid SE(3) matrices with finite entries",
                                    "a 'planar pose' has the exact block structure of a rotation about the plane normal and a zero normal coordinate"],
                       extra_trusted=["Python float(), math.sqrt/atan2/cos/sin for the final irrational step of the reference direction"])


def replay(ctx, data):
    core.sh("lake build drv_C14", cwd=core.LEAN)
    # failures that depend on the allocator state (e.g. object identities of temporary views) need not show on the first run of
    # a fresh process: repeat the case, with some allocation churn in between, until it fails (at most 40 times)
    churn = []
    for k in range(40):
        sub = core.Ctx(ctx.prop, ctx.tier, ctx.seed)
        evaluate(sub, [data["case"]])
        if sub.failures or sub.mismatches or sub.known_seen or k == 39:
            ctx.failures, ctx.mismatches, ctx.known_seen = sub.failures, sub.mismatches, sub.known_seen
            break
        churn.append([np.zeros((4, 4)) for _ in range(k + 1)])
        del churn[::2]
    return core.finish_replay(ctx)
