"""C15 — evo_traj applies its options in the documented order and exports the result
(evo/main_traj.py run, main_traj_parser.py, file_interface.load_transform).
Model: lean/EvoModel/Model/TrajPlan.lean; option table: Gen/TrajOptions.lean (translate/trajoptions.py)."""
import hashlib
import io
import json
import math
import os
import shutil
import tempfile
import contextlib
import numpy as np
import core
from core import Fraction, frac, rat
from translate import trajoptions

MODELLED = ["evo/main_traj.py:run", "evo/main_traj.py:load_trajectories", "evo/main_traj.py:die", "evo/main_traj.py:to_filestem",
            "evo/main_traj_parser.py:parser", "evo/tools/file_interface.py:load_transform",
            "evo/tools/file_interface.py:load_transform_json", "evo/core/trajectory.py:PosePath3D.transform",
            "evo/core/trajectory.py:PosePath3D.align", "evo/core/trajectory.py:PosePath3D.align_origin",
            "evo/core/trajectory.py:PosePath3D.scale", "evo/core/trajectory.py:PosePath3D.downsample",
            "evo/core/trajectory.py:PosePath3D.motion_filter", "evo/core/trajectory.py:PosePath3D.project",
            "evo/core/trajectory.py:merge", "evo/core/lie_algebra.py:se3_inverse", "evo/core/lie_algebra.py:sim3_inverse",
            "evo/core/lie_algebra.py:sim3_scale", "evo/core/lie_algebra.py:is_se3", "evo/core/lie_algebra.py:is_so3",
            "evo/core/lie_algebra.py:is_sim3", "evo/core/lie_algebra.py:sim3", "evo/core/filters.py:filter_by_motion",
            "evo/core/sync.py:associate_trajectories", "evo/core/sync.py:matching_time_indices"]

RULE = ("cases = (subcommand tum/kitti/euroc, 1..3 trajectory files [+ reference file, possibly listed among the inputs], option "
        "set, transformation file npy/txt/json holding an SE(3) or Sim(3) matrix); evo.main_traj.run(parser().parse_args(argv)) is "
        "executed in-process in a scratch directory; (0) on the exact-grid stream (dyadic stamps/positions, rational step lengths, 90-degree "
        "rotations, thresholds hit exactly) the exported files are compared with trajRun of the Lean driver on the rational inputs "
        "(kept / paired poses exactly via count and stamps, numbers to 1e-9; external numerics certified from evo's run); --merge inputs "
        "sharing exact timestamps across / within files are in both streams (pose counts exactly, rows of equal stamp as multisets); (1) the plan returned by the Lean driver for the same option set is interpreted "
        "with evo's core API on freshly read copies and every exported *.tum / *.kitti file must be bit-identical (die / exception "
        "class must agree as well); (2) oracle: an independent numpy re-computation of the documented pipeline (positions, stamps, "
        "rotation validity) must agree with the exported files to 1e-6; option sets: greedy pairwise-covering array over 20 factors "
        "first, then random sets biased towards runs that do not die; non-trivial = at least one processing step and an export")

PLANES = {"xy": 2, "xz": 1, "yz": 0}


# ----------------------------------------------------------------------------- small linear algebra (oracle side)
def quat_to_rot(w, x, y, z):
    n = math.sqrt(w * w + x * x + y * y + z * z)
    w, x, y, z = w / n, x / n, y / n, z / n
    return np.array([[1 - 2 * (y * y + z * z), 2 * (x * y - z * w), 2 * (x * z + y * w)],
                     [2 * (x * y + z * w), 1 - 2 * (x * x + z * z), 2 * (y * z - x * w)],
                     [2 * (x * z - y * w), 2 * (y * z + x * w), 1 - 2 * (x * x + y * y)]])


def rot_to_quat(R):
    """wxyz, w >= 0 (only used to write input files)"""
    t = np.trace(R)
    if t > 0:
        s = math.sqrt(t + 1.0) * 2
        q = [0.25 * s, (R[2, 1] - R[1, 2]) / s, (R[0, 2] - R[2, 0]) / s, (R[1, 0] - R[0, 1]) / s]
    else:
        i = int(np.argmax(np.diag(R)))
        j, k = (i + 1) % 3, (i + 2) % 3
        s = math.sqrt(R[i, i] - R[j, j] - R[k, k] + 1.0) * 2
        v = [0.0, 0.0, 0.0]
        v[i] = 0.25 * s
        v[j] = (R[j, i] + R[i, j]) / s
        v[k] = (R[k, i] + R[i, k]) / s
        q = [(R[k, j] - R[j, k]) / s] + v
    q = np.array(q)
    q = q / np.linalg.norm(q)
    return (q if q[0] >= 0 else -q).tolist()


def rot_axis(axis, ang):
    c, s = math.cos(ang), math.sin(ang)
    if axis == 0:
        return np.array([[1, 0, 0], [0, c, -s], [0, s, c]])
    if axis == 1:
        return np.array([[c, 0, s], [0, 1, 0], [-s, 0, c]])
    return np.array([[c, -s, 0], [s, c, 0], [0, 0, 1]])


# ----------------------------------------------------------------------------- generators
def gen_base(r, n):
    """smooth 3-D walk: stamps (multiples of 1/8 s), positions, rotations"""
    t0 = r.choice([0.0, 100.0, 1.5e9])
    p = np.array([r.uniform(-5, 5), r.uniform(-5, 5), r.uniform(-1, 1)])
    R = rot_axis(2, r.uniform(-3, 3)) @ rot_axis(0, r.uniform(-0.5, 0.5))
    out = []
    for k in range(n):
        out.append((t0 + k / 8, p.copy(), R.copy()))
        R = R @ rot_axis(2, r.uniform(-0.3, 0.3)) @ rot_axis(1, r.uniform(-0.1, 0.1)) @ rot_axis(0, r.uniform(-0.1, 0.1))
        p = p + R @ np.array([r.uniform(0.2, 0.8), r.uniform(-0.1, 0.1), r.uniform(-0.15, 0.15)])
    return out


def gen_traj(r, base, sub, noise, drop, rigid=None, scale=1.0, jitter=True):
    stamps, pos, quat = [], [], []
    for k, (t, p, R) in enumerate(base):
        if sub != "kitti" and drop and 0 < k < len(base) - 1 and r.random() < drop:
            continue
        p2 = scale * p + np.array([r.gauss(0, noise) for _ in range(3)])
        R2 = R @ rot_axis(r.randrange(3), r.gauss(0, noise))
        if rigid is not None:
            p2, R2 = rigid[0] @ p2 + rigid[1], rigid[0] @ R2
        stamps.append(t + (r.uniform(-1, 1) / 1024 if sub == "tum" and noise and jitter else 0.0))
        pos.append([float(x) for x in p2])
        quat.append(rot_to_quat(R2))
    return {"stamps": stamps, "pos": pos, "quat": quat}


def rand_tf(r, kind):
    R = rot_axis(2, r.uniform(-3, 3)) @ rot_axis(1, r.uniform(-1, 1)) @ rot_axis(0, r.uniform(-1, 1))
    if r.random() < 0.3:
        R = rot_axis(r.randrange(3), r.choice([0.0, math.pi / 2]))
        R = np.round(R)
    t = [r.choice([0.0, 1.0, -2.5, r.uniform(-3, 3)]) for _ in range(3)]
    s = 1.0 if kind == "se3" else r.choice([2.0, 0.5, 4.0, 1.5, r.uniform(0.2, 3.0)])
    return {"quat": rot_to_quat(R), "t": t, "scale": s}


FACTORS = {
    "sub": ["tum", "tum", "kitti", "euroc"], "ntraj": [1, 2, 3], "ref": ["none", "file", "listed"],
    "downsample": [None, 5, 200, 0], "motion_filter": [None, [0.7, 20.0], [0.0, 400.0]], "merge": [False, True],
    "t_offset": [0.0, 0.25, -0.5], "sync": [False, True], "align": [False, True], "correct_scale": [False, True],
    "n_to_align": [-1, 6, 2], "align_origin": [False, True], "tf_side": [None, "left", "right", "both"],
    "tf_form": ["npy", "txt", "json"], "tf_kind": ["se3", "sim3"], "invert": [False, True], "propagate": [False, True],
    "plane": [None, "xy", "xz", "yz"], "save": ["tum", "kitti", "both"], "t_max_diff": [0.01, 0.05, 0.0],
}


def sample_opts(r, bias_valid):
    o = {k: r.choice(v) for k, v in FACTORS.items()}
    if bias_valid:
        if o["sync"] or o["align"] or o["correct_scale"] or o["align_origin"]:
            o["ref"] = r.choice(["file", "file", "listed"])
        if o["align"] and o["align_origin"]:
            o[r.choice(["align", "align_origin"])] = False
        if o["n_to_align"] != -1 and not (o["align"] or o["correct_scale"]):
            o["n_to_align"] = -1
        if o["sub"] == "kitti":
            o["merge"], o["t_offset"] = False, 0.0
            if o["save"] != "kitti":
                o["save"] = "kitti"
        if r.random() < 0.3:
            o["tf_side"] = None
    return o


def pairs_of(o):
    keys = sorted(o)
    return {(a, json.dumps(o[a]), b, json.dumps(o[b])) for i, a in enumerate(keys) for b in keys[i + 1:]}


def covering(r, budget):
    """greedy pairwise covering array over FACTORS"""
    allp = set()
    keys = sorted(FACTORS)
    for i, a in enumerate(keys):
        for b in keys[i + 1:]:
            for va in FACTORS[a]:
                for vb in FACTORS[b]:
                    allp.add((a, json.dumps(va), b, json.dumps(vb)))
    out = []
    while allp and len(out) < budget:
        best, gain = None, -1
        for _ in range(30):
            c = sample_opts(r, r.random() < 0.7)
            g = len(pairs_of(c) & allp)
            if g > gain:
                best, gain = c, g
        if gain <= 0:
            break
        allp -= pairs_of(best)
        out.append(best)
    return out, len(allp)


def tie_kind(r, o, grid=False):
    """merged inputs that share exact timestamps: segment k+1 starts at the last stamp of segment k ('boundary'), recordings
    overlapping on the same clock grid ('overlap'), a duplicate stamp inside one file ('within').  Only where the order among
    equal stamps cannot influence a later step (no association / alignment / propagated transformation), since argsort is not stable."""
    if not o["merge"] or o["sub"] == "kitti" or o["sync"] or o["align"] or o["correct_scale"] or o["align_origin"]:
        return None
    if o["propagate"] and o["tf_side"] in ("right", "both"):       # a propagated transformation depends on the row order
        return None
    if grid and o["plane"]:       # trajRun takes the projected headings as a per-row certificate in evo's row order
        return None
    return r.choice([None, "boundary", "boundary", "overlap", "within"])


def merge_shift(ties, k, n):
    if ties == "boundary":
        return k * (n - 1) / 8
    if ties == "overlap":
        return k * (n // 2) / 8
    return (k * n + k) / 8 + (k / 64 if ties is None else 0.0)


def build_case(r, o):
    sub = o["sub"]
    n = r.choice([2, 3, 4, 7, 8, 9, 15, 16, 17, 1] + [r.randint(8, 30) for _ in range(8)])
    base = gen_base(r, n)
    trajs = []
    ties = o.get("ties_force") or tie_kind(r, o)
    for k in range(o["ntraj"]):
        rigid = (rot_axis(2, r.uniform(-1, 1)) @ rot_axis(0, r.uniform(-0.3, 0.3)), np.array([r.uniform(-2, 2) for _ in range(3)]))
        shift = merge_shift(ties, k, n)
        b = base if (o["merge"] is False or sub == "kitti") else [(t + shift, p, R) for t, p, R in base]
        trajs.append(gen_traj(r, b, sub, 0.02, 0.15 if r.random() < 0.3 else 0.0, rigid, r.choice([1.0, 1.0, 1.3]), jitter=not ties))
    if ties == "within" and trajs and len(trajs[0]["stamps"]) > 3:      # a duplicate stamp inside one file
        j = r.randrange(1, len(trajs[0]["stamps"]) - 1)
        trajs[0]["stamps"][j + 1] = trajs[0]["stamps"][j]
    ref = None
    if o["ref"] != "none":
        ref = gen_traj(r, base, sub, 0.0, 0.1 if r.random() < 0.3 else 0.0)
    tf = None
    if o["tf_side"]:
        tf = {"side": o["tf_side"], "form": o["tf_form"], **rand_tf(r, o["tf_kind"])}
        if o["tf_side"] == "both":
            tf["other"] = rand_tf(r, r.choice(["se3", "sim3"]))
    if o["plane"] and not (o["align"] or o["correct_scale"] or o["align_origin"] or o["tf_side"]) and r.random() < 0.6:
        # positions already in the plane (z = 0 throughout: 2-D SLAM, wheel odometry) with full 3-D orientations, and nothing that
        # moves them out of it before the final projection: the orientations must still be projected
        nd = {"xy": 2, "xz": 1, "yz": 0}[o["plane"]]
        for tr_ in trajs + ([ref] if ref else []):
            for p_ in tr_["pos"]:
                p_[nd] = 0.0
    case = {"ties": ties, "sub": sub, "trajs": trajs, "ref": ref, "ref_listed": o["ref"] == "listed" and ref is not None,
            "downsample": o["downsample"], "motion_filter": o["motion_filter"], "merge": o["merge"], "t_offset": o["t_offset"],
            "sync": o["sync"], "align": o["align"], "correct_scale": o["correct_scale"], "n_to_align": o["n_to_align"],
            "align_origin": o["align_origin"], "t_max_diff": o["t_max_diff"], "tf": tf, "invert": o["invert"],
            "propagate": o["propagate"], "plane": o["plane"], "save_tum": o["save"] in ("tum", "both"),
            "save_kitti": o["save"] in ("kitti", "both")}
    return case


GRID_STEPS = [(3, 4, 0), (0, 3, 4), (4, 0, 3), (5, 0, 0), (0, 5, 0), (0, 0, 5), (1, 2, 2), (2, 1, 2), (2, 2, 1), (4, 3, 0)]
GRID_FACTORS = dict(FACTORS, downsample=[None, 5, 6], motion_filter=[None, [1.25, 400.0], [0.0, 60.0], [2.5, 100.0]],
                    t_max_diff=[0.01, 0.125, 0.0], n_to_align=[-1, 6])


def grid_rot(r):
    R = np.eye(3)
    for _ in range(3):
        R = R @ rot_axis(r.randrange(3), r.randrange(4) * math.pi / 2)
    return np.round(R)


def build_grid_case(r, o):
    """exact-grid stream: stamps multiples of 1/8, dyadic positions along steps of rational length, 90-degree rotations,
    dyadic thresholds (hit exactly), transformations with 90-degree rotations, dyadic translations and power-of-two scales"""
    sub = o["sub"]
    exact_lengths = o["motion_filter"] is not None    # keep every step length rational: no dropped poses, no down-sampling before
    if exact_lengths:
        o = dict(o, downsample=None)
    n = r.randint(6, 11)
    ties = o.get("ties_force") or tie_kind(r, o, grid=True)
    t0 = r.choice([0.0, 100.0])
    p = np.array([r.randint(-8, 8) / 4 for _ in range(3)])
    base = []
    R = grid_rot(r)
    for k in range(n):
        base.append((t0 + k / 8, p.copy(), R.copy()))
        if r.random() < 0.6:
            R = R @ np.round(rot_axis(r.randrange(3), r.choice([1, 2, 3]) * math.pi / 2))
        st = r.choice(GRID_STEPS)
        p = p + np.array([r.choice([-1, 1]) * c for c in st]) / r.choice([4, 8])
    def mk(b, drop, rigid=None, scale=1.0):
        out = {"stamps": [], "pos": [], "quat": []}
        for k, (t, q, Rk) in enumerate(b):
            if sub != "kitti" and drop and 0 < k < len(b) - 1 and r.random() < drop:
                continue
            q2, R2 = scale * q, Rk
            if rigid is not None:
                q2, R2 = rigid[0] @ q2 + rigid[1], rigid[0] @ R2
            out["stamps"].append(t)
            out["pos"].append([float(x) for x in q2])
            out["quat"].append(rot_to_quat(R2))
        return out
    trajs = []
    for k in range(o["ntraj"]):
        rigid = (grid_rot(r), np.array([r.randint(-8, 8) / 2 for _ in range(3)]))
        b = base if (o["merge"] is False or sub == "kitti") else [(t + (merge_shift(ties, k, n) if ties else (k * n + k) / 8), q, Rk)
                                                                     for t, q, Rk in base]
        trajs.append(mk(b, 0.2 if (r.random() < 0.4 and not exact_lengths) else 0.0, rigid, r.choice([1.0, 1.0, 2.0])))
    if ties == "within" and trajs and len(trajs[0]["stamps"]) > 3:
        j = r.randrange(1, len(trajs[0]["stamps"]) - 1)
        trajs[0]["stamps"][j + 1] = trajs[0]["stamps"][j]
    ref = mk(base, 0.15 if (r.random() < 0.3 and not exact_lengths) else 0.0) if o["ref"] != "none" else None
    tf = None
    if o["tf_side"]:
        def gtf(kind):
            return {"quat": rot_to_quat(grid_rot(r)), "t": [r.randint(-6, 6) / 2 for _ in range(3)],
                    "scale": 1.0 if kind == "se3" else r.choice([2.0, 0.5, 4.0])}
        tf = {"side": o["tf_side"], "form": o["tf_form"], **gtf(o["tf_kind"])}
        if o["tf_side"] == "both":
            tf["other"] = gtf(r.choice(["se3", "sim3"]))
    return {"kind": "grid", "ties": ties, "sub": sub, "trajs": trajs, "ref": ref, "ref_listed": o["ref"] == "listed" and ref is not None,
            "downsample": o["downsample"], "motion_filter": o["motion_filter"], "merge": o["merge"], "t_offset": o["t_offset"],
            "sync": o["sync"], "align": o["align"], "correct_scale": o["correct_scale"], "n_to_align": o["n_to_align"],
            "align_origin": o["align_origin"], "t_max_diff": o["t_max_diff"], "tf": tf, "invert": o["invert"],
            "propagate": o["propagate"], "plane": o["plane"], "save_tum": o["save"] in ("tum", "both"),
            "save_kitti": o["save"] in ("kitti", "both")}


def sample_grid_opts(r):
    o = sample_opts(r, True)
    for k in ("downsample", "motion_filter", "t_max_diff", "n_to_align"):
        o[k] = r.choice(GRID_FACTORS[k])
    if o["n_to_align"] != -1 and not (o["align"] or o["correct_scale"]):
        o["n_to_align"] = -1
    return o


def add_drive(r, case, p=0.6, plot_p=0.1):
    """how the CLI is driven (lessons L2, L7-L11): path spellings, adversarial file names, argument order, a file listed twice,
    a primer run in the same process and directory (other options, other content under the same paths), stale outputs that
    must be overwritten (--no_warnings), exponent notation, an explicit zero offset"""
    if r.random() > p:
        return case
    n = len(case["trajs"])
    d = {"spell": r.choice(["plain", "dot", "abs", "updir"]), "spell_ref": r.choice(["plain", "dot", "abs", "updir"]),
         "spell_tf": r.choice(["plain", "dot", "abs", "updir"]),
         "names": r.sample(ADVERSARIAL_STEMS, n) if r.random() < 0.5 else None,
         "order": "reversed" if r.random() < 0.4 else None, "dup": r.random() < 0.2 and n > 0,
         "primer": r.random() < 0.35, "stale": r.random() < 0.3, "num": r.choice(["repr", "exp"]),
         "explicit_zero": r.random() < 0.3}
    # options outside the model: they must not change the exports (bit-identical to the plan replay without them)
    extra = []
    if r.random() < 0.4:
        for opt in r.sample(["--full_check", "--show_full_names", "--verbose", "--debug", "--logfile", "--save_table", "--config"], r.randint(1, 3)):
            extra += {"--logfile": ["--logfile", "run.log"], "--save_table": ["--save_table", "table.csv"],
                      "--config": ["-c", "no_such_config.json"]}.get(opt, [opt])
    if r.random() < plot_p:
        extra += r.choice([["--save_plot", "plots.pdf"], ["--serialize_plot", "plots.bin"], ["--plot"], ["--save_plot", "plots.png", "--plot"]])
        if r.random() < 0.6:
            extra.append("--plot_relative_time")
        if r.random() < 0.7:
            extra += ["--plot_mode", r.choice(["xy", "xz", "yx", "yz", "zx", "zy", "xyz"])]
    stamps = [t for tr in case["trajs"] + ([case["ref"]] if case["ref"] else []) for t in tr["stamps"]]
    if r.random() < 0.04 and case["sub"] != "kitti" and stamps and min(stamps) + min(case["t_offset"], 0.0) > 1.0:
        extra.append("--save_as_bag")       # ROS time cannot hold negative stamps
    if case.get("ties") and case.get("merge"):
        # merged inputs that share timestamps: evo's speed statistics (--save_table, the speed plot) refuse duplicate stamps
        # ("bad timestamps"); these options are outside the property, so they are not combined with such inputs
        drop = {"--save_table": 2, "--save_plot": 2, "--serialize_plot": 2, "--plot": 1, "--full_check": 1}
        out_, i_ = [], 0
        while i_ < len(extra):
            if extra[i_] in drop:
                i_ += drop[extra[i_]]
            else:
                out_.append(extra[i_])
                i_ += 1
        extra = [x for x in out_ if x not in ("--plot_relative_time",)]
        if "--plot_mode" in extra:
            j_ = extra.index("--plot_mode")
            del extra[j_:j_ + 2]
    d["extra"] = extra
    case["drive"] = d
    return case


def drive_of(case):
    return case.get("drive") or {}


def file_order(case):
    ks = list(range(len(case["trajs"])))
    return ks[::-1] if drive_of(case).get("order") == "reversed" else ks


def spelled(name, how, d):
    return {"plain": name, "dot": "./" + name, "abs": os.path.join(d, name), "updir": "data/../" + name}[how or "plain"]


def gen_cases(ctx):
    for i, c in enumerate(gen_cases_(ctx)):
        yield c if i < 18 else add_drive(ctx.rng, c, plot_p=0.03 if ctx.thorough else 0.1)        # the first 18 are the fixed corpus


def gen_cases_(ctx):
    r = ctx.rng
    # corpus: no processing option; F6 (inverted Sim(3) of scale 2); reference untouched by offset
    base = dict(sample_opts(r, True), sub="tum", ntraj=1, ref="none", downsample=None, motion_filter=None, merge=False, t_offset=0.0,
                sync=False, align=False, correct_scale=False, n_to_align=-1, align_origin=False, tf_side=None, plane=None, save="both")
    # F13 (fixed by 20269c0), first corpus case: both transformation flags: one pose at the origin heading 90 deg about z, left file = translation (1,0,0), right file = identity
    c = build_case(r, dict(base, tf_side="both", tf_form="json", tf_kind="se3", save="tum"))
    c["trajs"] = [{"stamps": [0.0, 0.125], "pos": [[0.0, 0.0, 0.0], [0.0, 1.0, 0.0]],
                   "quat": [[math.sqrt(0.5), 0.0, 0.0, math.sqrt(0.5)]] * 2}]
    c["tf"] = {"side": "both", "form": "json", "quat": [1.0, 0.0, 0.0, 0.0], "t": [1.0, 0.0, 0.0], "scale": 1.0,
               "other": {"quat": [1.0, 0.0, 0.0, 0.0], "t": [0.0, 0.0, 0.0], "scale": 1.0}}
    yield c
    yield build_case(r, base)
    yield build_case(r, dict(base, sub="euroc"))
    yield build_case(r, dict(base, sub="kitti", save="kitti"))
    c = build_case(r, dict(base, tf_side="left", tf_form="json", tf_kind="sim3", invert=True))
    c["tf"].update({"quat": [1.0, 0.0, 0.0, 0.0], "t": [0.0, 0.0, 0.0], "scale": 2.0})
    yield c
    yield build_case(r, dict(base, ref="file", t_offset=0.25, sync=True, t_max_diff=0.3))
    # plot options together with exports (seeded C15-6 class): plotting happens before exporting and must not touch the trajectories
    for k, extra in enumerate([["--save_plot", "plots.pdf", "--plot_relative_time"], ["--serialize_plot", "plots.bin", "--plot_relative_time", "--plot_mode", "xy"],
                               ["--plot", "--plot_relative_time", "--full_check"]]):
        c = build_case(r, dict(base, sub=["tum", "euroc", "tum"][k], ntraj=[1, 2, 2][k], ref=["file", "none", "listed"][k], save="tum"))
        c["drive"] = {"extra": extra}
        yield c
    # merged inputs sharing exact timestamps (segment 2 starts where segment 1 ends; overlapping recordings; duplicate inside a file)
    for k, kind in enumerate(["boundary", "overlap", "within", "boundary"]):
        o = dict(base, sub=["tum", "euroc", "tum", "euroc"][k], ntraj=[2, 3, 2, 2][k], merge=True, ties_force=kind, save=["tum", "both", "tum", "kitti"][k])
        yield build_case(r, o)
        yield build_grid_case(r, dict(o, tf_form="npy", tf_kind="se3", t_max_diff=0.01))
    c = build_case(r, dict(base, ref="listed", downsample=5, plane="xy"))      # the only file is the reference
    c["trajs"] = []
    yield c
    cov, left = covering(r, 70 if not ctx.thorough else 200)
    ctx.notes["pairwise_uncovered"] = left
    for o in cov:
        yield build_case(r, o)
    for _ in range(90 if not ctx.thorough else 2300):
        yield build_case(r, sample_opts(r, r.random() < 0.9))
    for _ in range(70 if not ctx.thorough else 800):
        yield build_grid_case(r, sample_grid_opts(r))


# ----------------------------------------------------------------------------- files
def fmt(x):
    return repr(float(x))


CUR = [None]      # the case being driven: adversarial file names are part of the case


def use(case):
    CUR[0] = case


ADVERSARIAL_STEMS = ["traj0", "a b", "1e3", "b.tum", "tr\u00e1j", "data.kitti", "x", "merged_trajectory", "ref erence", "T.RAJ1"]


def traj_name(sub, k):
    names = ((CUR[0] or {}).get("drive") or {}).get("names")
    if names:
        return names[k] + (".csv" if sub == "euroc" else ".txt")
    return {"tum": f"traj{k}.txt", "kitti": f"poses{k}.txt", "euroc": f"state{k}.csv"}[sub]


def ref_name(sub):
    return {"tum": "reference.txt", "kitti": "refposes.txt", "euroc": "refstate.csv"}[sub]


def write_traj(path, sub, tr):
    lines = []
    for t, p, q in zip(tr["stamps"], tr["pos"], tr["quat"]):
        if sub == "tum":
            lines.append(" ".join([fmt(t)] + [fmt(x) for x in p] + [fmt(q[1]), fmt(q[2]), fmt(q[3]), fmt(q[0])]))
        elif sub == "kitti":
            R = quat_to_rot(*q)
            lines.append(" ".join(fmt(v) for row, tt in zip(R, p) for v in list(row) + [tt]))
        else:
            ns = int(round(t * 8)) * 125000000
            lines.append(",".join([str(ns)] + [fmt(x) for x in p] + [fmt(x) for x in q] + ["0.0"] * 9))
    head = "#timestamp,p_x,p_y,p_z,q_w,q_x,q_y,q_z,v_x,v_y,v_z,bw_x,bw_y,bw_z,ba_x,ba_y,ba_z\n" if sub == "euroc" else ""
    with open(path, "w") as f:
        f.write(head + "\n".join(lines) + "\n")


def tf_matrix(tf):
    M = np.eye(4)
    M[:3, :3] = tf["scale"] * quat_to_rot(*tf["quat"])
    M[:3, 3] = tf["t"]
    return M


def write_tf(path, tf, form):
    if form == "json":
        q = tf["quat"]
        d = {"x": tf["t"][0], "y": tf["t"][1], "z": tf["t"][2], "qw": q[0], "qx": q[1], "qy": q[2], "qz": q[3]}
        if tf["scale"] != 1.0:
            d["scale"] = tf["scale"]
        with open(path, "w") as f:
            json.dump(d, f)
    elif form == "npy":
        with open(path, "wb") as f:
            np.save(f, tf_matrix(tf))
    else:
        np.savetxt(path, tf_matrix(tf))


STALE = b"STALE OUTPUT - must be overwritten\n"


def setup_dir(case, d=None):
    d = d or tempfile.mkdtemp(prefix="evo_c15_")
    os.makedirs(os.path.join(d, "data"), exist_ok=True)
    sub = case["sub"]
    if drive_of(case).get("stale"):
        stems = [os.path.splitext(traj_name(sub, k))[0] for k in range(len(case["trajs"]))] + ["merged_trajectory", os.path.splitext(ref_name(sub))[0]]
        for stem in stems:
            for ext in (".tum", ".kitti"):
                with open(os.path.join(d, stem + ext), "wb") as f:
                    f.write(STALE)
    for k, tr in enumerate(case["trajs"]):
        write_traj(os.path.join(d, traj_name(sub, k)), sub, tr)
    if case["ref"] is not None:
        write_traj(os.path.join(d, ref_name(sub)), sub, case["ref"])
    tf = case["tf"]
    if tf:
        ext = {"json": "json", "npy": "npy", "txt": "txt"}[tf["form"]]
        if tf["side"] in ("left", "both"):
            write_tf(os.path.join(d, "tf_left." + ext), tf, tf["form"])
        if tf["side"] == "right":
            write_tf(os.path.join(d, "tf_right." + ext), tf, tf["form"])
        if tf["side"] == "both":
            write_tf(os.path.join(d, "tf_right." + ext), tf["other"], tf["form"])
    return d


def argv_of(case, d="."):
    sub = case["sub"]
    dr = drive_of(case)
    num = (lambda x: "%.17e" % float(x)) if dr.get("num") == "exp" else fmt
    files = [spelled(traj_name(sub, k), dr.get("spell"), d) for k in file_order(case)]
    if dr.get("dup") and files:
        files.append(files[0])
    a = [sub] + files
    refspell = spelled(ref_name(sub), dr.get("spell_ref"), d)      # the reference is recognised among the inputs by its spelling
    if case["ref_listed"]:
        a.append(refspell)
    if case["ref"] is not None:
        a += ["--ref", refspell]
    if case["downsample"] is not None:
        a += ["--downsample", str(case["downsample"])]
    if case["motion_filter"] is not None:
        a += ["--motion_filter", num(case["motion_filter"][0]), num(case["motion_filter"][1])]
    if case["merge"]:
        a.append("--merge")
    if case["t_offset"] != 0.0:
        a += [f"--t_offset={num(case['t_offset'])}"]
    elif dr.get("explicit_zero"):
        a += ["--t_offset=0.0"]
    for k, flag in (("sync", "--sync"), ("align", "--align"), ("correct_scale", "--correct_scale"), ("align_origin", "--align_origin"),
                    ("invert", "--invert_transform"), ("propagate", "--propagate_transform"), ("save_tum", "--save_as_tum"),
                    ("save_kitti", "--save_as_kitti")):
        if case[k]:
            a.append(flag)
    if case["n_to_align"] != -1:
        a += ["--n_to_align", str(case["n_to_align"])]
    a += ["--t_max_diff", num(case["t_max_diff"])]
    tf = case["tf"]
    if tf:
        if tf["side"] in ("left", "both"):
            a += ["--transform_left", spelled("tf_left." + tf["form"], dr.get("spell_tf"), d)]
        if tf["side"] in ("right", "both"):
            a += ["--transform_right", spelled("tf_right." + tf["form"], dr.get("spell_tf"), d)]
    if case["plane"]:
        a += ["--project_to_plane", case["plane"]]
    if dr.get("stale"):
        a.append("--no_warnings")
    extra = list(dr.get("extra") or [])
    if "--verbose" in extra or "--debug" in extra:
        return a + extra            # output is captured by the harness
    return a + extra + ["--silent"]


def outputs(d):
    out = {}
    for f in sorted(os.listdir(d)):
        if f.endswith(".tum") or f.endswith(".kitti"):
            with open(os.path.join(d, f), "rb") as h:
                data = h.read()
            if data != STALE:
                out[f] = data
    return out


def _no_prompt(*a, **k):
    raise EOFError("evo asked for confirmation: " + (str(a[0]) if a else ""))


@contextlib.contextmanager
def in_dir(d):
    import builtins
    old = os.getcwd()
    old_input = builtins.input
    builtins.input = _no_prompt          # a prompt must never block the check: it becomes an exception of the run
    os.chdir(d)
    try:
        with contextlib.redirect_stdout(io.StringIO()), contextlib.redirect_stderr(io.StringIO()):
            yield
    finally:
        os.chdir(old)
        builtins.input = old_input


def primer(case, d):
    """L2: an earlier run() in the same process and directory — same paths with other content, other options — must leave no trace"""
    import copy
    import logging
    from evo import main_traj, main_traj_parser
    pc = copy.deepcopy(case)
    for t in pc["trajs"] + ([pc["ref"]] if pc["ref"] else []):
        t["pos"] = [[x + 1.0 for x in p] for p in t["pos"]][::-1]
        t["quat"] = t["quat"][::-1]
    pc.update(downsample=3, motion_filter=None, merge=False, t_offset=1.5 if pc["sub"] != "kitti" else 0.0, sync=False, align=False,
              correct_scale=False, align_origin=False, n_to_align=-1, plane="xz", invert=not case["invert"], propagate=False,
              save_tum=pc["sub"] != "kitti", save_kitti=True)
    pc["drive"] = dict(drive_of(case), primer=False, stale=False, dup=False, extra=[])
    use(pc)
    setup_dir(pc, d)
    with in_dir(d):
        try:
            main_traj.run(main_traj_parser.parser().parse_args(argv_of(pc, d)))
        except (SystemExit, Exception):  # noqa: BLE001
            pass
        finally:
            logging.disable(logging.NOTSET)
    for f in os.listdir(d):
        if f.endswith(".tum") or f.endswith(".kitti"):
            os.remove(os.path.join(d, f))
    use(case)
    setup_dir(case, d)


# ----------------------------------------------------------------------------- evo_traj itself
def run_evo(case, d):
    import logging
    from evo import main_traj, main_traj_parser
    res = {"argv": argv_of(case, d)}
    if drive_of(case).get("primer"):
        primer(case, d)
    with in_dir(d):
        try:
            args = main_traj_parser.parser().parse_args(res["argv"])
            main_traj.run(args)
            res["status"] = "ok"
        except SystemExit as e:
            res["status"] = f"exit{e.code}"
        except Exception as e:  # noqa: BLE001
            res["status"] = "raised " + type(e).__name__
            res["message"] = str(e)[:200]
        finally:
            logging.disable(logging.NOTSET)
            if any(x in res["argv"] for x in ("--plot", "--save_plot", "--serialize_plot")):
                import matplotlib.pyplot as plt
                plt.close("all")
    res["files"] = outputs(d)
    return res


# ----------------------------------------------------------------------------- the model's plan, interpreted with evo's core API
RANK = {"downsample": 0, "motion_filter": 1, "merge": 2, "t_offset": 3, "sync": 4, "align": 5, "align_origin": 6, "transform:left": 7,
        "transform:right": 8, "project": 9, "export_tum": 10, "export_kitti": 11}


def rank_of(step):
    f = step.split(":")
    return RANK[f[0] + ":" + f[1]] if f[0] == "transform" else RANK[f[0]]


def fr(s):
    return float(core.parse_rat(s))


def interpret(case, d, plan, refplan, rec=None):
    """stage by stage (rank order); within a stage the trajectories first, then the reference"""
    from evo.core import trajectory, sync, lie_algebra as lie
    from evo.tools import file_interface as fi
    sub = case["sub"]
    reader = {"tum": fi.read_tum_trajectory_file, "kitti": fi.read_kitti_poses_file, "euroc": fi.read_euroc_csv_trajectory}[sub]
    out_dir = os.path.join(d, "interp")
    os.makedirs(out_dir)
    res = {}
    with in_dir(d):
        try:
            trajs = {traj_name(sub, k): reader(traj_name(sub, k)) for k in file_order(case)}
            ref = reader(ref_name(sub)) if case["ref"] is not None else None
            ref_tmp = {name: ref for name in trajs}
            # stages in rank order; association / alignment / origin alignment (ranks 4-6) form one stage that run()
            # executes trajectory by trajectory (only observable through which exception comes first)
            stage = lambda s: 4 if rank_of(s) in (4, 5, 6) else rank_of(s)  # noqa: E731

            if rec is not None:
                rec["inputs"] = {name: (None if sub == "kitti" else [float(x) for x in t.timestamps], [p.copy() for p in t.poses_se3])
                                 for name, t in trajs.items()}
                rec["ref"] = None if ref is None else (None if sub == "kitti" else [float(x) for x in ref.timestamps],
                                                       [p.copy() for p in ref.poses_se3])
                rec["cert"] = {}

            def cert(who, name):
                return rec["cert"].setdefault("ref" if who == "ref" else name, {})

            def apply(s, who, name):
                nonlocal trajs
                f = s.split(":")
                op = f[0]
                t = ref if who == "ref" else trajs[name]
                if rec is not None and op == "motion_filter":
                    P = [p for p in t.poses_se3]
                    cert(who, name)["mf"] = (
                        [float(np.linalg.norm(a[:3, 3] - b[:3, 3])) for a, b in zip(P, P[1:])],
                        [[float(lie.so3_log_angle(lie.relative_so3(a[:3, :3], b[:3, :3]))) for b in P] for a in P],
                        float(np.deg2rad(fr(f[2]))))
                if rec is not None and op == "align":
                    r_a, t_a, s_a = t.align(ref_tmp[name], correct_scale=f[1] == "1", correct_only_scale=f[2] == "1", n=int(f[3]))
                    cert(who, name)["ume"] = (np.array(r_a, dtype=float), np.array(t_a, dtype=float), float(s_a))
                    return
                if rec is not None and op == "project":
                    t.project(trajectory.Plane(f[1]))
                    sel = {"xy": ((0, 0), (1, 0)), "xz": ((0, 0), (0, 2)), "yz": ((1, 1), (2, 1))}[f[1]]
                    cert(who, name)["dirs"] = [(float(p[sel[0]]), float(p[sel[1]])) for p in t.poses_se3]
                    return
                if op == "downsample":
                    t.downsample(int(f[1]))
                elif op == "motion_filter":
                    t.motion_filter(fr(f[1]), fr(f[2]), True)
                elif op == "t_offset":
                    t.timestamps += fr(f[1])
                elif op == "sync":
                    ref_tmp[name], trajs[name] = sync.associate_trajectories(ref, t, max_diff=fr(f[1]))
                elif op == "align":
                    t.align(ref_tmp[name], correct_scale=f[1] == "1", correct_only_scale=f[2] == "1", n=int(f[3]))
                elif op == "align_origin":
                    t.align_origin(ref_tmp[name])
                elif op == "transform":
                    M = fi.load_transform(f"tf_{f[1]}." + case["tf"]["form"])
                    if f[2] == "1":
                        M = lie.se3_inverse(M) if lie.is_se3(M) else lie.sim3_inverse(M)
                    t.transform(M, right_mul=f[3] == "1", propagate=f[4] == "1")
                elif op == "project":
                    t.project(trajectory.Plane(f[1]))
                elif op in ("export_tum", "export_kitti"):
                    stem = os.path.splitext(ref_name(sub) if who == "ref" else name)[0]
                    if op == "export_tum":
                        fi.write_tum_trajectory_file(os.path.join("interp", stem + ".tum"), t)
                    else:
                        fi.write_kitti_poses_file(os.path.join("interp", stem + ".kitti"), t)

            for st in sorted({stage(s) for s in plan + refplan}):
                tsteps = [s for s in plan if stage(s) == st]
                if st == 4:
                    for name in list(trajs):
                        for s in tsteps:
                            apply(s, "traj", name)
                else:
                    for s in tsteps:
                        if s == "merge":
                            trajs = {"merged_trajectory": trajectory.merge(list(trajs.values()))}
                            ref_tmp = {"merged_trajectory": ref}
                        else:
                            for name in list(trajs):
                                apply(s, "traj", name)
                for s in refplan:
                    if stage(s) == st:
                        apply(s, "ref", None)
            res["status"] = "ok"
        except SystemExit as e:
            res["status"] = f"exit{e.code}"
        except Exception as e:  # noqa: BLE001
            res["status"] = "raised " + type(e).__name__
    res["files"] = outputs(out_dir)
    return res


# ----------------------------------------------------------------------------- model lines
def flags_of(case):
    tf = case["tf"]
    b = lambda x: "1" if x else "0"  # noqa: E731
    no_traj = len(case["trajs"]) == 0
    return " ".join([case["sub"], b(case["ref"] is not None), b(no_traj), b(case["downsample"]), b(case["motion_filter"] is not None),
                     b(case["merge"]), b(case["t_offset"] != 0.0), b(case["n_to_align"] != -1), b(case["sync"]), b(case["align"]),
                     b(case["correct_scale"]), b(case["align_origin"]), b(tf and tf["side"] in ("left", "both")),
                     b(tf and tf["side"] in ("right", "both")), b(case["invert"]), b(case["propagate"]), case["plane"] or "-",
                     b(case["save_tum"]), b(case["save_kitti"])])


def pose12(M):
    return " ".join(rat(M[r, c]) for r in range(3) for c in range(4))


def model_lines(case, aux):
    mf = case["motion_filter"] or [0.0, 0.0]
    lines = [f"C15 plan {flags_of(case)} {case['downsample'] or 0} {rat(mf[0])} {rat(mf[1])} {rat(case['t_offset'])} "
             f"{rat(case['t_max_diff'])} {case['n_to_align']}"]
    if aux.get("M") is not None:
        M = aux["M"]
        lines += [f"C15 isse3 {pose12(M)}", f"C15 invert {rat(aux['s'])} {pose12(M)}",
                  f"C15 transform {1 if aux['rmul'] else 0} {1 if case['propagate'] else 0} {rat(aux['s'])} {pose12(M)} "
                  f"{len(aux['poses'])} " + " ".join(pose12(p) for p in aux['poses'])]
    return lines


def traj_tokens(stamps, poses):
    st = stamps or []
    return f"{1 if stamps is not None else 0} {core.ratlist(st)} {len(poses)} " + " ".join(pose12(p) for p in poses)


def cert_tokens(c):
    lens, ang, ar = c.get("mf", ([], [], 0.0))
    R, t, sc = c.get("ume", (np.eye(3), np.zeros(3), 1.0))
    dirs = c.get("dirs", [])
    return " ".join([core.ratlist(lens), str(len(ang))] + [rat(x) for row in ang for x in row] + [rat(ar)] +
                    [rat(R[i, j]) for i in range(3) for j in range(3)] + [rat(x) for x in t] + [rat(sc)] +
                    [core.ratlist([x for cs in dirs for x in cs])])


def run_line(case, d, rec):
    """`C15 run …`: the CLI run on rational inputs, external numerics from evo's run (rec)"""
    from evo.core import lie_algebra as lie
    from evo.tools import file_interface as fi
    mf = case["motion_filter"] or [0.0, 0.0]
    tf = case["tf"]
    tl = tr_ = "-"
    scl = scr = 1.0
    if tf:
        with in_dir(d):
            if tf["side"] in ("left", "both"):
                L = fi.load_transform("tf_left." + tf["form"])
                tl, scl = "+ " + pose12(L), float(lie.sim3_scale(L))
            if tf["side"] in ("right", "both"):
                Rm = fi.load_transform("tf_right." + tf["form"])
                tr_, scr = "+ " + pose12(Rm), float(lie.sim3_scale(Rm))
    names = list(rec["inputs"])
    parts = [f"C15 run {flags_of(case)} {case['downsample'] or 0} {rat(mf[0])} {rat(mf[1])} {rat(case['t_offset'])} "
             f"{rat(case['t_max_diff'])} {case['n_to_align']}", rat(scl), rat(scr), tl, tr_, str(len(names))]
    parts += [traj_tokens(*rec["inputs"][n]) for n in names]
    parts += [cert_tokens(rec["cert"].get(n, {})) for n in names]
    parts.append(cert_tokens(rec["cert"].get("merged_trajectory", {})))
    if rec["ref"] is not None:
        parts += ["1", traj_tokens(*rec["ref"]), cert_tokens(rec["cert"].get("ref", {}))]
    else:
        parts.append("0")
    return " ".join(parts)


def parse_run(out):
    """'OK n traj… hasRef [traj]' -> (list of (stamps|None, poses 3x4 Fractions), ref)"""
    tok = out.split()
    pos = [1]

    def nxt():
        pos[0] += 1
        return tok[pos[0] - 1]

    def traj():
        has = nxt() == "1"
        k = int(nxt())
        st = [core.parse_rat(nxt()) for _ in range(k)]
        m = int(nxt())
        poses = [[core.parse_rat(nxt()) for _ in range(12)] for _ in range(m)]
        return (st if has else None, poses)
    n = int(nxt())
    ts = [traj() for _ in range(n)]
    ref = traj() if nxt() == "1" else None
    return ts, ref


def judge_run(ctx, case, evo, interp, out):
    """evo_traj's exported files against trajRun (exact-grid stream): kept poses exactly (count and stamps), numbers to 1e-9"""
    ctx.count("branch", "trajRun:" + out.split()[0] + (":" + out.split()[1] if not out.startswith("OK") else ""))
    if evo["status"] == "raised GeometryException":       # Umeyama is a parameter of the model; run() works trajectory by
        ctx.count("branch", "trajRun:not-compared-umeyama-failed")   # trajectory, so this error may precede a model error
        return
    if out.startswith("ERR"):
        want = {"sync": ["raised SyncException"], "select": ["raised FilterException", "raised TrajectoryException"],
                "align": ["raised TrajectoryException"], "no_stamps": [], "no_ref": [], "no_transform": []}[out.split()[1]]
        if evo["status"] not in want:
            ctx.mismatch(case, "trajRun stops with an error, evo_traj does not stop that way", evo["status"], out)
        return
    if not out.startswith("OK"):
        ctx.mismatch(case, "trajRun gave no result", evo["status"], out[:80])
        return
    if evo["status"] != "ok":
        ctx.mismatch(case, "trajRun succeeds, evo_traj does not", evo["status"] + " " + evo.get("message", ""), out[:80])
        return
    ts, ref = parse_run(out)
    sub = case["sub"]
    names = ["merged_trajectory"] if case["merge"] else [os.path.splitext(traj_name(sub, k))[0] for k in file_order(case)]
    model = dict(zip(names, ts))
    if ref is not None:
        model[os.path.splitext(ref_name(sub))[0]] = ref
    for fname, data in evo["files"].items():
        stem = os.path.splitext(fname)[0]
        if stem not in model:
            ctx.mismatch(case, f"{fname} exported, trajRun has no such trajectory", sorted(evo["files"]), sorted(model))
            return
        mst, mposes = model[stem]
        got = parse_export(fname, data)
        if len(got["p"]) != len(mposes):
            ctx.mismatch(case, f"{fname}: number of exported poses differs from trajRun", len(got["p"]), len(mposes))
            return
        if case["merge"] and mst is not None and len(mst) == len(mposes):
            og = tie_order(got["t"] if got["t"] is not None else sorted(float(x) for x in mst), got["p"])
            om = tie_order([float(x) for x in mst], [[float(mp[3]), float(mp[7]), float(mp[11])] for mp in mposes])
            got = {k: ([v[i] for i in og] if v is not None else None) for k, v in got.items()}
            mst, mposes = [mst[i] for i in om], [mposes[i] for i in om]
        if got["t"] is not None and [frac(x) for x in got["t"]] != mst:
            ctx.mismatch(case, f"{fname}: exported timestamps differ from trajRun (kept / paired poses)", got["t"][:6],
                         [float(x) for x in (mst or [])[:6]])
            return
        for k, mp in enumerate(mposes):
            mp = [float(x) for x in mp]
            P = [mp[3], mp[7], mp[11]]
            Rm = np.array([mp[0:3], mp[4:7], mp[8:11]])
            tol = 1e-9 * (1 + max(abs(x) for x in P))
            if max(abs(a - b) for a, b in zip(got["p"][k], P)) > tol:
                ctx.mismatch(case, f"{fname}: position {k} differs from trajRun", got["p"][k], P)
                return
            Rg = np.array(got["R"][k]) if "R" in got else quat_to_rot(got["q"][k][3], *got["q"][k][:3])
            if np.abs(Rg - Rm).max() > 1e-9:
                ctx.mismatch(case, f"{fname}: orientation {k} differs from trajRun", Rg.tolist(), Rm.tolist())
                return


def aux_of(case, d):
    """evo's own lie / transform functions on the loaded matrix (correspondence of invertTransform / applyTransform)"""
    tf = case["tf"]
    if not tf:
        return {}
    from evo.core import lie_algebra as lie
    from evo.core.trajectory import PosePath3D
    from evo.tools import file_interface as fi
    try:
        with in_dir(d):
            M = fi.load_transform(("tf_left." if tf["side"] in ("left", "both") else "tf_right.") + tf["form"])
    except Exception as e:  # noqa: BLE001
        return {"load_error": type(e).__name__}
    s = float(lie.sim3_scale(M))
    poses = []
    first = case["trajs"][0] if case["trajs"] else {"pos": [], "quat": []}
    for p, q in list(zip(first["pos"], first["quat"]))[:4]:
        T = np.eye(4)
        T[:3, :3] = quat_to_rot(*q)
        T[:3, 3] = p
        poses.append(T)
    rmul = tf["side"] == "right"
    path = PosePath3D(poses_se3=[p.copy() for p in poses])
    path.transform(M, right_mul=rmul, propagate=case["propagate"])
    return {"M": M, "s": s, "is_se3": bool(lie.is_se3(M)), "poses": poses, "rmul": rmul,
            "inv": lie.se3_inverse(M) if lie.is_se3(M) else lie.sim3_inverse(M), "transformed": path.poses_se3}


# ----------------------------------------------------------------------------- oracle: independent numpy pipeline
class Skip(Exception):
    pass


EXACT = [False]     # exact-grid case: float operations are exact, a value within 1e-9 of a threshold *is* the threshold


class Expect(Exception):
    """the documented pipeline ends in an error of evo's class `cls`; `strict`: evo must raise it (otherwise undecided)"""
    def __init__(self, cls, why, strict=True):
        super().__init__(why)
        self.cls, self.why, self.strict = cls, why, strict


def o_load(tr, sub):
    n = len(tr["pos"])
    T = []
    for p, q in zip(tr["pos"], tr["quat"]):
        M = np.eye(4)
        M[:3, :3] = quat_to_rot(*q)
        M[:3, 3] = p
        T.append(M)
    if sub == "kitti":
        t = None
    elif sub == "euroc":
        t = np.array([int(round(x * 8)) * 125000000 / 1e9 for x in tr["stamps"]])
    else:
        t = np.array(tr["stamps"], dtype=float)
    return {"t": t, "T": T, "n": n}


def o_select(tr, ids):
    return {"t": None if tr["t"] is None else tr["t"][ids], "T": [tr["T"][i] for i in ids], "n": len(ids)}


def o_downsample(tr, n):
    if tr["n"] <= n:
        return tr
    return o_select(tr, [int(i) for i in np.linspace(0, tr["n"] - 1, n, dtype=int)])


def o_angle(Ra, Rb):
    c = (np.trace(Ra.T @ Rb) - 1) / 2
    return math.acos(max(-1.0, min(1.0, c)))


def o_motion_filter(tr, dist, ang_deg):
    if tr["n"] < 2:
        raise Expect("FilterException", "motion filter on fewer than 2 poses")
    ang = math.radians(ang_deg)
    P = np.array([M[:3, 3] for M in tr["T"]])
    acc = np.concatenate([[0.0], np.cumsum(np.linalg.norm(P[1:] - P[:-1], axis=1))])
    ids, prev_a, prev_d = [0], 0, 0.0
    for i in range(1, tr["n"]):
        dd = acc[i] - prev_d
        if abs(dd - dist) < 1e-9 and not EXACT[0]:
            raise Skip("borderline distance")
        if dd >= dist - (1e-9 if EXACT[0] else 0.0):
            ids.append(i); prev_a, prev_d = i, acc[i]
            continue
        a = o_angle(tr["T"][prev_a][:3, :3], tr["T"][i][:3, :3])
        if abs(a - ang) < 1e-9:
            raise Skip("borderline angle")
        if a >= ang:
            ids.append(i); prev_a, prev_d = i, acc[i]
    return o_select(tr, ids)


def o_merge(trs):
    t = np.concatenate([x["t"] for x in trs])       # every input row, ordered by time (ties: any order, compared as multisets)
    T = [M for x in trs for M in x["T"]]
    order = np.argsort(t, kind="stable")
    return {"t": t[order], "T": [T[i] for i in order], "n": len(T)}


def o_associate(ref, tr, md):
    """nearest counterpart within md; the shorter list drives; a contested counterpart goes to the closest"""
    a, b = ref["t"], tr["t"]
    swap = not (len(b) > len(a))            # evo: search in the longer list; first longer-or-equal -> drive with second
    short, long_ = (b, a) if swap else (a, b)
    best = {}
    for i, t in enumerate(short):
        diffs = np.abs(long_ - t)
        j = int(np.argmin(diffs))
        srt = np.sort(diffs)
        if not EXACT[0] and (abs(diffs[j] - md) < 1e-9 or (len(srt) > 1 and 0 < srt[1] - srt[0] < 1e-9)):
            raise Skip("borderline association")
        if diffs[j] <= md + (1e-9 if EXACT[0] else 0.0) and (j not in best or diffs[j] < best[j][1]):
            best[j] = (i, diffs[j])
    pairs = sorted((i, j) for j, (i, _) in best.items())
    if not pairs:
        raise Expect("SyncException", "no matching stamps")
    si, lj = [p[0] for p in pairs], [p[1] for p in pairs]
    ri, ti = (lj, si) if swap else (si, lj)
    return o_select(ref, ri), o_select(tr, ti)


def o_umeyama(x, y, with_scale):
    n = x.shape[1]
    mx, my = x.mean(axis=1), y.mean(axis=1)
    xc, yc = x - mx[:, None], y - my[:, None]
    sx = (xc ** 2).sum() / n
    cov = yc @ xc.T / n
    u, dvals, vt = np.linalg.svd(cov)
    if min(dvals[:2]) < 1e-9:
        raise Expect("GeometryException", "degenerate alignment", strict=False)
    S = np.eye(3)
    if np.linalg.det(u) * np.linalg.det(vt) < 0:
        S[2, 2] = -1
    r = u @ S @ vt
    c = float(np.trace(np.diag(dvals) @ S) / sx) if with_scale else 1.0
    return r, my - c * r @ mx, c


def o_left(tr, M):
    return dict(tr, T=[M @ X for X in tr["T"]])


def o_normalise(tr):
    out = []
    for X in tr["T"]:
        s = np.cbrt(np.linalg.det(X[:3, :3]))
        Y = X.copy()
        Y[:3, :3] = X[:3, :3] / s
        out.append(Y)
    return dict(tr, T=out)


def o_align(tr, ref, correct_scale, only_scale, n):
    P = np.array([M[:3, 3] for M in tr["T"]]).T
    Q = np.array([M[:3, 3] for M in ref["T"]]).T
    if n != -1:
        P, Q = P[:, :n], Q[:, :n]
    if P.shape != Q.shape:
        raise Expect("GeometryException", "alignment of different lengths")
    if P.shape[1] < 3:
        raise Expect("GeometryException", "fewer than 3 poses to align", strict=False)
    r, t, c = o_umeyama(P, Q, correct_scale or only_scale)
    T = []
    for X in tr["T"]:
        Y = X.copy()
        if correct_scale or only_scale:
            Y[:3, 3] = c * Y[:3, 3]
        T.append(Y)
    tr = dict(tr, T=T)
    if not only_scale:
        M = np.eye(4)
        M[:3, :3], M[:3, 3] = r, t
        tr = o_left(tr, M)
    return tr


def o_transform(tr, M, right, propagate, rigid):
    if not right:
        new = [M @ X for X in tr["T"]]
    elif not propagate:
        new = [X @ M for X in tr["T"]]
    else:
        new = [tr["T"][0]]
        for a, b in zip(tr["T"], tr["T"][1:]):
            new.append(new[-1] @ (np.linalg.inv(a) @ b @ M))
    tr = dict(tr, T=new)
    return tr if rigid else o_normalise(tr)


def oracle_pipeline(case):
    """{file stem: (stamps or None, positions)} | ('die', reason)"""
    sub = case["sub"]
    EXACT[0] = case.get("kind") == "grid"
    both_alts = []
    trajs = {os.path.splitext(traj_name(sub, k))[0]: o_load(case["trajs"][k], sub) for k in file_order(case)}
    ref = o_load(case["ref"], sub) if case["ref"] is not None else None
    if case["align"] and case["align_origin"]:
        return ("die", "parser")
    if case["downsample"]:
        trajs = {k: o_downsample(t, case["downsample"]) for k, t in trajs.items()}
        ref = o_downsample(ref, case["downsample"]) if ref else None
    if case["motion_filter"] is not None:
        trajs = {k: o_motion_filter(t, *case["motion_filter"]) for k, t in trajs.items()}
        ref = o_motion_filter(ref, *case["motion_filter"]) if ref else None
    if case["merge"]:
        if sub == "kitti":
            return ("die", "merge-kitti")
        trajs = {"merged_trajectory": o_merge(list(trajs.values()))}
    if case["t_offset"] != 0.0:
        if sub == "kitti":
            return ("die", "offset-without-stamps")
        trajs = {k: dict(t, t=t["t"] + case["t_offset"]) for k, t in trajs.items()}
    wants_ref = case["sync"] or case["align"] or case["correct_scale"] or case["align_origin"]
    if case["n_to_align"] != -1 and not (case["align"] or case["correct_scale"]):
        return ("die", "n_to_align")
    if wants_ref and ref is None:
        return ("die", "no-reference")
    if wants_ref:
        for k in list(trajs):
            r_k = ref
            if sub != "kitti":
                r_k, trajs[k] = o_associate(ref, trajs[k], case["t_max_diff"])
            if case["align"] or case["correct_scale"]:
                trajs[k] = o_align(trajs[k], r_k, case["correct_scale"], case["correct_scale"] and not case["align"],
                                   case["n_to_align"])
            if case["align_origin"]:
                trajs[k] = o_left(trajs[k], r_k["T"][0] @ np.linalg.inv(trajs[k]["T"][0]))
    tf = case["tf"]
    if tf:
        # documented (help texts; fix 20269c0): the file of --transform_left is applied left-multiplicatively, the file of
        # --transform_right right-multiplicatively, the left one first (L.P.R); --invert_transform inverts both
        inv = (lambda X: np.linalg.inv(X)) if case["invert"] else (lambda X: X)
        if tf["side"] in ("left", "both"):
            trajs = {k: o_transform(t, inv(tf_matrix(tf)), False, False, tf["scale"] == 1.0) for k, t in trajs.items()}
        if tf["side"] in ("right", "both"):
            other = tf["other"] if tf["side"] == "both" else tf
            trajs = {k: o_transform(t, inv(tf_matrix(other)), True, case["propagate"], other["scale"] == 1.0)
                     for k, t in trajs.items()}
    if case["save_tum"] and sub == "kitti":
        return ("die", "tum-without-stamps")
    outs = []
    for cand in [trajs] + both_alts:
        if case["plane"]:
            nd = PLANES[case["plane"]]
            for t in list(cand.values()) + ([ref] if ref else []):
                t["T"] = [X.copy() for X in t["T"]]
                for X in t["T"]:
                    X[nd, 3] = 0.0
        out = {k: t for k, t in cand.items()}
        if ref is not None:
            out[os.path.splitext(ref_name(sub))[0]] = ref
        outs.append(out)
    return outs


def parse_export(name, data):
    rows = [[float(x) for x in l.split()] for l in data.decode().splitlines() if l.strip() and not l.startswith("#")]
    if name.endswith(".tum"):
        return {"t": [r[0] for r in rows], "p": [r[1:4] for r in rows], "q": [r[4:8] for r in rows]}
    return {"t": None, "p": [[r[3], r[7], r[11]] for r in rows], "R": [[r[0:3], r[4:7], r[8:11]] for r in rows]}


def tie_order(stamps, positions):
    """permutation that sorts rows by (stamp, position): rows with equal stamps become comparable as multisets"""
    if stamps is None:
        return list(range(len(positions)))
    return sorted(range(len(positions)), key=lambda i: (stamps[i], [round(float(x), 6) for x in positions[i]]))


def compare_export(case, evo, want):
    """first disagreement (clause, detail) between the exported files and one documented result, or None"""
    exts = ([".tum"] if case["save_tum"] else []) + ([".kitti"] if case["save_kitti"] else [])
    expected_files = sorted(stem + e for stem in want for e in exts)
    if sorted(evo["files"]) != expected_files:
        return ("exports-every-trajectory", f"files {sorted(evo['files'])}, expected {expected_files}")
    refstem = os.path.splitext(ref_name(case["sub"]))[0]
    no_processing = not (case["downsample"] or case["motion_filter"] is not None or case["merge"] or case["t_offset"] != 0.0 or
                         case["sync"] or case["align"] or case["correct_scale"] or case["align_origin"] or case["tf"] or case["plane"])
    for fname, data in evo["files"].items():
        stem = os.path.splitext(fname)[0]
        w = want[stem]
        got = parse_export(fname, data)
        who = "reference" if stem == refstem and case["ref"] is not None else "trajectory"
        clause = {"reference": "reference-only-downsampled-filtered-projected"}.get(who, "exported-equals-documented-pipeline")
        if no_processing:
            clause = "no-options-exported-equals-input"
        if len(got["p"]) != w["n"]:
            return ("merged-export-holds-every-input-pose" if case["merge"] and who == "trajectory" else clause,
                    f"{fname}: {len(got['p'])} poses exported, expected {w['n']}")
        if case["merge"] and w["t"] is not None and len(got["p"]) == w["n"]:
            # a KITTI export carries no stamps: both sides are time-ordered, so the groups of equal stamps are the same index ranges
            og = tie_order(got["t"] if got["t"] is not None else sorted(w["t"]), got["p"])
            ow = tie_order(list(w["t"]), [M[:3, 3] for M in w["T"]])
            got = {k: ([v[i] for i in og] if v is not None else None) for k, v in got.items()}
            w = {"t": np.array([w["t"][i] for i in ow]), "T": [w["T"][i] for i in ow], "n": w["n"]}
        P = np.array([M[:3, 3] for M in w["T"]])
        G = np.array(got["p"])
        vals = [x for k2 in ("t", "p", "q", "R") if got.get(k2) is not None for x in np.asarray(got[k2], dtype=float).ravel()]
        if not np.isfinite(vals).all():
            return ("exported-values-finite", f"{fname}: non-finite number in the export")
        tol = 0.0 if no_processing else 1e-6 * (1 + np.abs(P).max())
        if np.abs(G - P).max() > tol:
            k = int(np.argmax(np.abs(G - P).max(axis=1)))
            return (clause, f"{fname}: position {k} is {G[k].tolist()}, expected {P[k].tolist()}")
        if got["t"] is not None and w["t"] is not None:
            dt = np.abs(np.array(got["t"]) - w["t"]).max()
            if dt > (0.0 if no_processing else 1e-9 * (1 + abs(w["t"]).max())):
                return (clause, f"{fname}: timestamps differ by {dt}")
        for k in range(w["n"]):
            Rw = w["T"][k][:3, :3]
            if "R" in got:
                Rg = np.array(got["R"][k])
                if np.abs(Rg.T @ Rg - np.eye(3)).max() > 1e-6:
                    return ("poses-valid", f"{fname}: rotation block of pose {k} is not orthonormal")
            else:
                x, y, z, qw = got["q"][k]
                if abs(x * x + y * y + z * z + qw * qw - 1) > 1e-6:
                    return ("poses-valid", f"{fname}: quaternion of pose {k} is not a unit quaternion")
                Rg = quat_to_rot(qw, x, y, z)
            if not case["plane"] and np.abs(Rg - Rw).max() > 1e-6:
                return (clause, f"{fname}: orientation of pose {k} differs from the documented pipeline")
    return None


def oracle(ctx, case, evo):
    tags = {"sub": case["sub"]}
    try:
        want = oracle_pipeline(case)
    except Skip as e:
        ctx.count("dist", "oracle-skip:" + str(e))
        ctx.skipped += 1
        return None
    except Expect as e:
        # the documented pipeline ends in an error: evo must raise that error and export nothing
        if evo["status"] == "raised " + e.cls and not evo["files"]:
            ctx.count("dist", "oracle-error-agreed:" + e.why)
            return "error"
        if not e.strict and evo["status"] == "ok":
            ctx.count("dist", "oracle-skip:" + e.why)
            ctx.skipped += 1
            return None
        ctx.fail(case, "documented-error", f"{e.why}: expected {e.cls} and no export, evo_traj {evo['status']} files {sorted(evo['files'])}", tags)
        return "error"
    if isinstance(want, tuple):
        if evo["status"] == "ok" or evo["files"]:
            ctx.fail(case, "refused-option-combination", f"documented as an error ({want[1]}) but evo_traj ran: {evo['status']}, files {sorted(evo['files'])}", tags)
        return "die"
    if evo["status"] != "ok":
        ctx.fail(case, "runs-and-exports", f"evo_traj {evo['status']} {evo.get('message', '')} for a valid option set", tags)
        return "ok"
    f = compare_export(case, evo, want[0])
    if f is not None:
        both = bool(case["tf"]) and case["tf"]["side"] == "both"
        ctx.fail(case, "transform-file-side-as-documented" if both and f[0] == "exported-equals-documented-pipeline" else f[0], f[1], tags)
    return "ok"


# ----------------------------------------------------------------------------- judge
def judge(ctx, case, evo, interp, aux, outs):
    plan_line = outs[0]
    # ---- correspondence 1: plan replay, bit-identical
    if plan_line.startswith("DIE"):
        reason = plan_line.split()[1]
        want_status = {"parser": "exit2", "tum_without_stamps": "raised FileInterfaceException"}.get(reason, "exit1")
        # the TUM writer raises at the very end: an earlier step may raise first (e.g. alignment of unequal lengths)
        status_ok = evo["status"].startswith("raised") if reason == "tum_without_stamps" else evo["status"] == want_status
        if reason != "parser" and (case["downsample"] or case["motion_filter"] is not None) and \
                evo["status"] in ("raised FilterException", "raised TrajectoryException"):
            status_ok = True      # down-sampling / filtering run before run() reaches the die() and may fail first (1-pose input)
        if not status_ok or evo["files"]:
            ctx.mismatch(case, f"model: evo_traj stops ({reason}) without exporting", evo["status"] + " " + str(sorted(evo["files"])), plan_line)
        ctx.count("branch", "die:" + reason)
    else:
        if evo["status"] != interp["status"]:
            ctx.mismatch(case, "outcome of evo_traj differs from the interpreted plan", evo["status"] + " " + evo.get("message", ""),
                         interp["status"] + " " + plan_line)
        elif sorted(evo["files"]) != sorted(interp["files"]):
            ctx.mismatch(case, "exported file set differs from the interpreted plan", sorted(evo["files"]), sorted(interp["files"]))
        else:
            for f in evo["files"]:
                if evo["files"][f] != interp["files"][f]:
                    a, b = evo["files"][f].decode().splitlines(), interp["files"][f].decode().splitlines()
                    k = next((i for i in range(min(len(a), len(b))) if a[i] != b[i]), min(len(a), len(b)))
                    ctx.mismatch(case, f"{f} is not bit-identical to the interpreted plan (first difference in line {k})",
                                 (a[k] if k < len(a) else None), str(b[k] if k < len(b) else None) + " plan: " + plan_line)
                    break
        for s in plan_line[3:].split("|")[0].split():
            ctx.count("branch", "step:" + s.split(":")[0])
        ctx.count("branch", "outcome:" + evo["status"])
    # ---- correspondence 2: lie functions / transform() vs the rational model
    if aux.get("M") is not None:
        isse3, margin = outs[1].split()
        if core.parse_rat(margin) > Fraction(1, 10 ** 9):
            if (isse3 == "1") != aux["is_se3"]:
                ctx.mismatch(case, "lie.is_se3 differs from isSe3Tol", aux["is_se3"], isse3)
        else:
            ctx.skipped += 1
        branch, vals = outs[2].split(" ", 1)
        got = [frac(aux["inv"][r, c]) for r in range(3) for c in range(4)]
        mag = max(1.0, float(np.abs(aux["inv"]).max()))
        if any(abs(a - b) > Fraction(1, 10 ** 11) * frac(mag) for a, b in zip(got, [core.parse_rat(v) for v in vals.split()])):
            ctx.mismatch(case, f"inverse used by run ({branch}) differs from invertTransform", [float(x) for x in got], vals[:200])
        ctx.count("branch", "invert-model:" + branch)
        mv = [core.parse_rat(v) for v in outs[3].split()]
        gv = [frac(P[r, c]) for P in aux["transformed"] for r in range(3) for c in range(4)]
        mag = max(1.0, max(abs(float(x)) for x in gv))
        if len(mv) != len(gv) or any(abs(a - b) > Fraction(1, 10 ** 10) * frac(mag) for a, b in zip(gv, mv)):
            ctx.mismatch(case, "PosePath3D.transform differs from applyTransform", [float(x) for x in gv[:12]], [float(x) for x in mv[:12]])
    elif aux.get("load_error"):
        ctx.count("branch", "tf-load-error:" + aux["load_error"])
    # ---- oracle
    kind = oracle(ctx, case, evo)
    # ---- bookkeeping
    ctx.count("dist", "sub:" + case["sub"])
    ctx.count("dist", f"ntraj:{len(case['trajs'])}")
    for k2, v in drive_of(case).items():
        if v and k2 != "names":
            ctx.count("dist", f"drive:{k2}" + (":" + v if isinstance(v, str) else ""))
    if drive_of(case).get("names"):
        ctx.count("dist", "drive:adversarial-names")
    for tok in drive_of(case).get("extra") or []:
        if tok.startswith("-"):
            ctx.count("dist", "unmodelled-option:" + {"-c": "--config"}.get(tok, tok))
    if drive_of(case).get("stale"):
        ctx.count("dist", "unmodelled-option:--no_warnings")
    ctx.count("dist", "unmodelled-option:--silent" if "--silent" in argv_of(case) else "unmodelled-option:(not --silent)")
    if case.get("ties"):
        ctx.count("dist", "merge-shared-stamps:" + case["ties"])
    ctx.count("dist", "ref:" + ("none" if case["ref"] is None else "listed" if case["ref_listed"] else "file"))
    if case["tf"]:
        ctx.count("dist", "tf:" + case["tf"]["form"] + ":" + ("se3" if case["tf"]["scale"] == 1.0 else "sim3") + ":" + case["tf"]["side"])
    nontrivial = plan_line.startswith("OK") and len(plan_line[3:].split("|")[0].split()) >= 2 and kind == "ok"
    ctx.record(strip(case), nontrivial)


def strip(case):
    """the options only (for sampling / hashing in the evidence)"""
    c = {k: v for k, v in case.items() if k not in ("trajs", "ref")}
    c["n"] = [len(t["pos"]) for t in case["trajs"]]
    c["h"] = hashlib.sha1(json.dumps(case, sort_keys=True).encode()).hexdigest()[:10]
    return c


# ----------------------------------------------------------------------------- driver glue
def evaluate(ctx, cases):
    work = []
    lines = []
    for case in cases:
        use(case)
        d = setup_dir(case)
        evo = run_evo(case, d)
        aux = aux_of(case, d)
        ls = model_lines(case, aux)
        work.append((case, d, evo, aux, len(lines), len(ls)))
        lines += ls
    outs = core.run_driver(lines)
    runs = []
    for case, d, evo, aux, a, k in work:
        use(case)
        o = outs[a:a + k]
        interp = {"status": "-", "files": {}}
        try:
            if o[0].startswith("OK"):
                plan, refplan = [x.split() for x in o[0][3:].split("|")]
                plan = [] if plan == ["-"] else plan
                refplan = [] if refplan == ["-"] else refplan
                rec = {} if case.get("kind") == "grid" else None
                interp = interpret(case, d, plan, refplan, rec)
                if rec is not None and "inputs" in rec:
                    runs.append((case, evo, interp, run_line(case, d, rec)))
            try:
                judge(ctx, case, evo, interp, aux, o)
            except core.ToolError:
                raise
            except Exception as e:  # noqa: BLE001 -- unreadable / exceptional output of evo is an oracle failure, not a harness crash
                ctx.fail(case, "evo-output-readable", f"{type(e).__name__}: {e}"[:300], {"sub": case["sub"]})
        finally:
            shutil.rmtree(d, ignore_errors=True)
    if runs:
        for (case, evo, interp, _), out in zip(runs, core.run_driver([r[3] for r in runs])):
            use(case)
            try:
                judge_run(ctx, case, evo, interp, out)
            except Exception as e:  # noqa: BLE001
                ctx.fail(case, "evo-output-readable", f"{type(e).__name__}: {e}"[:300], {"sub": case["sub"]})


def shrink(case):
    for k in range(len(case["trajs"])):
        if len(case["trajs"]) > 1:
            c = dict(case)
            c["trajs"] = case["trajs"][:k] + case["trajs"][k + 1:]
            yield c
    for key, val in (("downsample", None), ("motion_filter", None), ("merge", False), ("t_offset", 0.0), ("plane", None),
                     ("propagate", False), ("invert", False), ("tf", None), ("sync", False), ("correct_scale", False),
                     ("align", False), ("align_origin", False), ("n_to_align", -1), ("save_tum", False), ("save_kitti", False)):
        if case[key] != val:
            c = dict(case)
            c[key] = val
            if c["save_tum"] or c["save_kitti"]:
                yield c
    n = min([len(t["pos"]) for t in case["trajs"]] + [10 ** 6])
    if 6 < n < 10 ** 6 and case["ref"] is None:
        c = dict(case)
        c["trajs"] = [{k: v[:max(4, len(v) // 2)] for k, v in t.items()} for t in case["trajs"]]
        yield c


def check(ctx):
    import warnings
    warnings.simplefilter("ignore")
    lean = core.lean_side(ctx.prop, ctx.tier, pre_build=trajoptions.regenerate)
    core.drift(ctx, MODELLED)
    cases = list(gen_cases(ctx))
    evaluate(ctx, cases)
    core.shrink_all(ctx, shrink, evaluate, budget=40)
    modelled = {"correct_scale", "n_to_align", "sync", "transform_left", "transform_right", "propagate_transform", "invert_transform",
                "ref", "t_offset", "t_max_diff", "merge", "project_to_plane", "downsample", "motion_filter", "align", "align_origin",
                "save_as_tum", "save_as_kitti"}
    dests = [row[0] for row in trajoptions.tables()["options"]]
    used = {k.split(":", 1)[1].lstrip("-") for k in ctx.dist if k.startswith("unmodelled-option:--")}
    ctx.notes["options_outside_the_model"] = {
        "asserted_not_to_change_the_exports_in_this_run": sorted(x for x in dests if x not in modelled and x in used),
        "not_exercised": {x: {"ros_map_yaml": "needs a map image + yaml", "map_tile": "needs contextily and network",
                              "save_as_bag2": "installed rosbags cannot construct the ROS2 writer the way evo calls it",
                              "config": "only if drawn this run; run() ignores it (entry_points.merge_config applies it)"}.get(x, "not drawn in this run")
                          for x in dests if x not in modelled and x not in used}}
    return core.finish(ctx, lean, rule=RULE,
                       open_clauses=["the documented order is itself the specification: theorems state the option -> step wiring over all option sets; "
                                     "the numerical content of each step (Umeyama, association, filters, projection) belongs to C03-C05, C10, C11, C14",
                                     "invert_is_true_inverse needs scale = 1 or a scale that is_se3 does not accept as 1 (|s^2-1| > ~1e-5): inside the "
                                     "tolerance evo treats the matrix as SE(3) (kernel-checked example in Props/C15.lean)",
                                     "trajRun: Umeyama triple, motion-filter lengths/angles, sim3_scale and projected headings are certified parameters taken "
                                     "from evo's own run; compared with the CLI on the exact-grid stream only",
                                     "bag / bag2 subcommands, plotting and --save_table are outside this property"],
                       assumptions=["input files have distinct stems; merged inputs may share timestamps (rows with equal stamps are compared as multisets) "
                                    "when no association / alignment / propagated transformation follows",
                                    "oracle decisions within 1e-9 of a filter / association threshold are skipped"])


def replay(ctx, data):
    import warnings
    warnings.simplefilter("ignore")
    core.sh("lake build drv_C15", cwd=core.LEAN)
    evaluate(ctx, [data["case"]])
    return core.finish_replay(ctx)
