"""C16 — computations do not modify their inputs; derived objects are independent.
Model: lean/EvoModel/Model/Heap.lean (arrays as cells, objects as records of cells), driver op `scen`.

Two halves:
  (A) aliasing scenarios — build A, read some views (cache states), derive B from it (deepcopy / associate_trajectories /
      merge / the splitters), run a mutating history on B, look at A again.  Correspondence: which derived objects share
      memory with A (numpy.shares_memory / identity on the real arrays vs the model's sharing relation), whether A (and the
      second input) shows something else afterwards, and the allocation behaviour of every method (same array kept / new
      array).  Oracle: sources bit-identical, no shared memory.
  (B) frame condition — every public function of evo.core / evo.tools found by introspection is called on synthesised
      arguments; deep snapshots of all arguments before and after must be bit-identical (differential test, no model).
"""
import copy
import inspect
import io
import math
import os
import random
import sys
import tempfile
import typing
import warnings

import numpy as np

import core
from core import rat

sys.path.insert(0, os.path.dirname(__file__))
import C08 as H  # noqa: E402  (generators, token encoders and the effect bookkeeping of the trajectory model)

RULE = ("(A) aliasing scenario = (constructor, cache state from 0-3 reads, derivation in {deepcopy, associate, merge, "
        "split_time_gaps, split_distance_gaps, split_speed_outliers (cut / nothing to cut), align_origin / align of a second trajectory "
        "to it, the object itself as control}, "
        "mutating history of length 1-5 over {transform L/R/P incl. Sim(3), scale, reduce, project, align, motion filter, "
        "align_origin, reads}); compared with the heap model: sharing per derived object, source changed or not, per-operation "
        "allocation behaviour; (B) every public function / method of evo.core.{metrics,sync,filters,geometry,result,trajectory,"
        "lie_algebra} and evo.tools.{file_interface,pandas_bridge,plot} found by introspection, called on synthesised arguments incl. non-default options "
        "(several argument variants each), deep snapshots of all arguments compared bit for bit; functions whose arguments "
        "could not be synthesised are listed in notes.uncovered; non-trivial = B was really mutated / the call returned normally")

T_ = "evo/core/trajectory.py:"
MODELLED = [T_ + "PosePath3D." + f for f in ("__init__", "positions_xyz", "orientations_quat_wxyz", "poses_se3", "transform", "scale",
                                              "project", "reduce_to_ids", "_jumps", "split_distance_gaps")] \
    + [T_ + "PoseTrajectory3D." + f for f in ("__init__", "reduce_to_ids", "split_time_gaps", "split_distance_gaps",
                                                "split_speed_outliers")] \
    + [T_ + "merge", T_ + "xyz_quat_wxyz_to_se3_poses", T_ + "se3_poses_to_xyz_quat_wxyz",
       "evo/core/sync.py:associate_trajectories", "evo/core/sync.py:matching_time_indices", "evo/core/result.py:merge_results"]

MUT = ("tf", "sc", "red", "pj", "al", "mf", "ao", "ds")
NEED_STAMPS = ("assoc", "merge", "split_time", "split_speed")
DERIVS = ("copy", "assoc", "merge", "split_time", "split_dist", "split_speed", "self", "align_origin", "align")


# ----------------------------------------------------------------------------- scenario generation
def gen_scenarios(ctx):
    r = ctx.rng
    n_s = 4000 if ctx.thorough else 700
    for i in range(n_s):
        grid = r.random() < 0.5
        deriv = DERIVS[i % len(DERIVS)] if i < 12 * len(DERIVS) else r.choice(DERIVS)
        # both classes: a plain PosePath3D (no stamps) wherever the derivation exists for it
        timed = deriv in NEED_STAMPS or r.random() < 0.6
        if i < 12 * len(DERIVS):
            timed = deriv in NEED_STAMPS or (i // len(DERIVS)) % 2 == 0
        if grid or i < 12 * len(DERIVS):
            # size boundary first: sources with exactly 1 and 2 poses for every derivation and class
            n = [1, 1, 2, 2, 3, 3][(i // len(DERIVS)) // 2] if i < 12 * len(DERIVS) else r.choice([1, 2, 3, 4, 6])
            b = H.grid_base(r, timed, r.choice(["se3", "pq"]), n=n)
            grid = True
        else:
            b, n = H.rand_base(r, 25)
            b["stamps"] = [float(k) * 0.1 for k in range(n)] if timed else None
        pre = [{"op": "rd", "v": r.choice(["pos", "quat", "se3"])} for _ in range(r.randint(0, 3))]
        ops = []
        full, _ = H.grid_alphabet(r)
        pool = [o for o in full if o["op"] in ("tf", "sc", "red", "pj", "mf", "ao", "al") or (o["op"] == "rd" and o.get("v") in ("pos", "quat", "se3"))]
        for _ in range(r.randint(1, 5)):
            if grid:
                ops.append(r.choice(pool))
            else:
                o = H.rand_ops(r, n, timed, 1)[0]
                if o["op"] in MUT or (o["op"] == "rd" and o["v"] in ("pos", "quat", "se3")):
                    ops.append(o)
        if not any(o["op"] in MUT for o in ops):
            ops.append({"op": "pj", "plane": r.choice(["xy", "xz", "yz"])})
        yield {"part": "A", "base": b, "pre": pre, "deriv": deriv, "which": r.random(), "gap": r.choice([0.0, 0.35, 0.7]),
               "ops": ops}


# ----------------------------------------------------------------------------- the real code, part A
def arrays_of(obj):
    out = []
    for a in ("_positions_xyz", "_orientations_quat_wxyz", "timestamps"):
        if hasattr(obj, a):
            out.append(getattr(obj, a))
    if hasattr(obj, "_poses_se3"):
        out.extend(obj._poses_se3)
    return out


def shares(a, b):
    return any(x is y or np.shares_memory(x, y) for x in arrays_of(a) for y in arrays_of(b))


def shown(obj):
    """what the object shows (public views), read from a deep copy, as bit patterns"""
    c = copy.deepcopy(obj)
    return (np.asarray(c.positions_xyz, dtype=float).tobytes(), np.asarray(c.orientations_quat_wxyz, dtype=float).tobytes(),
            b"".join(np.asarray(p, dtype=float).tobytes() for p in c.poses_se3),
            np.asarray(c.timestamps, dtype=float).tobytes() if hasattr(c, "timestamps") else b"", int(c.num_poses),
            repr(sorted(c.meta.items())) if isinstance(c.meta, dict) else repr(c.meta))


def bits(obj):
    return ("p" if hasattr(obj, "_positions_xyz") else "-") + ("q" if hasattr(obj, "_orientations_quat_wxyz") else "-") \
        + ("m" if hasattr(obj, "_poses_se3") else "-")


def fields(obj):
    return {"p": getattr(obj, "_positions_xyz", None), "q": getattr(obj, "_orientations_quat_wxyz", None),
            "s": getattr(obj, "timestamps", None), "m": list(getattr(obj, "_poses_se3", []))}


def kept(old, new):
    s = ""
    for k in "pqs":
        a, b = old[k], new[k]
        s += "1" if (a is not None and b is not None and (a is b or np.shares_memory(a, b))) else "0"
    ids = set(id(x) for x in old["m"])
    return s + str(sum(1 for x in new["m"] if id(x) in ids))


def second_input(case, A):
    """a second trajectory for associate / merge: same poses moved, stamps slightly shifted / interleaved"""
    from evo.core.trajectory import PoseTrajectory3D, PosePath3D
    c = copy.deepcopy(A)
    if not hasattr(A, "timestamps"):
        return PosePath3D(positions_xyz=np.array(c.positions_xyz) + 1.0, orientations_quat_wxyz=np.array(c.orientations_quat_wxyz))
    st = np.asarray(A.timestamps, dtype=float)
    d = float(np.min(np.diff(st))) if len(st) > 1 else 1.0
    return PoseTrajectory3D(positions_xyz=np.array(c.positions_xyz) + 1.0, orientations_quat_wxyz=np.array(c.orientations_quat_wxyz),
                            timestamps=st + d / 8.0)


def apply_op(obj, op, toks):
    """apply one history step to the real object; append the heap-model operations it corresponds to"""
    from evo.core import lie_algebra as lie, filters, geometry
    from evo.core.trajectory import Plane, PosePath3D, TrajectoryException
    k = op["op"]
    n = int(obj.num_poses)
    if k == "rd":
        {"pos": lambda: obj.positions_xyz, "quat": lambda: obj.orientations_quat_wxyz, "se3": lambda: obj.poses_se3}[op["v"]]()
        toks.append(f"rd {op['v']}")
    elif k == "tf":
        T = np.array(op["T"], dtype=float).reshape(4, 4)
        obj.transform(T, right_mul=op["mode"] in "RP", propagate=op["mode"] == "P")
        toks.append(f"tf {op['mode']} {H.pose_toks(T)} {H.norm_tok(T)}")
    elif k == "sc":
        obj.scale(op["s"])
        toks.append(f"sc {rat(op['s'])}")
    elif k in ("red", "ds"):
        if k == "red":
            ids = H.red_ids(op, n)
            if not ids or any(i < -n or i >= n for i in ids):    # the derived object stays non-empty; no refused calls here
                ids = [0, -1] if n else []
            signed = ids
            ids = [i % n for i in ids] if n else []       # the heap model indexes with naturals: Python's i % n, done here
        else:
            N = max(1, op["n"])
            ids = [int(i) for i in np.linspace(0, n - 1, N, dtype=int)] if n > N else None
        if ids is not None:
            obj.reduce_to_ids(signed if k == "red" else ids)
            toks.append(f"red {core.natlist(ids)}")
    elif k == "mf":
        try:
            ids = [int(i) for i in filters.filter_by_motion(copy.deepcopy(obj).poses_se3, op["d"], op["a"])]
        except filters.FilterException:
            ids = None
        try:
            obj.motion_filter(op["d"], op["a"])
        except filters.FilterException:
            pass
        toks.append("rd se3")
        if ids is not None:
            toks.append(f"red {core.natlist(ids)}")
    elif k == "al":
        ref = H.make_ref(op, np.array(copy.deepcopy(obj).positions_xyz))
        toks.append("rd pos")
        try:
            r_a, t_a, c = obj.align(ref, correct_scale=op["mode"] == "s", correct_only_scale=op["mode"] == "o", n=op["n"])
        except geometry.GeometryException:
            return
        T = lie.se3(r_a, t_a)
        if op["mode"] in "so":
            toks.append(f"sc {rat(float(c))}")
        if op["mode"] in "rs":
            toks.append(f"tf L {H.pose_toks(T)} {H.norm_tok(T)}")
    elif k == "ao":
        R = np.array(op["ref"], dtype=float).reshape(4, 4)
        if n == 0:
            return
        T = obj.align_origin(PosePath3D(poses_se3=[R.copy()]))
        toks.append("rd se3")
        toks.append(f"tf L {H.pose_toks(T)} {H.norm_tok(T)}")
    elif k == "pj":
        cc = copy.deepcopy(obj)
        try:
            cc.project(Plane(op["plane"]))
            rots = [p[:3, :3] for p in cc.poses_se3]
        except TrajectoryException:
            rots = []
        try:
            obj.project(Plane(op["plane"]))
        except TrajectoryException:
            pass
        toks.append((f"pj {H.PLANES[op['plane']]} {len(rots)} " + " ".join(H.rot_toks(m) for m in rots)).strip())


def run_scenario(case):
    from evo.core import sync, trajectory
    b = case["base"]
    A = H.build(b)
    pre_toks = []
    for op in case["pre"]:
        apply_op(A, op, pre_toks)
    n = int(A.num_poses)
    before = shown(A)
    A2, before2 = None, None
    d = case["deriv"]
    st = np.asarray(A.timestamps, dtype=float) if hasattr(A, "timestamps") else None
    info = {}
    if d == "copy":
        derived, dtok, k = [copy.deepcopy(A)], "copy", 0
    elif d == "self":
        derived, dtok, k = [A], "self", 0
    elif d == "assoc":
        A2 = second_input(case, A)
        before2 = shown(A2)
        dmin = float(np.min(np.diff(st))) if n > 1 else 1.0
        try:
            B1, B2 = sync.associate_trajectories(A, A2, max_diff=dmin / 4.0)
        except sync.SyncException:
            return None
        ids = [int(np.where(st == t)[0][0]) for t in B1.timestamps]
        derived, dtok, k = [B1], f"assoc {core.natlist(ids)}", 0
        info["second_derived"] = B2
    elif d in ("align_origin", "align"):
        # B = a second trajectory aligned to A: A is only read (est.align_origin(ref) / est.align(ref))
        from evo.core import geometry, lie_algebra as lie
        B0 = second_input(case, A)
        b_init = H.init_toks({"ctor": "pq", "xyz": np.array(B0.positions_xyz).tolist(),
                              "quat": np.array(B0.orientations_quat_wxyz).tolist(),
                              "stamps": np.array(B0.timestamps).tolist() if hasattr(B0, "timestamps") else None})
        if d == "align_origin":
            T = B0.align_origin(A)
            rd, ob = ["rd se3"], ["rd se3", f"tf L {H.pose_toks(T)} {H.norm_tok(T)}"]
        else:
            mode = "rso"[int(case["which"] * 3) % 3]
            try:
                r_a, t_a, c = B0.align(A, correct_scale=mode == "s", correct_only_scale=mode == "o")
            except geometry.GeometryException:
                return None
            T = lie.se3(r_a, t_a)
            rd, ob = ["rd pos"], ["rd pos"]
            if mode in "so":
                ob.append(f"sc {rat(float(c))}")
            if mode in "rs":
                ob.append(f"tf L {H.pose_toks(T)} {H.norm_tok(T)}")
        derived, k = [B0], 0
        dtok = f"other {b_init} {len(rd)} {' '.join(rd)} {len(ob)} {' '.join(ob)}"
    elif d == "merge":
        A2 = second_input(case, A)
        before2 = shown(A2)
        derived, k = [trajectory.merge([A, A2])], 0
        dtok = "merge " + H.init_toks({"ctor": "pq", "xyz": np.array(A2.positions_xyz).tolist(),
                                       "quat": np.array(A2.orientations_quat_wxyz).tolist(),
                                       "stamps": np.array(A2.timestamps).tolist()})
    else:
        # splitters: choose a threshold that cuts (or not) according to case["gap"]; with fewer than two poses every
        # splitter takes its early-out (`[copy.deepcopy(self)]`), which is a scenario of its own
        forced = []
        if n < 2:
            parts = {"split_time": lambda: A.split_time_gaps(0.5), "split_dist": lambda: A.split_distance_gaps(0.5),
                     "split_speed": lambda: A.split_speed_outliers(0.5)}[d]()
        elif d == "split_time":
            diffs = np.diff(st)
            thr = float(np.sort(diffs)[min(len(diffs) - 1, int(case["gap"] * len(diffs)))]) if case["gap"] > 0 else float(np.max(diffs)) + 1.0
            parts = A.split_time_gaps(thr)
        elif d == "split_dist":
            dd = np.diff(copy.deepcopy(A).distances)
            thr = float(np.sort(dd)[min(len(dd) - 1, int(case["gap"] * len(dd)))]) if case["gap"] > 0 else float(np.max(dd)) + 1.0
            parts = A.split_distance_gaps(thr)
            forced = ["rd pos"]
        else:
            try:
                sp = copy.deepcopy(A).speeds
            except Exception:  # noqa: BLE001
                return None
            thr = float(np.sort(sp)[min(len(sp) - 1, int(case["gap"] * len(sp)))]) if case["gap"] > 0 else float(np.max(sp)) + 1.0
            parts = A.split_speed_outliers(thr)
            forced = ["rd pos"]
        pre_toks += forced
        lens = [int(p.num_poses) for p in parts]
        bounds = [0]
        for L in lens:
            bounds.append(bounds[-1] + L)
        # code path: split_distance_gaps always builds parts from slices; the two others deep-copy self when nothing is cut
        cut = 1 if n >= 2 and (d == "split_dist" or len(parts) > 1) else 0
        k = min(len(parts) - 1, int(case["which"] * len(parts)))
        derived, dtok = list(parts), f"split {cut} {core.natlist(bounds)} {k}"
        info["lens"] = lens
    share0 = [(p is A) or shares(p, A) for p in derived]
    share0_2 = [shares(p, A2) for p in derived] if A2 is not None else []
    B = derived[k]
    op_toks, trace = [], []
    for op in case["ops"]:
        t0 = len(op_toks)
        old = fields(B)
        mid = []
        apply_op(B, op, mid)
        # one evo call may be several model operations: attribute the allocation behaviour to the whole call
        op_toks += mid
        trace.append((len(mid), kept(old, fields(B))))
    after = shown(A)
    return {"pre": pre_toks, "dtok": dtok, "ops": op_toks, "trace": trace, "n_derived": len(derived), "share0": share0,
            "share0_2": share0_2, "share_after": shares(B, A) if B is not A else True,
            "A_changed": after != before, "A2_changed": (shown(A2) != before2) if A2 is not None else False,
            "bits": bits(A), "B_is_A": B is A,
            "second_ok": (not shares(info["second_derived"], A2) and not shares(info["second_derived"], A)) if "second_derived" in info else True}


def scenario_line(case, impl):
    return (f"C16 scen {H.init_toks(case['base'])} {len(impl['pre'])} {' '.join(impl['pre'])} {impl['dtok']} "
            f"{len(impl['ops'])} {' '.join(impl['ops'])}").replace("  ", " ").strip()


def judge_scenario(ctx, case, impl, out):
    d = case["deriv"]
    ctx.count("dist", "deriv:" + d)
    if impl is None:
        ctx.count("dist", "scenario-not-applicable")
        return
    tags = {"deriv": d}
    # ---- oracle: derived objects are independent of their sources
    if d != "self":
        if any(impl["share0"]) or any(impl["share0_2"]) or not impl["second_ok"]:
            ctx.fail(case, "derived-shares-memory", f"{d}: a derived object shares an array with its source "
                     f"(per derived object: {impl['share0']}, second input: {impl['share0_2']})", tags)
        if impl["A_changed"]:
            ctx.fail(case, "source-changed-by-mutating-derived", f"{d}: after {[o['op'] for o in case['ops']]} on the derived "
                     f"object the source trajectory shows different data", tags)
        if impl["A2_changed"]:
            ctx.fail(case, "source-changed-by-mutating-derived", f"{d}: the second input shows different data afterwards", tags)
    # ---- correspondence with the heap model
    if out == "BAD-OP":
        ctx.mismatch(case, "driver rejected the scenario")
        return
    p1, p2, p3 = out.split(" ; ") if out.count(" ; ") == 2 else (out.split(" ; ") + [""])[:3]
    t1 = p1.split()
    m_n, m_share0 = int(t1[0]), [x == "1" for x in t1[1:]]
    t2 = p2.split()
    m_after, m_A, m_A2, m_bits = t2[0] == "1", t2[1] == "1", t2[2] == "1", t2[3]
    m_trace = p3.split()
    if m_n != impl["n_derived"] or m_share0 != impl["share0"]:
        ctx.mismatch(case, f"{d}: sharing with the source per derived object: evo {impl['share0']}, heap model {m_share0}")
        return
    if m_after != impl["share_after"]:
        ctx.mismatch(case, f"{d}: derived object shares memory with the source after the history: evo {impl['share_after']}, model {m_after}")
        return
    if d == "self":
        # control (the "derived" object is the source itself): evo compares bit patterns, so a quaternion -> matrix ->
        # quaternion round trip counts as a change although the exact model shows the same rotation; only the other
        # direction is a disagreement
        if m_A and not impl["A_changed"]:
            ctx.mismatch(case, "control: the heap model says the object changed, evo shows identical data")
            return
    elif m_A != impl["A_changed"] or m_A2 != impl["A2_changed"]:
        ctx.mismatch(case, f"{d}: source changed: evo {impl['A_changed']}/{impl['A2_changed']}, heap model {m_A}/{m_A2}")
        return
    # allocation behaviour, per evo call (a call may span several model steps: combine them)
    i = 0
    for cnt, got in impl["trace"]:
        seg = m_trace[i:i + cnt]
        i += cnt
        if cnt == 0:
            continue
        exp = ""
        for pos in range(3):
            exp += "1" if all(s[pos] == "1" for s in seg) else "0"
        if cnt == 1:
            exp += seg[0][3:]
            if exp != got:
                ctx.mismatch(case, f"{d}: allocation behaviour of a method differs: evo {got} (pos/quat/stamps array kept, matrices kept), "
                             f"heap model {exp}")
                return
        elif exp != got[:3]:
            ctx.mismatch(case, f"{d}: allocation behaviour of a method differs: evo {got[:3]}, heap model {exp}")
            return
    ctx.count("dist", "source-cache-bits-" + ("agree" if m_bits == impl["bits"] else "differ"))
    ctx.count("branch", d + (":control-changed" if d == "self" and impl["A_changed"] else ""))
    for o in case["ops"]:
        ctx.count("branch", "mutate:" + o["op"])
    ctx.record({"deriv": d, "base": case["base"], "ops": case["ops"], "pre": case["pre"]}, True)


# ----------------------------------------------------------------------------- part B: frame condition by introspection
MODULES = ["evo.core.metrics", "evo.core.sync", "evo.core.filters", "evo.core.geometry", "evo.core.result",
           "evo.core.trajectory", "evo.core.lie_algebra", "evo.tools.file_interface", "evo.tools.pandas_bridge",
           "evo.tools.plot"]
# GUI entry points (open windows / need a display): not callable in a batch run
EXCLUDED = {"evo.tools.plot.PlotCollection.show": "opens a GUI window", "evo.tools.plot.PlotCollection.tabbed_qt5_window": "needs Qt",
            "evo.tools.plot.PlotCollection.tabbed_tk_window": "needs Tk / a display"}
# methods whose receiver is "the object explicitly being operated on"
MUTATORS = {"transform", "scale", "project", "align", "align_origin", "reduce_to_ids", "downsample", "motion_filter",
            "reduce_to_time_range", "process_data", "change_unit", "add_info", "add_np_array", "add_stats", "add_trajectory",
            "__init__"}
PROPERTIES = {"PosePath3D": ["positions_xyz", "orientations_quat_wxyz", "poses_se3", "distances", "path_length", "num_poses"],
              "PoseTrajectory3D": ["positions_xyz", "orientations_quat_wxyz", "poses_se3", "distances", "path_length", "num_poses", "speeds"]}


# by reference by design (documented, not flagged): the receiver stores / hands out the argument itself
BYREF = {"add_trajectory": "Result.add_trajectory stores the trajectory object it is given",
         "add_np_array": "Result.add_np_array stores the array it is given", "add_info": "stores the values of the dict",
         "add_stats": "stores the values of the dict", "add_figure": "PlotCollection keeps the figure",
         "__init__": "constructors keep poses_se3 / meta by reference (np.array copies the other arrays)",
         "so3_from_se3": "accessor: returns the rotation block of its argument as a view"}
BYREF_RECV = {"get_result": "the Result holds the metric's own error array (C12 covers change_unit after get_result)"}


def graph_of(x):
    """(ndarrays, evo objects) reachable from x through lists, tuples, dicts, object arrays, DataFrames and the attributes
    of evo objects — generic, so that an alias anywhere in a result is seen"""
    arrays, objs, seen = [], [], set()

    def walk(v, depth):
        if id(v) in seen or depth > 8:
            return
        seen.add(id(v))
        if isinstance(v, np.ndarray):
            if v.dtype == object:
                for w in v.flat:
                    walk(w, depth + 1)
            elif v.size:
                arrays.append(v)
            return
        if isinstance(v, dict):
            for w in v.values():
                walk(w, depth + 1)
        elif isinstance(v, (list, tuple, set)):
            for w in v:
                walk(w, depth + 1)
        elif type(v).__module__.startswith("pandas."):
            try:
                for c in v.columns:
                    a = v[c].values
                    if isinstance(a, np.ndarray) and a.dtype != object and a.size:
                        arrays.append(a)
            except Exception:  # noqa: BLE001
                pass
        elif type(v).__module__.startswith("evo.") and hasattr(v, "__dict__") and not isinstance(v, type):
            objs.append(v)
            for w in vars(v).values():
                walk(w, depth + 1)
    walk(x, 0)
    return arrays, objs


def mutate_in_place(root):
    """later in-place operations on a derived object: project() on every trajectory in it, then a write through every
    array it reaches (poses_se3[k][:] = …, positions_xyz[:] = …, timestamps, result arrays)"""
    from evo.core.trajectory import PosePath3D, Plane
    _, objs = graph_of(root)
    for o in objs:
        if isinstance(o, PosePath3D) and not o._projected and o.num_poses > 0:
            try:
                o.project(Plane.XY)
            except Exception:  # noqa: BLE001
                pass
    arrays, _ = graph_of(root)
    for a in arrays:
        if a.flags.writeable and a.dtype.kind in "fiu":
            try:
                a[...] = a * 2 + 1
            except Exception:  # noqa: BLE001
                pass


class Skip(Exception):
    pass


class PostCall(Exception):
    """snapshots / comparison after the call raised: the arguments or the result are in an unusable state"""


def deep_snap(x, depth=0):
    from evo.core.trajectory import PosePath3D
    from evo.core.result import Result
    from evo.core.metrics import Metric
    if depth > 6:
        return "…"
    if isinstance(x, np.ndarray):
        return ("nd", x.dtype.str, x.shape, x.tobytes())
    if isinstance(x, PosePath3D):
        return ("traj", type(x).__name__, shown(x), bool(x._projected))
    if isinstance(x, Result):
        return ("res", deep_snap(x.info, depth + 1), deep_snap(x.stats, depth + 1), deep_snap(x.np_arrays, depth + 1),
                deep_snap(x.trajectories, depth + 1))
    if isinstance(x, Metric):
        return ("metric", deep_snap({k: v for k, v in vars(x).items()}, depth + 1))
    if isinstance(x, dict):
        return ("dict", [(repr(k), deep_snap(v, depth + 1)) for k, v in x.items()])
    if isinstance(x, (list, tuple)):
        return (type(x).__name__, [deep_snap(v, depth + 1) for v in x])
    try:
        import pandas as pd
        if isinstance(x, pd.DataFrame):
            return ("df", [repr(c) for c in x.columns], [repr(i) for i in x.index],
                    [deep_snap(np.asarray(x[c].values), depth + 1) if x[c].dtype != object else [repr(v) for v in x[c].values] for c in x.columns])
    except Exception:  # noqa: BLE001
        pass
    if isinstance(x, (io.IOBase,)):
        return ("io",)
    if isinstance(x, (int, float, str, bool, type(None), bytes)) or hasattr(x, "value"):
        return repr(x)
    return ("obj", type(x).__name__)


class Factory:
    """synthesises arguments from parameter names and annotations (deterministic per rng)"""
    counter = 0

    def __init__(self, rng, tmp, size=None):
        self.r, self.tmp, self.k, self.open_handles, self.size = rng, tmp, 0, [], size

    def traj(self, timed=True, n=None):
        while True:
            b, _ = H.rand_base(self.r, 12)
            n0 = len(b.get("poses", b.get("xyz")))
            if n0 >= 4:
                break
        if self.size:       # size-boundary variants: trajectories with exactly 1 / 2 poses
            for key in ("poses", "xyz", "quat", "stamps"):
                if b.get(key) is not None:
                    b[key] = b[key][:self.size]
            n0 = self.size
        if timed and b["stamps"] is None:
            b["stamps"] = [100.0 + 0.1 * k for k in range(n0)]
        if not timed:
            b["stamps"] = None
        t = H.build(b)
        for _ in range(self.r.randint(0, 2)):       # vary the cache state
            self.r.choice([lambda: t.positions_xyz, lambda: t.poses_se3, lambda: t.orientations_quat_wxyz])()
        t.meta = {"file": "x.txt", "list": [1, 2]}
        return t

    def pair(self):
        a = self.traj(True)
        n = a.num_poses
        from evo.core.trajectory import PoseTrajectory3D
        c = copy.deepcopy(a)
        rr = self.r
        b = PoseTrajectory3D(positions_xyz=np.array(c.positions_xyz) + np.array([[rr.gauss(0, 0.1) for _ in range(3)] for _ in range(n)]),
                             orientations_quat_wxyz=np.array(c.orientations_quat_wxyz), timestamps=np.array(c.timestamps))
        return a, b

    def se3(self):
        return H.mat4(H.rot_of_quat(H.rand_quat(self.r)), [self.r.uniform(-5, 5) for _ in range(3)])

    def poses(self, n=None):
        return [self.se3() for _ in range(n or self.r.randint(3, 9))]

    def result(self):
        from evo.core import metrics
        a, b = self.pair()
        m = metrics.APE(metrics.PoseRelation.translation_part)
        m.process_data((a, b))
        res = m.get_result()
        res.info["title"] = str(res.info.get("title", "APE")) + "\n(with SE(3) Umeyama alignment)"      # as evo_ape / evo_rpe set it
        res.add_trajectory("ref", a)
        res.add_trajectory("est", b)
        return res

    def path(self, suffix):
        Factory.counter += 1
        return os.path.join(self.tmp, f"f{Factory.counter}{suffix}")

    def by_name(self, fname, name, ann, default):
        from evo.core import metrics, units
        from evo.core.trajectory import Plane, PoseTrajectory3D, PosePath3D
        r = self.r
        a = str(ann)
        if name in ("traj_1", "traj_2", "traj") and "PoseTrajectory3D" in a:
            return self.traj(True)
        if "Tuple[evo.core.trajectory.PosePath3D" in a or name == "data":
            return self.pair()
        if name == "trajectories" and "Dict" in a:
            return {"a": self.traj(True), "b": self.traj(False)}
        if name == "trajectories":
            x = self.traj(True)
            y = self.traj(True)
            return [x, y]
        if "PosePath3D" in a or "PoseTrajectory3D" in a or name in ("traj_ref", "traj"):
            if name == "as_type":
                return PoseTrajectory3D
            return self.traj(r.random() < 0.5 or "Trajectory" in a)
        if name == "results":
            return [self.result(), self.result()]
        if name == "result_obj":
            return self.result()
        if name in ("poses",):
            return self.poses()
        if name in ("p", "p1", "p2", "p_1", "p_2", "Q_i", "Q_i_delta", "P_i", "P_i_delta"):
            return self.se3()
        if name == "a":
            m = self.se3()
            m[:3, :3] *= 2.0
            return m
        if name in ("r", "r1", "r2"):
            return self.se3()[:3, :3].copy()
        if name in ("t", "v", "rotation_vector") and "ndarray" in a:
            return np.array([r.uniform(-1, 1) for _ in range(3)])
        if name == "m" and "ndarray" in a:
            v = [r.uniform(-1, 1) for _ in range(3)]
            return np.array([[0, -v[2], v[1]], [v[2], 0, -v[0]], [-v[1], v[0], 0]])
        if name == "so3_matrices":
            return np.array([self.se3()[:3, :3] for _ in range(3)])
        if name in ("x", "y") and fname.endswith("umeyama_alignment"):
            return np.array([[r.uniform(-5, 5) for _ in range(7)] for _ in range(3)])
        if name in ("x",):
            return np.array([[r.uniform(-5, 5) for _ in range(3)] for _ in range(6)])
        if name in ("x_t", "x_t_star", "xyz"):
            return np.array([[r.uniform(-5, 5) for _ in range(3)] for _ in range(5)])
        if name in ("xyz_1", "xyz_2"):
            return np.array([r.uniform(-5, 5) for _ in range(3)])
        if name == "quat":
            return np.array([H.rand_quat(r) for _ in range(5)])
        if name in ("stamps_1", "stamps_2"):
            return np.array(sorted(r.uniform(0, 10) for _ in range(r.randint(2, 8))))
        if name in ("positions_xyz",):
            return np.array([[r.uniform(-5, 5) for _ in range(3)] for _ in range(4)])
        if name == "orientations_quat_wxyz":
            return np.array([H.rand_quat(r) for _ in range(4)])
        if name == "timestamps":
            return np.array([0.0, 0.5, 1.0, 1.5])
        if name == "poses_se3":
            return None
        if name == "ids":
            return [0, 1]
        if name == "array":
            return np.array([1.0, float("nan"), 3.0, float("inf")]) if r.random() < 0.3 else np.array([1.0, 2.0, 3.0])
        if name in ("info_dict", "stats_dict"):
            return {"k": 1.0, "title": "t\n(with SE(3) Umeyama alignment)"}
        if name == "meta":
            return {"a": 1}
        if name == "name" or name == "label" or name.endswith("_name") or name == "topic_name" or name == "frame_id":
            if isinstance(default, str) and r.random() < 0.5:
                return default      # the default (e.g. frame_id="") takes other branches than a given name (fallbacks to meta)
            return "nm"
        if name in ("offset_2",):
            return 0.25
        if name in ("max_diff",):
            return 0.5
        if name in ("t_1",):
            return 1.0
        if name in ("t_2",):
            return 2.5
        if name in ("delta",):
            return 1 if "index" in fname else 1.0
        if name in ("distance_threshold", "dist", "angle_threshold", "dt", "v_max", "tol", "rel_tol", "s"):
            return {"s": 2.0, "tol": 0.1, "rel_tol": 0.1, "dt": 0.15, "v_max": 1.0}.get(name, 0.3)
        if name == "num_poses":
            return 3
        if name == "n":
            return -1
        if name == "delta_unit":
            return units.Unit.frames
        if name == "new_unit":
            return units.Unit.millimeters
        if name == "statistics_type":
            return metrics.StatisticsType.rmse
        if name == "pose_relation":
            return r.choice([metrics.PoseRelation.translation_part, metrics.PoseRelation.rotation_part,
                             metrics.PoseRelation.full_transformation, metrics.PoseRelation.rotation_angle_rad])
        if name == "plane":
            return Plane.XY
        if name in ("start_timestamp", "end_timestamp") and not fname.startswith("evo.tools.plot."):
            return None
        if name == "df":
            from evo.tools import pandas_bridge
            df = pandas_bridge.trajectory_to_df(self.traj(True))
            how = r.random()
            if how < 0.35:
                return df.iloc[::-1]              # descending index (rows reversed): a legal frame, must come back unchanged
            if how < 0.6 and len(df) > 2:
                import pandas as pd
                return pd.concat([df.iloc[len(df) // 2:], df.iloc[:len(df) // 2]])     # two segments concatenated out of order
            return df
        if name == "confirm_overwrite":
            return False
        if fname.startswith("evo.tools.plot."):
            import matplotlib.pyplot as plt
            from evo.tools import plot
            if name == "plot_mode":
                return r.choice(list(plot.PlotMode))
            if name == "ax":
                return plt.figure().add_subplot(111)     # replaced by prepare_axis(fig, plot_mode) when a mode is given
            if name == "axarr":
                return plt.subplots(3)[1]
            if name in ("fig_or_ax", "fig"):
                return plt.figure()
            if name == "start_timestamp":
                return r.choice([None, 0.5, 100.0, 1.5e9])
            if name == "err_array":
                return np.array([r.uniform(0, 2) for _ in range(9)])
            if name == "x_array":
                return r.choice([None, np.linspace(10.0, 11.0, 9)])
            if name == "statistics":
                return r.choice([None, {"rmse": 1.0, "mean": 0.8, "std": 0.2}])
            if name == "threshold":
                return r.choice([None, 1.0])
            if name == "marker":
                return r.choice([None, "o"])
            if name == "colors":
                return [(0.1, 0.2, 0.3, 1.0)] * 4
            if name == "length_unit":
                from evo.core import units
                return r.choice([units.Unit.meters, units.Unit.kilometers])
            if name in ("min_map",):
                return 0.0
            if name in ("max_map",):
                return 1.0
            if name == "marker_scale":
                return r.choice([0.1, 0.5])
            if name == "title" or name == "dest":
                return "t" if name == "title" else self.path(".pickle")
            if name == "deserialize":
                return None
            if name == "trajectories":
                k = r.randint(0, 2)
                return self.traj(True) if k == 0 else [self.traj(True), self.traj(False)] if k == 1 else {"a": self.traj(True), "b": self.traj(True)}
            if name == "file_path":
                return self.path(".pdf")
        if isinstance(default, bool) and default is not inspect.Parameter.empty:
            return r.random() < 0.5      # non-default options too
        if name == "format_str":
            return "csv"
        if name == "path":
            return self.path(".csv")
        if name in ("file_path", "zip_path", "json_path"):
            return self.file_for(fname)
        if name == "result_files":
            from evo.tools import file_interface
            p = self.path(".zip")
            file_interface.save_res_file(p, self.result())
            return [p]
        if name == "writer":
            from rosbags.rosbag1 import Writer
            w = Writer(self.path(".bag"))
            w.open()
            self.open_handles.append(w)
            return w
        if name == "reader":
            from rosbags.rosbag1 import Writer, Reader
            from evo.tools import file_interface as fi
            p = self.path(".bag")
            w = Writer(p)
            w.open()
            fi.write_bag_trajectory(w, self.traj(True), "/traj", "map")
            w.close()
            rd = Reader(p)
            rd.open()
            self.open_handles.append(rd)
            return rd
        if name == "topic":
            return "/traj"
        if default is not inspect.Parameter.empty:
            return default
        raise Skip(f"no factory for parameter {name!r} ({a})")

    def file_for(self, fname):
        from evo.tools import file_interface as fi
        import json
        short = fname.rsplit(".", 1)[-1]
        if short.startswith("write_tum") or short.startswith("write_kitti"):
            return self.path(".txt")
        if short == "save_res_file":
            return self.path(".zip")
        if short == "read_tum_trajectory_file" or short in ("csv_read_matrix", "has_utf8_bom"):
            p = self.path(".txt")
            fi.write_tum_trajectory_file(p, self.traj(True))
            return p
        if short == "read_kitti_poses_file":
            p = self.path(".txt")
            fi.write_kitti_poses_file(p, self.traj(False))
            return p
        if short == "read_euroc_csv_trajectory":
            p = self.path(".csv")
            with open(p, "w") as f:
                f.write("#timestamp,px,py,pz,qw,qx,qy,qz\n")
                for k in range(4):
                    f.write(f"{1403636579763555584 + k * 5000000},{k}.0,1.0,2.0,1.0,0.0,0.0,0.0\n")
            return p
        if short == "load_res_file":
            p = self.path(".zip")
            fi.save_res_file(p, self.result())
            return p
        if short in ("load_transform", "load_transform_json"):
            p = self.path(".json")
            with open(p, "w") as f:
                json.dump({"x": 1.0, "y": 2.0, "z": 3.0, "qx": 0.0, "qy": 0.0, "qz": 0.0, "qw": 1.0, "scale": 2.0}, f)
            return p
        raise Skip(f"no file factory for {fname}")


def receiver_for(cls, fac):
    from evo.core import metrics
    from evo.core.result import Result
    n = cls.__name__
    if n == "PoseTrajectory3D":
        return fac.traj(True)
    if n == "PosePath3D":
        return fac.traj(False)
    if n == "Result":
        return fac.result()
    if n == "PlotCollection":
        import matplotlib.pyplot as plt
        pc = cls("t")
        fig = plt.figure()
        fig.add_subplot(111).plot([0, 1], [0, 1])
        pc.add_figure("f", fig)
        return pc
    if n in ("APE", "RPE", "PE", "Metric"):
        # methods defined on the abstract bases are exercised through a concrete metric
        k = cls if n in ("APE", "RPE") else fac.r.choice([metrics.APE, metrics.RPE])
        rel = fac.r.choice([metrics.PoseRelation.translation_part, metrics.PoseRelation.rotation_part,
                            metrics.PoseRelation.full_transformation, metrics.PoseRelation.rotation_angle_rad,
                            metrics.PoseRelation.rotation_angle_deg, metrics.PoseRelation.point_distance])
        m = k(rel)
        m.process_data(fac.pair())
        return m
    raise Skip(f"no receiver for class {n}")


def callables():
    import importlib
    out = []
    for mn in MODULES:
        m = importlib.import_module(mn)
        for name, f in sorted(vars(m).items()):
            if name.startswith("_"):
                continue
            if inspect.isfunction(f) and f.__module__ == mn:
                out.append((f"{mn}.{name}", None, f))
            elif inspect.isclass(f) and f.__module__ == mn and not issubclass(f, (Exception,)) and not hasattr(f, "__members__"):
                for n2, g in sorted(vars(f).items()):
                    if n2.startswith("_") and n2 != "__init__":
                        continue
                    if isinstance(g, staticmethod):
                        out.append((f"{mn}.{f.__name__}.{n2}", None, g.__func__))
                    elif inspect.isfunction(g):
                        out.append((f"{mn}.{f.__name__}.{n2}", f, g))
                    elif isinstance(g, property):
                        out.append((f"{mn}.{f.__name__}.{n2}", f, g))
    return out


def frame_case(ctx, qual, cls, fn, variant, tmp):
    """returns (status, detail)"""
    rng = random.Random(f"{ctx.seed}/{qual}/{variant}")
    fac = Factory(rng, tmp, size={0: 1, 1: 2}.get(variant))     # variants 0 and 1: one-pose and two-pose trajectories
    recv = None
    if isinstance(fn, property):
        recv = receiver_for(cls, fac)
        args = {}
        call = lambda: fn.fget(recv)   # noqa: E731
        check_recv = True
    else:
        sig = inspect.signature(fn)
        params = list(sig.parameters.values())
        if cls is not None:
            if fn.__name__ == "__init__":
                if inspect.isabstract(cls):
                    raise Skip("abstract class")
                recv = cls.__new__(cls)
            else:
                recv = receiver_for(cls, fac)
            params = params[1:]
        args = {}
        for p in params:
            if p.kind in (p.VAR_POSITIONAL, p.VAR_KEYWORD):
                continue
            args[p.name] = fac.by_name(qual, p.name, p.annotation, p.default)
        if qual.endswith("PosePath3D.__init__") or qual.endswith("PoseTrajectory3D.__init__"):
            if variant % 2:
                args.update(positions_xyz=None, orientations_quat_wxyz=None, poses_se3=fac.poses(4))
        if qual.endswith("reduce_to_ids"):
            args["ids"] = [0]
        if "traj_1" in args and "traj_2" in args:
            args["traj_1"], args["traj_2"] = fac.pair()
        if qual.endswith(".align") or qual.endswith(".align_origin"):
            from evo.core.trajectory import PosePath3D
            c = copy.deepcopy(recv)
            args["traj_ref"] = PosePath3D(positions_xyz=np.array(c.positions_xyz) * 1.5 + np.array([[rng.gauss(0, 0.05) for _ in range(3)]
                                          for _ in range(c.num_poses)]), orientations_quat_wxyz=np.array(c.orientations_quat_wxyz))
        if qual.endswith(".transform"):
            args["t"] = fac.se3()
            if variant % 3 == 1:
                args["t"][:3, :3] *= 2.0          # a Sim(3) matrix (scale 2): the caller's matrix must come back unchanged
            elif variant % 3 == 2:
                args["t"] = np.asfortranarray(args["t"])
        if qual.startswith("evo.tools.plot."):
            from evo.tools import plot
            import matplotlib.pyplot as plt
            if "ax" in args and "plot_mode" in args:
                args["ax"] = plot.prepare_axis(plt.figure(), args["plot_mode"])
            if qual.endswith("traj_colormap"):
                args["array"] = np.linspace(0.0, 1.0, args["traj"].num_poses)
                if variant % 3 == 2 and args["traj"].num_poses >= 2:
                    args["array"][-1] = float("nan")          # non-finite error values (a failed pair): the caller's array stays as it is
                    args["array"][0] = float("inf")
                    args["min_map"], args["max_map"] = 0.0, 1.0
            if qual.endswith("draw_correspondence_edges"):
                args["traj_1"], args["traj_2"] = fac.pair()
            if qual.endswith("colored_line_collection"):
                args["colors"] = [(0.1, 0.2, 0.3, 1.0)] * (len(args["xyz"]) - 1)
        if qual.endswith("ape_base"):
            args["x_t"], args["x_t_star"] = fac.se3(), fac.se3()
        check_recv = cls is not None and fn.__name__ not in MUTATORS
        if cls is not None:
            call = lambda: fn(recv, **args)   # noqa: E731
        else:
            call = lambda: fn(**args)   # noqa: E731
    try:
        before = {k: deep_snap(v) for k, v in args.items()}
        before_recv = deep_snap(recv) if check_recv else None
        status = "returned"
        result = None
        try:
            with warnings.catch_warnings():
                warnings.simplefilter("ignore")
                stdout = sys.stdout
                sys.stdout = io.StringIO()
                try:
                    result = call()
                finally:
                    sys.stdout = stdout
        except Exception as e:  # noqa: BLE001
            status = "raised:" + type(e).__name__
        if qual.startswith("evo.tools.plot."):
            import matplotlib.pyplot as plt
            plt.close("all")
        for hd in fac.open_handles:
            try:
                hd.close()
            except Exception:  # noqa: BLE001
                pass
        changed = [k for k, v in args.items() if deep_snap(v) != before[k]]
        if check_recv and deep_snap(recv) != before_recv:
            changed.append("self")
        # ---- derived objects must be independent of their sources (generic over the object graph)
        shared, touched = [], []
        short = qual.rsplit(".", 1)[-1]
        roots = [("result", result)]
        if cls is not None and not isinstance(fn, property) and short in MUTATORS and short not in BYREF:
            roots.append(("self", recv))          # the receiver has been operated on with these arguments: it is derived from them
        for rname, root in roots:
            if root is None or short in BYREF:
                continue
            d_arr, d_obj = graph_of(root)
            if not d_arr:
                continue
            sources = [(k, v) for k, v in args.items()]
            # the receiver is a source of the *result* only when the result is object-valued (trajectories, Results): plain
            # arrays / lists returned by accessors (positions_xyz, poses_se3, …) are views of the receiver by design
            if rname == "result" and recv is not None and d_obj and short not in BYREF_RECV:
                sources.append(("self", recv))
            src = []
            for k, v in sources:
                a, _ = graph_of(v)
                if a:
                    src.append((k, v, a))
            for k, v, a in src:
                if any(x is y or np.shares_memory(x, y) for x in d_arr for y in a):
                    shared.append(f"{rname}<-{k}")
            if not src:
                continue
            post = {k: deep_snap(v) for k, v, _ in src}
            mutate_in_place(root)
            for k, v, _ in src:
                if deep_snap(v) != post[k]:
                    touched.append(f"{rname}<-{k}")
        return status, changed, shared, touched, args
    except Exception as e:  # noqa: BLE001
        raise PostCall(f"{type(e).__name__}: {str(e)[:120]}")


def run_frames(ctx):
    tmp = tempfile.mkdtemp(prefix="evo_c16_")
    variants = 20 if ctx.thorough else 6
    uncovered, covered, raised, why = {}, 0, {}, {}
    for qual, cls, fn in callables():
        if qual in EXCLUDED:
            uncovered[qual] = "excluded: " + EXCLUDED[qual]
            continue
        ok_any = False
        for v in range(variants):
            case = {"part": "B", "callable": qual, "variant": v}
            try:
                status, changed, shared, touched, args = frame_case(ctx, qual, cls, fn, v, tmp)
            except PostCall as e:
                ctx.fail(case, "object-unusable", f"{qual}: snapshots / independence check after the call raised {e}",
                         {"callable": qual.rsplit(".", 1)[-1]})
                continue
            except Skip as e:
                why[qual] = str(e)
                if v >= 2:
                    break
                continue          # the size-boundary variants may be impossible for this callable (e.g. RPE on one pose)
            except Exception as e:  # noqa: BLE001   (argument synthesis failed)
                why[qual] = f"argument synthesis failed: {type(e).__name__}: {str(e)[:80]}"
                if v >= 2:
                    break
                continue
            ok_any = True
            ctx.count("dist", "frame:" + ("returned" if status == "returned" else "raised"))
            if status != "returned":
                raised.setdefault(qual, status)
            short = qual.rsplit(".", 1)[-1]
            if changed:
                ctx.fail(case, "argument-modified", f"{qual} modified its argument(s) {changed} ({status})",
                         {"callable": short})
            if shared:
                ctx.fail(case, "derived-shares-memory", f"{qual}: the derived object shares arrays with its source(s) {shared}",
                         {"callable": short})
            if touched:
                ctx.fail(case, "source-changed-by-mutating-derived", f"{qual}: in-place operations (project, writes through every "
                         f"array) on the derived object changed {touched}", {"callable": short})
            ctx.record(case, status == "returned")
        if ok_any:
            covered += 1
        elif qual in why:
            uncovered[qual] = why[qual]
    import shutil
    shutil.rmtree(tmp, ignore_errors=True)
    ctx.notes["frame_callables_covered"] = covered
    ctx.notes["uncovered"] = uncovered
    ctx.notes["raised_on_some_variant"] = raised


def replay_frame(ctx, case):
    tmp = tempfile.mkdtemp(prefix="evo_c16_")
    for qual, cls, fn in callables():
        if qual == case["callable"]:
            status, changed, shared, touched, _ = frame_case(ctx, qual, cls, fn, case["variant"], tmp)
            short = qual.rsplit(".", 1)[-1]
            if changed:
                ctx.fail(case, "argument-modified", f"{qual} modified its argument(s) {changed} ({status})", {"callable": short})
            if shared:
                ctx.fail(case, "derived-shares-memory", f"{qual}: the derived object shares arrays with its source(s) {shared}", {"callable": short})
            if touched:
                ctx.fail(case, "source-changed-by-mutating-derived", f"{qual}: in-place operations on the derived object changed {touched}",
                         {"callable": short})


# ----------------------------------------------------------------------------- driver
def evaluate(ctx, cases):
    impls, lines, idx = [], [], []
    for j, c in enumerate(cases):
        if c.get("part") == "B":
            replay_frame(ctx, c)
            impls.append(None)
            continue
        try:
            im = run_scenario(c)
        except Exception as e:  # noqa: BLE001   (a finding about this case, never a tool error of the whole run)
            im = None
            ctx.fail(c, "object-unusable", f"{c['deriv']}: deriving / mutating / re-reading raised {type(e).__name__}: {str(e)[:120]}",
                     {"deriv": c["deriv"]})
        impls.append(im)
        if im is not None:
            idx.append(j)
            lines.append(scenario_line(c, im))
    outs = core.run_driver(lines, prop="C16") if lines else []
    om = dict(zip(idx, outs))
    for j, c in enumerate(cases):
        if c.get("part") == "B":
            continue
        try:
            judge_scenario(ctx, c, impls[j], om.get(j, ""))
        except Exception as e:  # noqa: BLE001
            ctx.mismatch(c, f"comparison with the heap model raised {type(e).__name__}: {str(e)[:120]}")


def shrink(case):
    if case.get("part") != "A":
        return
    ops = case["ops"]
    for i in range(len(ops)):
        if len(ops) > 1:
            yield dict(case, ops=ops[:i] + ops[i + 1:])
    for i in range(len(case["pre"])):
        yield dict(case, pre=case["pre"][:i] + case["pre"][i + 1:])


def check(ctx):
    lean = core.lean_side(ctx.prop, ctx.tier)
    core.drift(ctx, MODELLED)
    cases = list(gen_scenarios(ctx))
    evaluate(ctx, cases)
    run_frames(ctx)
    core.shrink_all(ctx, shrink, evaluate, budget=60)
    return core.finish(
        ctx, lean, rule=RULE,
        open_clauses=[
            "frame condition of the public computing/writing functions (metrics, sync, filters, geometry, merge_results, file writers, "
            "pandas bridge, …): snapshot differential on synthesised arguments, not a theorem; callables whose arguments could not be "
            "synthesised are listed in notes.uncovered (GUI entry points of PlotCollection, map tiles, ROS map)",
            "the heap model abstracts Python list objects away (no code path mutates a pose list in place); its allocation behaviour "
            "per method is tied to evo by comparing array identity / numpy.shares_memory after every call",
            "objects handed out by reference (traj.positions_xyz returns the internal array; PosePath3D(poses_se3=lst) keeps lst) are "
            "outside the property: only objects derived by copy / associate / split / merge are claimed independent"],
        assumptions=["the source object is not mutated concurrently", "numpy fancy indexing and arithmetic allocate new arrays"])


def replay(ctx, data):
    core.sh("lake build drv_C16", cwd=core.LEAN)
    evaluate(ctx, [data["case"]])
    return core.finish_replay(ctx)
