"""C17 — existing output files are never overwritten without confirmation.
Model: lean/EvoModel/Model/Overwrite.lean; tables regenerated from the AST of /repo:
lean/EvoModel/Gen/Writers.lean (harness/translate/writers.py).
Correspondence, exhaustive over the finite space: every writer function x {str, pathlib.Path} x
{target exists, absent} x {confirm_overwrite on, off} x answers {y, n, '', Y, yes}; every output option
of evo_ape / evo_rpe / evo_traj / evo_res and `evo_config generate -o`, run in-process in an isolated
cwd, x {exists, absent} x answers x {--no_warnings on, off}; split-figure exports with patterns of
existing figure files and answer sequences.  Observed: bytes of every pre-existing file before/after,
number of prompts (scripted builtins.input), files created.  Oracle: the property sentence."""
import contextlib
import io
import os
import shutil
import sys
import tempfile
from pathlib import Path

import core

for _v in ("OPENBLAS_NUM_THREADS", "OMP_NUM_THREADS", "MKL_NUM_THREADS"):   # tiny matrices: BLAS threads only cost wall time
    os.environ.setdefault(_v, "1")

sys.path.insert(0, str(Path(__file__).resolve().parent.parent / "translate"))
import writers as writers_T  # noqa: E402

MODELLED = ['evo/tools/user.py:confirm',
            'evo/tools/user.py:check_and_confirm_overwrite',
            'evo/tools/file_interface.py:write_tum_trajectory_file',
            'evo/tools/file_interface.py:write_kitti_poses_file',
            'evo/tools/file_interface.py:save_res_file',
            'evo/tools/pandas_bridge.py:save_df_as_table',
            'evo/tools/plot.py:PlotCollection.serialize',
            'evo/tools/plot.py:PlotCollection.export',
            'evo/main_ape.py:run',
            'evo/main_rpe.py:run',
            'evo/main_traj.py:run',
            'evo/main_res.py:run',
            'evo/common_ape_rpe.py:plot_result',
            'evo/main_config.py:main']

RULE = ("cases = fn(writer, pathkind, exists, confirm, answer) for the 6 writer functions (export both as single PDF and as "
        "split figures) — the full product; cli(command, option, exists, no_warnings, answer) for the 21 output options "
        "— the full product in the thorough tier, in the quick tier all options x {declined, accepted, disabled, absent} "
        "plus a seeded sample of the rest; multi(command, pattern of existing figure files, answer sequence). "
        "Compared exactly with the model: prompted / written per target file. non-trivial = the target existed")

ANSWERS = ["y", "n", "", "Y", "yes"]
SENTINEL = b"SENTINEL-user-data-that-must-survive\n"


# ----------------------------------------------------------------------------- environment
class Env:
    def __init__(self):
        self.cwd0 = os.getcwd()
        self.dir = tempfile.mkdtemp(prefix="evo_c17_")
        os.chdir(self.dir)
        import matplotlib
        matplotlib.rcParams["savefig.dpi"] = 12
        matplotlib.rcParams["figure.dpi"] = 12
        import numpy as np
        n = 24
        for name, off in (("a.txt", 0.0), ("b.txt", 0.01), ("c.txt", 0.03)):
            with open(name, "w") as f:
                for i in range(n):
                    f.write(f"{i * 0.1} {i * 0.1 + off} {float(np.sin(i * 0.2))} {off} 0 0 0 1\n")
        for name, off, m in (("d.txt", 0.0, 60), ("e.txt", 0.02, 60), ("s.txt", 0.0, 6), ("u.txt", 0.05, 6)):
            with open(name, "w") as f:
                for i in range(m):
                    f.write(f"{i * 0.1} {i * 0.1 + off} {float(np.cos(i * 0.3))} {off} 0 0 0 1\n")
        from evo import main_ape, main_ape_parser
        self.quiet(lambda: main_ape.run(main_ape_parser.parser().parse_args(["tum", "a.txt", "b.txt", "--save_results", "r1.zip"])))
        self.quiet(lambda: main_ape.run(main_ape_parser.parser().parse_args(["tum", "a.txt", "c.txt", "--save_results", "r2.zip"])))
        # a result with a *different title* (rotation angle instead of translation part): evo_res then asks "Go on anyway?"
        self.quiet(lambda: main_ape.run(main_ape_parser.parser().parse_args(
            ["tum", "a.txt", "c.txt", "-r", "angle_deg", "--save_results", "r3.zip"])))
        self.inputs = {p: Path(p).read_bytes() for p in ("a.txt", "b.txt", "c.txt", "d.txt", "e.txt", "s.txt", "u.txt",
                                                          "r1.zip", "r2.zip", "r3.zip")}

    def quiet(self, fn, answers=(), other_answers=()):
        """run fn with stdout/stderr captured and input() scripted by the *text* of the prompt: overwrite questions
        get `answers`, every other question (evo_res title mismatch, …) gets `other_answers`;
        returns (number of overwrite questions, exception); self.other_prompts = texts of the other questions"""
        import builtins
        import logging
        answers, other_answers = list(answers), list(other_answers)
        state = {"n": 0, "o": 0}
        self.other_prompts = []

        def fake_input(*a):
            msg = str(a[0]) if a else ""
            if "overwrite" not in msg:
                self.other_prompts.append(msg.strip()[:60])
                k = state["o"]
                state["o"] += 1
                return other_answers[k] if k < len(other_answers) else (other_answers[-1] if other_answers else "n")
            k = state["n"]
            state["n"] += 1
            return answers[k] if k < len(answers) else (answers[-1] if answers else "n")
        real = builtins.input
        builtins.input = fake_input
        exc = None
        buf = io.StringIO()
        try:
            with contextlib.redirect_stdout(buf), contextlib.redirect_stderr(buf):
                try:
                    fn()
                except SystemExit as e:
                    exc = None if e.code in (None, 0) else f"SystemExit({e.code})"
                except Exception as e:  # noqa
                    exc = type(e).__name__ + ": " + str(e)[:120]
        finally:
            builtins.input = real
            for h in list(logging.getLogger("evo").handlers):
                if not isinstance(h, logging.NullHandler):
                    logging.getLogger("evo").removeHandler(h)
            import matplotlib.pyplot as plt
            plt.close("all")
        return state["n"], exc

    def snapshot(self):
        return {p.name: p.read_bytes() for p in Path(self.dir).iterdir() if p.is_file()}

    def reset(self):
        for p in Path(self.dir).iterdir():
            if p.name not in self.inputs:
                if p.is_dir():
                    shutil.rmtree(p)
                else:
                    p.unlink()
        for k, v in self.inputs.items():
            if not Path(k).exists() or Path(k).read_bytes() != v:
                Path(k).write_bytes(v)

    def close(self):
        os.chdir(self.cwd0)
        shutil.rmtree(self.dir, ignore_errors=True)


_ENV = None
_OBJ = {}


def env():
    global _ENV
    if _ENV is None:
        _ENV = Env()
    return _ENV


def objects():
    """arguments for the writer functions"""
    if not _OBJ:
        from evo.tools import file_interface, pandas_bridge, plot
        from evo.core import metrics
        from evo import main_ape
        import matplotlib.pyplot as plt
        traj = file_interface.read_tum_trajectory_file("a.txt")
        traj2 = file_interface.read_tum_trajectory_file("b.txt")
        res = main_ape.ape(traj, traj2, pose_relation=metrics.PoseRelation.translation_part)
        df = pandas_bridge.trajectories_stats_to_df({"a": traj, "b": traj2})

        def plots(alt=False):
            pc = plot.PlotCollection("t")
            for nm in ("one", "two", "three"):
                fig = plt.figure(figsize=(1, 1))
                fig.gca().plot([0, 1], [0, 1] if not alt else [1, 0])
                pc.add_figure(nm, fig)
            return pc
        res_alt = main_ape.ape(traj, traj2, pose_relation=metrics.PoseRelation.rotation_angle_deg)
        df_alt = pandas_bridge.trajectories_stats_to_df({"b": traj2})
        _OBJ.update(traj=traj, res=res, df=df, plots=plots, traj_alt=traj2, res_alt=res_alt, df_alt=df_alt)
        for tag, f1, f2, npts in (("long", "d.txt", "e.txt", 400), ("short", "s.txt", "u.txt", 2)):
            t1, t2 = file_interface.read_tum_trajectory_file(f1), file_interface.read_tum_trajectory_file(f2)

            def mk(npts=npts):
                pc = plot.PlotCollection("t")
                for nm in ("one", "two", "three"):
                    fig = plt.figure(figsize=(1, 1))
                    fig.gca().plot(list(range(npts)), [((7 * k) % 5) for k in range(npts)])
                    pc.add_figure(nm, fig)
                return pc
            _OBJ[tag] = dict(traj=t1, res=main_ape.ape(t1, t2, pose_relation=metrics.PoseRelation.full_transformation),
                             df=pandas_bridge.trajectories_stats_to_df({"p": t1, "q": t2} if tag == "long" else {"p": t1}), plots=mk)
    return _OBJ


# writer function cases: name -> (table name in Gen/Writers, target file(s), call)
FN_WRITERS = ["write_tum_trajectory_file", "write_kitti_poses_file", "save_res_file", "save_df_as_table",
              "serialize", "export_pdf", "export_split"]

# CLI output options: id -> (command, argv builder, module file of the call site, writer, targets)
CLI = {
    "ape:save_results": ("ape", ["tum", "a.txt", "b.txt", "--save_results", "out.zip"], "evo/main_ape.py", "save_res_file", ["out.zip"]),
    "ape:save_plot_pdf": ("ape", ["tum", "a.txt", "b.txt", "--save_plot", "out.pdf"], "evo/common_ape_rpe.py", "export", ["out.pdf"]),
    "ape:save_plot_png": ("ape", ["tum", "a.txt", "b.txt", "--save_plot", "out.png"], "evo/common_ape_rpe.py", "export", None),
    "ape:serialize_plot": ("ape", ["tum", "a.txt", "b.txt", "--serialize_plot", "out.ser"], "evo/common_ape_rpe.py", "serialize", ["out.ser"]),
    "rpe:save_results": ("rpe", ["tum", "a.txt", "b.txt", "--save_results", "out.zip"], "evo/main_rpe.py", "save_res_file", ["out.zip"]),
    "rpe:save_plot_pdf": ("rpe", ["tum", "a.txt", "b.txt", "--save_plot", "out.pdf"], "evo/common_ape_rpe.py", "export", ["out.pdf"]),
    "rpe:save_plot_png": ("rpe", ["tum", "a.txt", "b.txt", "--save_plot", "out.png"], "evo/common_ape_rpe.py", "export", None),
    "rpe:serialize_plot": ("rpe", ["tum", "a.txt", "b.txt", "--serialize_plot", "out.ser"], "evo/common_ape_rpe.py", "serialize", ["out.ser"]),
    "traj:save_as_tum": ("traj", ["tum", "a.txt", "--save_as_tum"], "evo/main_traj.py", "write_tum_trajectory_file", ["a.tum"]),
    "traj:save_as_tum_ref": ("traj", ["tum", "a.txt", "--ref", "b.txt", "--save_as_tum"], "evo/main_traj.py", "write_tum_trajectory_file", ["a.tum", "b.tum"]),
    "traj:save_as_kitti": ("traj", ["tum", "a.txt", "--save_as_kitti"], "evo/main_traj.py", "write_kitti_poses_file", ["a.kitti"]),
    "traj:save_as_kitti_ref": ("traj", ["tum", "a.txt", "--ref", "b.txt", "--save_as_kitti"], "evo/main_traj.py", "write_kitti_poses_file", ["a.kitti", "b.kitti"]),
    "traj:save_table": ("traj", ["tum", "a.txt", "b.txt", "--save_table", "out.csv"], "evo/main_traj.py", "save_df_as_table", ["out.csv"]),
    "traj:save_plot_pdf": ("traj", ["tum", "a.txt", "--save_plot", "out.pdf"], "evo/main_traj.py", "export", ["out.pdf"]),
    "traj:save_plot_png": ("traj", ["tum", "a.txt", "--save_plot", "out.png"], "evo/main_traj.py", "export", None),
    "traj:serialize_plot": ("traj", ["tum", "a.txt", "--serialize_plot", "out.ser"], "evo/main_traj.py", "serialize", ["out.ser"]),
    "res:save_table": ("res", ["r1.zip", "r2.zip", "--save_table", "out.csv"], "evo/main_res.py", "save_df_as_table", ["out.csv"]),
    "res:save_plot_pdf": ("res", ["r1.zip", "r2.zip", "--save_plot", "out.pdf"], "evo/main_res.py", "export", ["out.pdf"]),
    "res:save_plot_png": ("res", ["r1.zip", "r2.zip", "--save_plot", "out.png"], "evo/main_res.py", "export", None),
    "res:serialize_plot": ("res", ["r1.zip", "r2.zip", "--serialize_plot", "out.ser"], "evo/main_res.py", "serialize", ["out.ser"]),
    # results with different titles: the title question precedes the writes (answered through other_answers)
    "res2:save_table": ("res", ["r1.zip", "r3.zip", "--save_table", "out.csv"], "evo/main_res.py", "save_df_as_table", ["out.csv"]),
    "res2:save_plot_pdf": ("res", ["r1.zip", "r3.zip", "--save_plot", "out.pdf"], "evo/main_res.py", "export", ["out.pdf"]),
    "res2:save_plot_png": ("res", ["r1.zip", "r3.zip", "--save_plot", "out.png"], "evo/main_res.py", "export", None),
    "res2:serialize_plot": ("res", ["r1.zip", "r3.zip", "--serialize_plot", "out.ser"], "evo/main_res.py", "serialize", ["out.ser"]),
    "ape:save_results_dot": ("ape", ["tum", "a.txt", "b.txt", "--save_results", "./out.zip"], "evo/main_ape.py", "save_res_file", ["out.zip"]),
    "traj:save_table_updir": ("traj", ["tum", "a.txt", "b.txt", "--save_table", "sub/../out.csv"], "evo/main_traj.py", "save_df_as_table", ["out.csv"]),
    "config:generate_out": ("config", ["generate", "--align", "--plot_mode", "xz", "--downsample", "500", "-o", "out.json"],
                            "evo/main_config.py", "<generate>", ["out.json"]),
    "config:generate_out_noext": ("config", ["generate", "--align", "--n_to_align", "-1", "-o", "my_config"],
                                  "evo/main_config.py", "<generate>", ["my_config"]),
}
_FIGS = {}


def run_cli(e, cid, no_warnings, answers, other_answers=("y",)):
    cmd, argv = CLI[cid][0], list(CLI[cid][1])
    if no_warnings and cmd != "config":
        argv.append("--no_warnings")
    figs = []
    from evo.tools import plot
    real_export = plot.PlotCollection.export

    def spy_export(self, *a, **k):
        figs.extend(self.figures.keys())
        return real_export(self, *a, **k)
    plot.PlotCollection.export = spy_export
    try:
        if cmd == "config":
            from evo import main_config

            def go():
                sys.argv = ["evo_config"] + argv
                main_config.main()
        else:
            import importlib
            mod = importlib.import_module(f"evo.main_{cmd}")
            par = importlib.import_module(f"evo.main_{cmd}_parser")

            def go():
                mod.run(par.parser().parse_args(argv))
        prompts, exc = e.quiet(go, answers, other_answers)
    finally:
        plot.PlotCollection.export = real_export
    return prompts, exc, figs


SUBST = {"long": {"a.txt": "d.txt", "b.txt": "e.txt", "c.txt": "e.txt", "r2.zip": "r3.zip", "r3.zip": "r2.zip"},
         "short": {"a.txt": "s.txt", "b.txt": "u.txt", "c.txt": "u.txt", "r2.zip": "r3.zip", "r3.zip": "r2.zip"}}


def prerun(e, cid, variant, targets):
    """pre-existing targets = the earlier output of the same command from other (longer / shorter) data"""
    cmd, argv = CLI[cid][0], [SUBST[variant].get(a, a) for a in CLI[cid][1]]
    had = set(e.snapshot())
    saved = CLI[cid]
    CLI[cid] = (cmd, argv) + tuple(saved[2:])
    try:
        run_cli(e, cid, True, [])
    finally:
        CLI[cid] = saved
    new = sorted(set(e.snapshot()) - had)
    for src, dst in zip(new, sorted(targets)):
        if src != dst:
            os.replace(src, dst)
    for t in targets:
        if not Path(t).exists():
            Path(t).write_bytes(SENTINEL)


def figure_files(e, cid):
    """names of the split-figure files of a --save_plot x.png run, in export order (learned by a dry run)"""
    if cid not in _FIGS:
        e.reset()
        prompts, exc, figs = run_cli(e, cid, True, [])
        if exc:
            raise core.ToolError(f"dry run of {cid} failed: {exc}")
        _FIGS[cid] = [f"out_{n}.png" for n in figs]
        e.reset()
    return _FIGS[cid]


# ----------------------------------------------------------------------------- cases
def gen_cases(ctx):
    r = ctx.rng
    for w in FN_WRITERS:
        for pk in ("str", "path"):
            for ex in (0, 1):
                for cf in (0, 1):
                    for a in ANSWERS:
                        if w == "export_split" or (not ctx.thorough and w in ("export_pdf", "serialize") and a in ("Y", "yes")):
                            continue
                        yield {"kind": "fn", "writer": w, "pk": pk, "exists": ex, "confirm": cf, "answer": a}
    # answers that are not exactly 'y' but look like consent (padded, "all", carriage return): declined, for existing str targets
    for w in FN_WRITERS:
        if w == "export_split":
            continue
        for a in (" y", "y ", "y\r", "\ty", "a", "A", "all", "yy", "y\n", "Yes"):
            yield {"kind": "fn", "writer": w, "pk": "str", "exists": 1, "confirm": 1, "answer": a}
    # L7/L10: the same target under other spellings / awkward names; L1/L2: a second call meets the writer's own output
    for w in FN_WRITERS:
        if w == "export_split":
            continue
        for sp in ("dot", "updir", "abs", "space", "unicode", "looks-like-number"):
            for pk in ("str", "path"):
                for a in ("n", "y"):
                    if (sp in ("space", "unicode", "looks-like-number") and pk == "path") or (w in ("serialize", "export_pdf") and pk == "path"):
                        continue
                    yield {"kind": "fn", "writer": w, "pk": pk, "exists": 1, "confirm": 1, "answer": a, "spell": sp}
        for a in ("n", "y", ""):
            yield {"kind": "fn", "writer": w, "pk": "str", "exists": 1, "confirm": 1, "answer": a, "prewrite": "self"}
    for w in ("write_tum_trajectory_file", "write_kitti_poses_file", "save_res_file"):
        yield {"kind": "fn-handle", "writer": w, "answer": "n"}
    # pre-existing targets of size 0 and 1, and the same writer's earlier output from longer / shorter data
    for w in FN_WRITERS:
        if w == "export_split":
            continue
        for pre in ("empty", "one", "long", "short"):
            for cf, a in ((1, "y"), (1, "n"), (0, "n")):
                yield {"kind": "fn", "writer": w, "pk": "str", "exists": 1, "confirm": cf, "answer": a, "pre": pre}
    # L9: several outputs in one call, every pattern of existing targets x every y/decline assignment, argv order shuffled
    import itertools
    for cid, (_, _, spec) in COMBOS.items():
        k = len(spec)
        for exists in itertools.product((0, 1), repeat=k):
            for ans in itertools.product(("y", "N"), repeat=sum(exists)):
                order = list(range(k))
                r.shuffle(order)
                answers = [a if a == "y" else r.choice(["n", "", "Y", "yes", "a", "all", " y"]) for a in ans]     # ("a": no sticky consent)
                yield {"kind": "cli-combo", "combo": cid, "exists": list(exists), "answers": answers, "order": order, "no_warnings": 0}
        yield {"kind": "cli-combo", "combo": cid, "exists": [1] * k, "answers": ["n"], "order": list(range(k))[::-1], "no_warnings": 1}
    # split export through the function: patterns of existing files x answer sequences
    pats = [[0, 0, 0], [1, 1, 1], [0, 1, 0], [1, 0, 1], [0, 0, 1], [1, 1, 0]]
    seqs = [["y", "y", "y"], ["n"], ["y", "n"], ["y", "y", "n"], ["Y"], ["yes", "y"], ["", "y"], ["y", "", "y"]]
    for pk in ("str", "path"):
        for cf in (0, 1):
            for p in pats:
                for s in ((seqs if (ctx.thorough or pk == "str") else seqs[1:2]) if cf else [["n"]]):
                    if not ctx.thorough and cf and pk == "str" and (pats.index(p) + seqs.index(s)) % 2:
                        continue        # quick: half of the product (checkerboard), thorough: all of it
                    yield {"kind": "fn-multi", "pk": pk, "confirm": cf, "pattern": p, "answers": s}
    single = [c for c in CLI if CLI[c][4] is not None]
    multi = [c for c in CLI if CLI[c][4] is None]
    full = []
    for cid in single:
        for ex in (0, 1):
            for nw in ((0, 1) if CLI[cid][0] != "config" else (0,)):
                for a in ANSWERS:
                    full.append({"kind": "cli", "option": cid, "exists": ex, "no_warnings": nw, "answer": a})
    if ctx.thorough:
        chosen = full
    else:
        slow = lambda c: "plot" in c["option"]  # noqa
        core_cases = [c for c in full if (c["exists"], c["no_warnings"], c["answer"]) in
                      ((1, 0, "n"), (1, 0, "y"), (1, 1, "n"), (0, 0, "n"))]
        fast_rest = [c for c in full if not slow(c) and c not in core_cases]
        slow_rest = [c for c in full if slow(c) and c not in core_cases]
        # evo_res builds seaborn figures (~1 s per run): its plot options keep declined + accepted only in the quick tier
        core_cases = [c for c in core_cases if not (c["option"].startswith("res") and slow(c))
                      or (c["exists"], c["no_warnings"]) == (1, 0)]
        chosen = core_cases + fast_rest + r.sample([c for c in slow_rest if not c["option"].startswith("res")], 3)
    for c in chosen:
        yield c
    for cid in single:
        slow_opt = "plot" in cid
        if slow_opt and not ctx.thorough:
            continue
        for pre in ("empty", "one", "long", "short"):
            combos_ = [(0, "y"), (0, "n")] + ([(1, "n")] if CLI[cid][0] != "config" else [])
            for nw, a in combos_:
                if pre in ("long", "short") and (CLI[cid][0] == "config" or (a == "n" and nw == 0 and not ctx.thorough)):
                    continue
                yield {"kind": "cli", "option": cid, "exists": 1, "no_warnings": nw, "answer": a, "pre": pre}
    # evo_res asked "mismatching titles … go on anyway?" and answered 'n': exits before any write
    for cid in [c for c in CLI if c.startswith("res2:")]:
        for ex in ((0, 1) if (ctx.thorough or "plot" not in cid) else (1,)):
            yield {"kind": "cli" if CLI[cid][4] is not None else "cli-multi", "option": cid, "exists": ex, "no_warnings": 0,
                   "answer": "y", "title_answer": "n", "pattern": "all" if ex else "none", "answers": ["y"]}
    for ex in (0, 1):
        for nw in (0, 1):
            yield {"kind": "cli-bag", "exists": ex, "no_warnings": nw}
    mp = [("all", ["n"]), ("all", ["y", "n"]), ("second", ["n"]), ("second", ["y"]), ("all", ["y", "y", "y", "y", "y", "y", "y"]),
          ("last", ["Y"]), ("first", [""]), ("none", ["n"])]
    for cid in multi:
        combos = [(p, s, nw) for (p, s) in mp for nw in (0, 1)]
        if not ctx.thorough:
            slow = cid.startswith("res") or cid.startswith("traj")
            combos = [(p, s, 0) for (p, s) in (mp[1:2] if cid.startswith("res2") else mp[:2] if slow else mp[:3])] + \
                ([("all", ["n"], 1)] if not cid.startswith("res2") else []) + ([] if slow else r.sample(combos, 1))
        for p, s, nw in combos:
            yield {"kind": "cli-multi", "option": cid, "pattern": p, "answers": s, "no_warnings": nw}


def targets_of_fn(w):
    return {"write_tum_trajectory_file": "t.tum", "write_kitti_poses_file": "t.kitti", "save_res_file": "t.zip",
            "save_df_as_table": "t.csv", "serialize": "t.ser", "export_pdf": "t.pdf"}[w]


def call_fn(w, path, cf, alt=False):
    o = dict(objects())
    if alt in ("long", "short"):     # earlier output of the same writer from longer / shorter data
        o.update(objects()[alt])
    elif alt:     # other data: the earlier output of the same writer that a second call then meets
        o.update(traj=o["traj_alt"], res=o["res_alt"], df=o["df_alt"], plots=lambda: objects()["plots"](True))
    from evo.tools import file_interface, pandas_bridge
    if w == "write_tum_trajectory_file":
        return lambda: file_interface.write_tum_trajectory_file(path, o["traj"], confirm_overwrite=cf)
    if w == "write_kitti_poses_file":
        return lambda: file_interface.write_kitti_poses_file(path, o["traj"], confirm_overwrite=cf)
    if w == "save_res_file":
        return lambda: file_interface.save_res_file(path, o["res"], confirm_overwrite=cf)
    if w == "save_df_as_table":
        return lambda: pandas_bridge.save_df_as_table(o["df"], path, format_str="csv", transpose=True, confirm_overwrite=cf)
    if w == "serialize":
        return lambda: o["plots"]().serialize(path, confirm_overwrite=cf)
    if w in ("export_pdf", "export_split"):
        return lambda: o["plots"]().export(path, confirm_overwrite=cf)
    raise KeyError(w)


def hexs(s):
    return core.hexs(s)


_REF = {}     # (scope, target name) -> bytes the same writer produces on a fresh path from the same data


def same_content(name, got, ref):
    """is `got` the writer's output and nothing else? (byte for byte; zip: member for member; pdf: dates masked;
    pickle: exactly one pickle of the same length, nothing behind it)"""
    import re
    import zipfile
    import pickle
    if got is None or ref is None:
        return got is ref, "missing"
    if name.endswith(".zip"):
        try:
            zg, zr = zipfile.ZipFile(io.BytesIO(got)), zipfile.ZipFile(io.BytesIO(ref))
            ng, nr = [i.filename for i in zg.infolist()], [i.filename for i in zr.infolist()]
            if ng != nr:
                return False, f"zip members {ng} != {nr}"
            bad = [n for n in nr if zg.read(n) != zr.read(n)]
            if len(got) != len(ref):
                return False, f"zip file has {len(got)} bytes, a fresh one {len(ref)}"
            return not bad, f"zip members differ: {bad}"
        except Exception as e:  # noqa
            return False, f"not a zip file: {e}"
    if name.endswith(".pdf"):
        m = lambda x: re.sub(rb"/CreationDate \([^)]*\)", b"", x)  # noqa
        return m(got) == m(ref), f"pdf differs from a fresh export ({len(got)} vs {len(ref)} bytes)"
    if name.endswith(".ser"):
        try:
            f = io.BytesIO(got)
            obj = pickle.load(f)
            rest = f.read()
            import matplotlib.pyplot as plt
            plt.close("all")
            return (rest == b"" and len(got) == len(ref) and sorted(obj) == sorted(pickle.loads(ref))), \
                f"pickle: {len(rest)} bytes behind the object, {len(got)} vs {len(ref)} bytes"
        except Exception as e:  # noqa
            return False, f"not a pickle: {e}"
    return got == ref, f"{len(got)} bytes differ from a fresh output ({len(ref)} bytes)"


def check_content(ctx, case, scope, targets, before, after):
    """harvest reference outputs from absent targets; every pre-existing target whose bytes changed (an accepted
    overwrite) must be exactly what the writer produces on a fresh path"""
    for t in targets:
        if t not in before and after.get(t) and (scope, t) not in _REF:
            _REF[(scope, t)] = after[t]
    for t in targets:
        if t in before and after.get(t) is not None and after[t] != before[t] and (scope, t) in _REF:
            ok, why = same_content(t, after[t], _REF[(scope, t)])
            if not ok:
                ctx.fail(case, "accepted-overwrite-is-the-new-output-only",
                         f"{t}: after an accepted overwrite the file is not what the writer produces on a fresh path: {why}")


PRE = {"empty": b"", "one": b"\n"}


def _never_crash(fn):
    """an exception while judging one run (model output in an unexpected form, evo's files in an unexpected state) is a
    finding about that run — a correspondence mismatch —, never the end of the whole check"""
    import functools

    @functools.wraps(fn)
    def wrapped(ctx, case, *a, **kw):
        try:
            return fn(ctx, case, *a, **kw)
        except core.ToolError:
            raise
        except Exception as e:  # noqa: BLE001
            c = {k: v for k, v in case.items() if k not in ("per", "other_prompts")}
            ctx.mismatch(c, f"{fn.__name__}: the run could not be judged ({type(e).__name__}: {str(e)[:160]})", None, None)
    return wrapped


@_never_crash
def judge_single(ctx, case, e, targets, enabled, answers, prompts, exc, before, after, model_line, tolerate_typeerror=False):
    """one or several independent single-file targets written by the same guard"""
    created = sorted(set(after) - set(before))
    changed = [t for t in targets if t in before and after.get(t) != before[t]]
    unsupported = tolerate_typeerror and exc is not None and exc.startswith("TypeError")
    if exc is not None and not unsupported:
        ctx.mismatch(case, "the command / writer raised", exc, None)
    # ---- correspondence
    outs = model_line.split(";")
    if any(o in ("NO-GUARD", "NO-SITE", "UNKNOWN-EXPR") for o in outs):
        ctx.mismatch(case, "the regenerated tables have no usable guard / call site for this output", None, model_line)
    elif not unsupported:
        ai = 0
        for t in targets:
            ex = t in before
            m_prompted, m_wrote = outs[0].split()
            # the model line was computed for this target's exists-flag by the caller (uniform targets)
            impl_wrote = (after.get(t) != before.get(t)) if ex else (t in after)
            if (m_wrote == "1") != impl_wrote:
                ctx.mismatch(case, f"target {t}: written={impl_wrote}, model says {m_wrote}", impl_wrote, m_wrote)
            ai += 1
        want_prompts = sum(1 for t in targets if outs[0].split()[0] == "1")
        # a declined first target of a two-target command does not stop the second one
        if prompts != want_prompts:
            ctx.mismatch(case, "number of prompts differs from the model", prompts, want_prompts)
    # ---- oracle: the property sentence
    for t in targets:
        if t in before:
            declined = enabled and not all(a == "y" for a in answers[:1])
            if enabled and prompts == 0 and after.get(t) != before[t]:
                ctx.fail(case, "asks-before-overwriting", f"{t} existed, warnings enabled, no prompt was issued and the file changed")
            if declined and after.get(t) != before[t]:
                ctx.fail(case, "declined-keeps-file", f"{t} existed, answer {answers[:1]!r} is not 'y', but its bytes changed")
            if declined and [c for c in created if c != t]:
                ctx.fail(case, "declined-writes-nothing-else", f"files created although the overwrite was declined: {created}")
            if not declined and not unsupported and (after.get(t) == before[t] or not after.get(t)):
                ctx.fail(case, "accepted-or-disabled-replaces", f"{t} existed, overwrite accepted/warnings disabled, but the file was not replaced")
        else:
            if not unsupported and not after.get(t):
                ctx.fail(case, "absent-target-is-written", f"{t} did not exist and was not written")
            if prompts != 0 and not any(x in before for x in targets):
                ctx.fail(case, "no-prompt-if-absent", f"{prompts} prompt(s) although no target existed")
    for k, v in before.items():
        if k not in targets and after.get(k) != v:
            ctx.fail(case, "other-files-untouched", f"{k} was modified")
    if unsupported:
        ctx.count("dist", "path-arg-raises-TypeError:" + case.get("writer", ""))


def expected_multi(files_exist, enabled, answers):
    """the property sentence, literally, per figure file: (must_keep, may_write)"""
    keep = []
    ai = 0
    for ex in files_exist:
        if ex and enabled:
            a = answers[ai] if ai < len(answers) else (answers[-1] if answers else "n")
            ai += 1
            keep.append(a != "y")
        else:
            keep.append(False)
    return keep


@_never_crash
def judge_multi(ctx, case, files, enabled, answers, prompts, exc, before, after, model_line):
    if exc is not None and not (case.get("pk") == "path" and exc.startswith("TypeError")):
        ctx.mismatch(case, "the command / writer raised", exc, None)
    outs = model_line.split(";")
    if any(o in ("NO-GUARD", "NO-SITE", "UNKNOWN-EXPR") for o in outs):
        ctx.mismatch(case, "the regenerated tables have no usable guard / call site for this output", None, model_line)
    else:
        bits, m_prompts = outs[0].split()
        impl_bits = "".join("1" if (after.get(f) != before.get(f) if f in before else f in after) else "0" for f in files)
        if impl_bits != bits or int(m_prompts) != prompts:
            ctx.mismatch(case, "split export: written files / prompts differ from the model", [impl_bits, prompts], [bits, int(m_prompts)])
    # oracle: prompts are answered in file order (only existing files are asked about)
    ai = 0
    stopped = False
    for f in files:
        if f in before:
            if enabled and not stopped:
                a = answers[ai] if ai < len(answers) else (answers[-1] if answers else "n")
                ai += 1
                if a != "y":
                    stopped = True
                    if after.get(f) != before[f]:
                        ctx.fail(case, "declined-keeps-file", f"{f}: answer {a!r} is not 'y' but its bytes changed")
                elif after.get(f) == before[f]:
                    ctx.fail(case, "accepted-or-disabled-replaces", f"{f}: answer 'y' but the file was not replaced")
            elif enabled and stopped:
                if after.get(f) != before[f]:
                    ctx.fail(case, "asks-before-overwriting", f"{f} changed without having been asked about (export had been declined before)")
            elif not enabled and after.get(f) == before[f]:
                ctx.fail(case, "accepted-or-disabled-replaces", f"{f}: warnings disabled but the file was not replaced")
    if enabled and prompts == 0 and any(f in before and after.get(f) != before[f] for f in files):
        ctx.fail(case, "asks-before-overwriting", "an existing figure file changed and no prompt was issued")
    for k, v in before.items():
        if k not in files and after.get(k) != v:
            ctx.fail(case, "other-files-untouched", f"{k} was modified")


COMBOS = {
    # (command, positional args, [(option, its args, target file, writer, module of the call site)] in the order evo writes them)
    "traj:tum+kitti+table": ("traj", ["tum", "a.txt"], [
        ("--save_as_tum", [], "a.tum", "write_tum_trajectory_file", "evo/main_traj.py"),
        ("--save_as_kitti", [], "a.kitti", "write_kitti_poses_file", "evo/main_traj.py"),
        ("--save_table", ["out.csv"], "out.csv", "save_df_as_table", "evo/main_traj.py")]),
    "ape:serialize+results": ("ape", ["tum", "a.txt", "b.txt"], [
        ("--serialize_plot", ["out.ser"], "out.ser", "serialize", "evo/common_ape_rpe.py"),
        ("--save_results", ["out.zip"], "out.zip", "save_res_file", "evo/main_ape.py")]),
}


@_never_crash
def judge_combo(ctx, case, enabled, prompts, exc, before, after, outs):
    """several outputs requested in one call: every existing target gets its own question, in the order evo writes"""
    per = case["per"]
    case = {k: v for k, v in case.items() if k != "per"}
    if exc is not None:
        ctx.mismatch(case, "the command raised", exc, None)
    want_prompts = 0
    for (tgt, ex, a), out in zip(per, outs):
        if len(out.split(";")[0].split()) != 2:
            # the regenerated call-site / guard tables no longer contain this site (e.g. the guard moved into a helper the
            # translator does not recognise): a broken tie, reported as a mismatch; the oracle below still judges the files
            ctx.mismatch(case, f"target {tgt}: the model has no verdict for this call site ({out[:80]!r})", None, out)
            m_prompted, m_wrote = ("1" if (ex and enabled) else "0"), ("1" if (not ex or not enabled or a == "y") else "0")
        else:
            m_prompted, m_wrote = out.split(";")[0].split()
        impl_wrote = (after.get(tgt) != before.get(tgt)) if ex else (tgt in after)
        if (m_wrote == "1") != impl_wrote:
            ctx.mismatch(case, f"target {tgt}: written={impl_wrote}, model says {m_wrote}", impl_wrote, m_wrote)
        want_prompts += int(m_prompted)
        if ex:
            if enabled and a != "y" and after.get(tgt) != before[tgt]:
                ctx.fail(case, "declined-keeps-file", f"{tgt} existed, its question was answered {a!r}, but its bytes changed")
            if (not enabled or a == "y") and (after.get(tgt) == before[tgt] or not after.get(tgt)):
                ctx.fail(case, "accepted-or-disabled-replaces", f"{tgt} existed, accepted / warnings disabled, but was not replaced")
        elif not after.get(tgt):
            ctx.fail(case, "absent-target-is-written", f"{tgt} did not exist and was not written")
    n_existing = sum(1 for p in per if p[1])
    if enabled and prompts < n_existing and any(after.get(t) != before[t] for (t, ex, _) in per if ex):
        ctx.fail(case, "asks-before-overwriting", f"{n_existing} existing targets, {prompts} overwrite questions, and an existing file changed")
    if prompts != want_prompts:
        ctx.mismatch(case, "number of overwrite questions differs from the model", prompts, want_prompts)
    for k, v in before.items():
        if k not in [p[0] for p in per] and after.get(k) != v:
            ctx.fail(case, "other-files-untouched", f"{k} was modified")
    check_content(ctx, case, "combo:" + case["combo"], [p[0] for p in per], before, after)
    ctx.count("branch", "several-outputs-in-one-call")
    ctx.count("dist", "combo:" + case["combo"])
    ctx.record(case, n_existing > 0)


def judge_bag(ctx, case, e):
    """evo_traj --save_as_bag: the target is a fresh time-stamped name written by rosbags' Writer, which refuses
    existing paths; there is no evo guard, so only the safety clause is checked (clock frozen to hit an existing name)"""
    import datetime
    from evo import main_traj, main_traj_parser

    class FrozenDT(datetime.datetime):
        @classmethod
        def now(cls, tz=None):
            return cls(2026, 1, 2, 3, 4, 5)

    class FrozenModule:
        datetime = FrozenDT
    name = "2026-01-02-03-04-05.bag"
    if case["exists"]:
        Path(name).write_bytes(SENTINEL)
    before = e.snapshot()
    real = main_traj.datetime
    main_traj.datetime = FrozenModule
    try:
        argv = ["tum", "a.txt", "--save_as_bag"] + (["--no_warnings"] if case["no_warnings"] else [])
        prompts, exc = e.quiet(lambda: main_traj.run(main_traj_parser.parser().parse_args(argv)), ["n"])
    finally:
        main_traj.datetime = real
    after = e.snapshot()
    if case["exists"]:
        if after.get(name) != before[name]:
            ctx.fail(case, "asks-before-overwriting", f"{name} existed and was overwritten by --save_as_bag (prompts: {prompts})")
        ctx.count("dist", "bag:existing-target-" + ("refused:" + exc.split(":")[0] if exc else "kept"))
    else:
        if not after.get(name) or prompts:
            ctx.fail(case, "absent-target-is-written", f"{name} not written (exception {exc}, prompts {prompts})")
    for k, v in before.items():
        if k != name and after.get(k) != v:
            ctx.fail(case, "other-files-untouched", f"{k} was modified")
    ctx.count("branch", "bag")
    ctx.record(case, bool(case["exists"]))


def evaluate(ctx, cases):
    e = env()
    # pass 1: run the implementation, collect the driver lines
    runs, lines, nlines = [], [], {}
    for case in cases:
        e.reset()
        kind = case["kind"]
        if kind == "fn":
            t = targets_of_fn(case["writer"])
            sp = case.get("spell", "rel")
            t = {"space": "t t" + t[1:], "unicode": "t\u00fc\u00df" + t[1:], "looks-like-number": "-1e3" + t[1:]}.get(sp, t)
            if sp == "updir":
                os.mkdir("sub")
            given = {"dot": "./" + t, "updir": "sub/../" + t, "abs": os.path.join(e.dir, t)}.get(sp, t)
            scope = "fn:" + case["writer"]
            if (scope, t) not in _REF:        # what this writer produces on a fresh path from the same data
                e.quiet(call_fn(case["writer"], "ref__" + t, False), [])
                if Path("ref__" + t).exists():
                    _REF[(scope, t)] = Path("ref__" + t).read_bytes()
                    os.remove("ref__" + t)
            if case["exists"]:
                pre = case.get("pre") or ("self" if case.get("prewrite") == "self" else "sentinel")
                if pre == "self":      # L1/L2: the writer meets its own earlier output
                    e.quiet(call_fn(case["writer"], t, False, alt=True), [])
                elif pre in ("long", "short"):      # … from longer / shorter data
                    e.quiet(call_fn(case["writer"], t, False, alt=pre), [])
                else:
                    Path(t).write_bytes(PRE.get(pre, SENTINEL))
            before = e.snapshot()
            path = given if case["pk"] == "str" else Path(given)
            prompts, exc = e.quiet(call_fn(case["writer"], path, bool(case["confirm"])), [case["answer"]])
            after = e.snapshot()
            table_name = {"export_pdf": "export"}.get(case["writer"], case["writer"])
            lines.append(f"C17 writer {table_name} {case['pk']} {case['exists']} {case['confirm']} {hexs(case['answer'])}")
            runs.append((case, [t], bool(case["confirm"]), [case["answer"]], prompts, exc, before, after))
        elif kind == "fn-multi":
            files = [f"t_{n}.png" for n in ("one", "two", "three")]
            for f, ex in zip(files, case["pattern"]):
                if ex:
                    Path(f).write_bytes(SENTINEL)
            before = e.snapshot()
            path = "t.png" if case["pk"] == "str" else Path("t.png")
            prompts, exc = e.quiet(call_fn("export_split", path, bool(case["confirm"])), case["answers"])
            after = e.snapshot()
            lines.append(f"C17 export {case['confirm']} 3 {' '.join(map(str, case['pattern']))} {len(case['answers'])} "
                         + " ".join(hexs(a) for a in case["answers"]))
            runs.append((case, files, bool(case["confirm"]), case["answers"], prompts, exc, before, after))
        elif kind == "cli":
            cid = case["option"]
            cmd, _, mfile, writer, targets = CLI[cid]
            if "updir" in cid:
                os.mkdir("sub")
            if case["exists"] and any(("cli:" + cid, t) not in _REF for t in targets):
                run_cli(e, cid, True, [])           # reference: the outputs on fresh paths (only needed in a replay)
                check_content(ctx, case, "cli:" + cid, targets, {}, e.snapshot())
                e.reset()
                if "updir" in cid:
                    os.mkdir("sub")
            if case["exists"]:
                pre = case.get("pre", "sentinel")
                if pre in ("long", "short"):
                    prerun(e, cid, pre, targets)
                else:
                    for t in targets:
                        Path(t).write_bytes(PRE.get(pre, SENTINEL))
            # neighbours of the targets (the name with an extension appended, a backup name): existing files that nobody was
            # asked about must come through every run byte for byte (clause other-files-untouched)
            for t in targets:
                for sib in ([t + ".json"] if not t.endswith(".json") else []) + [t + "~"]:
                    if not Path(sib).exists():
                        Path(sib).write_bytes(SENTINEL)
            before = e.snapshot()
            answers = [case["answer"]] * len(targets)
            prompts, exc, _ = run_cli(e, cid, bool(case["no_warnings"]), answers, [case.get("title_answer", "y")])
            case = dict(case, other_prompts=list(e.other_prompts))
            after = e.snapshot()
            if cmd == "config":
                lines.append(f"C17 generate {case['exists']} {hexs(case['answer'])}")
            else:
                lines.append(f"C17 cli {mfile} {writer} {case['no_warnings']} {case['exists']} {hexs(case['answer'])}")
            runs.append((case, targets, cmd == "config" or not case["no_warnings"], answers, prompts, exc, before, after))
        elif kind == "fn-handle":
            import io as _io
            h = _io.BytesIO() if case["writer"] == "save_res_file" else _io.StringIO()
            before = e.snapshot()
            prompts, exc = e.quiet(call_fn(case["writer"], h, True), [case["answer"]])
            after = e.snapshot()
            if exc or prompts or after != before or not h.getvalue():
                ctx.mismatch(case, "writer with a file handle: must write to the handle without asking",
                             [exc, prompts, sorted(set(after) ^ set(before)), len(h.getvalue())], [None, 0, [], ">0"])
            lines.append(f"C17 writer {case['writer']} handle 1 1 {hexs(case['answer'])}")
            runs.append((case, [], True, [case["answer"]], prompts, exc, before, after))
        elif kind == "cli-combo":
            cmd, pos, outs_spec = COMBOS[case["combo"]]
            for (_, _, tgt, _, _), ex in zip(outs_spec, case["exists"]):
                if ex:
                    Path(tgt).write_bytes(SENTINEL)
            before = e.snapshot()
            argv = list(pos)
            for i in case["order"]:
                argv += [outs_spec[i][0]] + outs_spec[i][1]
            if case["no_warnings"]:
                argv.append("--no_warnings")
            import importlib
            mod, par = importlib.import_module(f"evo.main_{cmd}"), importlib.import_module(f"evo.main_{cmd}_parser")
            prompts, exc = e.quiet(lambda: mod.run(par.parser().parse_args(argv)), case["answers"])
            after = e.snapshot()
            ai = 0
            per = []
            for (_, _, tgt, writer, mfile), ex in zip(outs_spec, case["exists"]):
                a = "n"
                if ex and not case["no_warnings"]:
                    a = case["answers"][ai] if ai < len(case["answers"]) else "n"
                    ai += 1
                per.append((tgt, ex, a))
                lines.append(f"C17 cli {mfile} {writer} {case['no_warnings']} {ex} {hexs(a)}")
            runs.append((dict(case, per=per), [p[0] for p in per], not case["no_warnings"], case["answers"], prompts, exc, before, after))
            nlines[len(runs) - 1] = len(per)
        elif kind == "cli-bag":
            judge_bag(ctx, case, e)
        elif kind == "cli-multi":
            cid = case["option"]
            files = figure_files(e, cid)
            pat = {"all": [1] * len(files), "none": [0] * len(files),
                   "second": [1 if i == 1 else 0 for i in range(len(files))],
                   "first": [1 if i == 0 else 0 for i in range(len(files))],
                   "last": [1 if i == len(files) - 1 else 0 for i in range(len(files))]}[case["pattern"]]
            for f, ex in zip(files, pat):
                if ex:
                    Path(f).write_bytes(SENTINEL)
            before = e.snapshot()
            prompts, exc, _ = run_cli(e, cid, bool(case["no_warnings"]), case["answers"], [case.get("title_answer", "y")])
            case = dict(case, other_prompts=list(e.other_prompts))
            after = e.snapshot()
            lines.append(f"C17 cliexport {CLI[cid][2]} {case['no_warnings']} {len(files)} {' '.join(map(str, pat))} "
                         f"{len(case['answers'])} " + " ".join(hexs(a) for a in case["answers"]))
            runs.append((case, files, not case["no_warnings"], case["answers"], prompts, exc, before, after))
        else:
            raise core.ToolError(f"unknown case kind {kind}")
    outs_all = core.run_driver(lines)
    pos_out = 0
    for ri, (case, targets, enabled, answers, prompts, exc, before, after) in enumerate(runs):
        k = nlines.get(ri, 1)
        out = outs_all[pos_out] if k == 1 else outs_all[pos_out: pos_out + k]
        pos_out += k
        if case["kind"] == "cli-combo":
            judge_combo(ctx, case, enabled, prompts, exc, before, after, out)
            continue
        if case["kind"] == "fn-handle":
            if out != "0 1":
                ctx.mismatch(case, "model: a handle target must not be asked about", None, out)
            ctx.count("branch", "handle-target")
            ctx.record(case, False)
            continue
        if case["kind"] in ("cli", "cli-multi"):
            want_other = 1 if (case["option"].startswith("res2:") and not case["no_warnings"]) else 0
            if len(case.get("other_prompts", [])) != want_other:
                ctx.mismatch(case, "number of questions other than the overwrite question", case.get("other_prompts"), want_other)
            if want_other and case.get("title_answer", "y") != "y":
                # the user declined to go on: nothing may be written, nothing asked about overwriting
                if after != before:
                    ctx.fail(case, "declined-writes-nothing-else",
                             f"evo_res was told not to go on, but files changed: {sorted(k for k in set(after) | set(before) if after.get(k) != before.get(k))}")
                if prompts:
                    ctx.mismatch(case, "overwrite question after the run was declined", prompts, 0)
                ctx.count("branch", "title-question-declined")
                ctx.record({k: v for k, v in case.items() if k != "other_prompts"}, any(t in before for t in targets))
                continue
            if want_other:
                ctx.count("branch", "title-question-accepted-then-overwrite-question")
        case = {k: v for k, v in case.items() if k != "other_prompts"}
        if case["kind"] in ("fn", "fn-multi", "cli", "cli-multi"):
            scope = ("fn:" + case.get("writer", "export_split")) if case["kind"].startswith("fn") else ("cli:" + case["option"])
            check_content(ctx, case, scope, targets, before, after)
        if case["kind"] in ("fn", "cli"):
            plot_fn = case["kind"] == "fn" and case["pk"] == "path" and case["writer"] in ("serialize", "export_pdf")
            judge_single(ctx, case, env(), targets, enabled, answers, prompts, exc, before, after, out,
                         tolerate_typeerror=plot_fn)
            existed = bool(case["exists"])
        else:
            judge_multi(ctx, case, targets, enabled, answers, prompts, exc, before, after, out)
            existed = any(t in before for t in targets)
        ctx.count("branch", ("prompted" if prompts else "not-prompted") + ("+declined" if existed and enabled and answers[0] != "y" else ""))
        ctx.count("dist", case["kind"] + ":" + (case.get("writer") or case.get("option") or "export_split"))
        ctx.record(case, existed)


def shrink(case):
    return []


def pre_build():
    return writers_T.generate()


def check(ctx):
    lean = core.lean_side(ctx.prop, ctx.tier, pre_build=pre_build)
    core.drift(ctx, MODELLED)
    try:
        cases = list(gen_cases(ctx))
        evaluate(ctx, cases)
    finally:
        if _ENV is not None:
            _ENV.close()
    return core.finish(
        ctx, lean, rule=RULE,
        extra_trusted=["the AST translator harness/translate/writers.py (guard shapes, call-site expressions)",
                       "matplotlib savefig dpi lowered to 12 for speed (same code path)"],
        open_clauses=["evo_traj --save_as_bag writes a fresh time-stamped name through rosbags' Writer, which refuses an existing path "
                      "(WriterError, also with --no_warnings): no evo guard, no prompt, never overwritten — only the no-unconfirmed-"
                      "overwrite clause is checked (clock frozen); --save_as_bag2 cannot be exercised (installed rosbags needs version=)",
                      "PlotCollection.serialize / export are annotated `str`: with a pathlib.Path serialize raises TypeError before "
                      "touching anything and the single-PDF export raises after writing (only the no-unconfirmed-overwrite clause is checked there)",
                      "evo_fig (main_fig.py) is outside the property's anchors; its call sites are listed in Gen/Writers.lean only"],
        assumptions=["answers are given through input(); a confirmation other than the overwrite prompt (evo_res title mismatch) does not occur in the cases"])


def replay(ctx, data):
    pre_build()
    core.sh("lake build drv_C17", cwd=core.LEAN)
    try:
        evaluate(ctx, [data["case"]])
    finally:
        if _ENV is not None:
            _ENV.close()
    return core.finish_replay(ctx)
