"""C18 — config edits keep keys, types, user values; generated configs equal their args.
Model: lean/EvoModel/Model/Config.lean; tables regenerated from /repo: Gen/Settings.lean
(DEFAULT_SETTINGS_DICT) and Gen/Options.lean (typed option tables of the three parsers).
Correspondence: (1) number tokens (is_number / float) ; (2) random histories of set / reset / merge /
upgrade on the real settings file in the isolated HOME, through the functions and through
evo_config's main() with patched sys.argv, JSON compared structurally (types included) after every
step; (3) the SettingsContainer lock and merge_config; (4) random typed argument lists through
generate + merge_config vs. direct parse_args.  Oracle: the property sentences on evo's files /
namespaces, independent of the model."""
import argparse
import contextlib
import io
import json
import math
import os
import sys
import tempfile
from pathlib import Path

import core
from core import Fraction

sys.path.insert(0, str(Path(__file__).resolve().parent.parent / "translate"))
import settings as settings_T  # noqa: E402
import options as options_T  # noqa: E402

MODELLED = ['evo/main_config.py:is_number',
            'evo/main_config.py:finalize_values',
            'evo/main_config.py:set_config',
            'evo/main_config.py:is_option',
            'evo/main_config.py:to_number',
            'evo/main_config.py:generate',
            'evo/main_config.py:merge_json_union',
            'evo/main_config.py:main',
            'evo/tools/settings.py:merge_dicts',
            'evo/tools/settings.py:reset',
            'evo/tools/settings.py:update_if_outdated',
            'evo/tools/settings.py:SettingsContainer.__setattr__',
            'evo/tools/settings.py:SettingsContainer.locked',
            'evo/tools/settings.py:SettingsContainer.update_existing_keys',
            'evo/entry_points.py:merge_config']

RULE = ("cases = tok(token) from the modelled decimal alphabet plus junk; hist(ops) = random histories (3-8 steps) of set "
        "(random keys, values of every type, toggles, true/false spellings, [] / none, several keys per call), reset subset, "
        "reset all, merge soft/hard with a random other file (known + unknown keys), upgrade (keys deleted, version file "
        "outdated), applied to the real ~/.evo/settings.json through the functions or through evo_config main(); "
        "lock(key); mergecfg(namespace, config); gen(app, argument list) from the regenerated typed option tables "
        "(flags, ints incl. negative, floats incl. negative and integer-valued, choices, strings, nargs=2). "
        "Exact structural comparison (bool/int/float/str/list distinguished; floats bit-exact). "
        "non-trivial = the step changed the file / the list has a numeric or multi-value option")


# ----------------------------------------------------------------------------- wire format
def enc_atom(v):
    if v is None:
        return "n"
    if isinstance(v, bool):
        return "b1" if v else "b0"
    if isinstance(v, int):
        return f"i{v}"
    if isinstance(v, float):
        if math.isnan(v) or math.isinf(v):
            raise ValueError("nan/inf")
        return "f" + core.rat(v)
    if isinstance(v, str):
        return "s" + core.hexs(v)
    raise ValueError(f"unsupported atom {v!r}")


def enc_val(v):
    if isinstance(v, (list, tuple)):
        return " ".join([f"l{len(v)}"] + [enc_atom(a) for a in v])
    return enc_atom(v)


def enc_dict(d):
    return " ".join([str(len(d))] + [core.hexs(k) + " " + enc_val(v) for k, v in d.items()])


def enc_strs(ss):
    return " ".join([str(len(ss))] + [core.hexs(s) for s in ss])


def dec_atom(t):
    if t == "n":
        return None
    if t in ("b0", "b1"):
        return t == "b1"
    if t[0] == "i":
        return int(t[1:])
    if t[0] == "f":
        return ("float", core.parse_rat(t[1:]))
    if t[0] == "s":
        return "" if t[1:] == "-" else bytes.fromhex(t[1:]).decode()
    raise ValueError(t)


def dec_dict_tokens(toks, pos=0):
    n = int(toks[pos])
    pos += 1
    d = {}
    for _ in range(n):
        k = "" if toks[pos] == "-" else bytes.fromhex(toks[pos]).decode()
        pos += 1
        t = toks[pos]
        if t[0] == "l":
            m = int(t[1:])
            d[k] = [dec_atom(x) for x in toks[pos + 1: pos + 1 + m]]
            pos += 1 + m
        else:
            d[k] = dec_atom(t)
            pos += 1
    return d, pos


def dec_dict(line):
    return dec_dict_tokens(line.split())[0]


def dec_ns(line):
    return {k: v for k, v in dec_dict(line).items() if k not in SKIP_NS}


def canon(v):
    """Python value -> the decoded wire form (floats as exact rationals, tagged)"""
    if isinstance(v, bool) or v is None or isinstance(v, (int, str)):
        return v
    if isinstance(v, float):
        return ("float", core.frac(v))
    if isinstance(v, (list, tuple)):
        return [canon(a) for a in v]
    if isinstance(v, dict):
        return {k: canon(x) for k, x in v.items()}
    return ("other", repr(v))


def encodable(d):
    try:
        enc_dict(d)
        return True
    except ValueError:
        return False


# ----------------------------------------------------------------------------- evo access
@contextlib.contextmanager
def quiet():
    import logging
    buf = io.StringIO()
    with contextlib.redirect_stdout(buf), contextlib.redirect_stderr(buf):
        try:
            yield buf
        finally:
            for h in list(logging.getLogger("evo").handlers):
                if not isinstance(h, logging.NullHandler):
                    logging.getLogger("evo").removeHandler(h)


def evo_mods():
    with quiet():
        from evo.tools import settings as st
        from evo import main_config as mc
        from evo import entry_points as ep
        from evo.tools.settings_template import DEFAULT_SETTINGS_DICT as D
    return st, mc, ep, dict(D)


def read_settings(st):
    return json.loads(Path(st.DEFAULT_PATH).read_text())


def write_settings(st, d):
    Path(st.DEFAULT_PATH).write_text(json.dumps(d, indent=4, sort_keys=True))


# ----------------------------------------------------------------------------- generators
def rand_token(r):
    kind = r.choice(["int", "dec", "exp", "neg", "junk", "word", "edge"])
    if kind == "int":
        return r.choice(["", "+", "-"]) + str(r.choice([0, 1, 7, 10, 205, 500, 1000, 123456789, 2 ** 53 + 1, 10 ** 22, 10 ** 23]))
    if kind == "dec":
        return r.choice(["", "-", "+"]) + r.choice(["0.5", "1.5", "0.1", "3.0", "10.", ".25", "0.30000000000000004", "2.675",
                                                     "1.0000000000000002", "9007199254740993.0", "0.000001", "123.456", "00.50"])
    if kind == "exp":
        return r.choice(["", "-"]) + r.choice(["1e3", "1E3", "1e-3", "2.5e2", "1e+2", ".5e1", "5.e-1", "1e22", "1e23", "1e-7", "4.9e-324", "1e0"])
    if kind == "neg":
        return "-" + r.choice(["1", "0.5", ".5", "0", "12", "3.25", "1e-3", "7."])
    if kind == "junk":
        return r.choice(["1.2.3", "e5", "--1", "1e", ".", "+", "-", "1e5.5", "0x10", "1,5", "5f", "+-1", "1e+", "..5", "-.", "1ee3", "e", "-e1"])
    if kind == "edge":
        return r.choice(["true", "True", "FALSE", "false", "none", "None", "[]", "NONE", "yes", "", "0", "1", "-0", "-0.0", "007"])
    return r.choice(["png", "svg", "xy", "best", "sans-serif", "tab10", "monokai", "rmse", "mean", "Agg", "a_b", "x.y", "-x", "--plot"])


def rand_set_args(r, keys, cfg):
    args = []
    for _ in range(r.randint(1, 3)):
        k = r.choice(keys)
        args.append(k)
        cur = cfg.get(k)
        n = r.choice([0, 1, 1, 1, 2, 3])
        for _ in range(n):
            if isinstance(cur, bool):
                args.append(r.choice(["true", "false", "True", "FALSE", "1", "0", "yes", "0.5", rand_token(r)]))
            elif isinstance(cur, list):
                args.append(r.choice(["[]", "none", "None", "rmse", "mean", "10", "12.5", "max", rand_token(r)]))
            elif isinstance(cur, (int, float)):
                args.append(r.choice([rand_token(r), "3", "2.5", "-1", "1e3", "-0.25"]))
            else:
                args.append(r.choice([rand_token(r), "png", "xz", "dotted"]))
    if r.random() < 0.15:
        args.insert(r.randrange(len(args) + 1), r.choice(["not_a_parameter", "plot_", "plot_pose", "plot_split ", "Plot_split"]))
    return [a for a in args if a != ""]


def rand_other(r, keys):
    d = {}
    for _ in range(r.randint(1, 4)):
        k = r.choice(keys + ["extra_a", "extra_b"])
        d[k] = r.choice([True, False, 3, 2.5, "text", [1, 2], ["a"], -7, 0.1, 0, "", [], 0.0, "true", "[]", "1e3", "-1", "none"])
    return d


def gen_cases(ctx):
    r = ctx.rng
    D = settings_T.default_settings()
    keys = [k for k in D if k != "plot_seaborn_palette"]
    # corpus: finding F3 and the documented example
    yield {"kind": "gen", "app": "ape", "toks": ["--downsample", "500", "--t_offset", "-0.5", "--n_to_align", "-1"], "corpus": "F3"}
    yield {"kind": "gen", "app": "ape", "toks": ["--align", "--plot", "--plot_mode", "xz", "--verbose"], "corpus": "help-example"}
    yield {"kind": "gen", "app": "traj", "toks": ["--motion_filter", "0.5", "-3", "--downsample", "10"], "corpus": "nargs2"}
    yield {"kind": "gen", "app": "ape", "toks": ["--t_max_diff", "2.5e0", "--t_offset", "1e-3"], "corpus": "exponent-values"}
    # L2: same-process histories around the module-level DEFAULT_SETTINGS_DICT and repeated invocations
    for ops in (
        [{"op": "set", "args": ["plot_linewidth", "7.25", "plot_statistics", "max"]}, {"op": "upgrade", "drop": ["plot_split"]},
         {"op": "reset_sub", "params": ["plot_linewidth", "plot_statistics"]}],
        [{"op": "set", "args": ["plot_linewidth", "7.25"]}, {"op": "upgrade", "drop": []}, {"op": "reset_all"}],
        [{"op": "set_cli", "args": ["plot_split"]}, {"op": "reset_sub_cli", "params": ["plot_split"]}, {"op": "set_cli", "args": ["plot_split"]}],
        [{"op": "set", "args": ["plot_figsize", "3", "4"]}, {"op": "reset_sub", "params": ["plot_figsize"]},
         {"op": "set", "args": ["plot_figsize", "5", "6"]}, {"op": "upgrade", "drop": ["plot_figsize"]}, {"op": "reset_sub", "params": ["plot_figsize"]}],
        [{"op": "merge", "soft": False, "other": {"plot_linewidth": 9, "extra_a": [1]}}, {"op": "upgrade", "drop": ["plot_mode_default"]},
         {"op": "reset_sub", "params": ["plot_linewidth", "plot_mode_default"]}, {"op": "merge", "soft": True, "other": {"plot_linewidth": 1}}],
        # L10: values that look like other things; a key that is a prefix of another key
        [{"op": "set", "args": ["plot_backend", "true", "plot_legend_loc", "[]", "plot_fontfamily", "1e3", "plot_texsystem", "-1"]},
         {"op": "set", "args": ["plot_pose_correspondences", "plot_pose_correspondences_linestyle", "plot_pose_correspondences"]},
         {"op": "set", "args": ["plot_pose_correspondences_linestyle", "plot_pose", "plot_"]},
         {"op": "reset_sub", "params": ["plot_pose_correspondences"]}],
        [{"op": "merge", "soft": False, "other": {"plot_backend": "true", "plot_split": "false", "plot_linewidth": "2.5", "plot_figsize": "[]"}},
         {"op": "set", "args": ["plot_split"]}, {"op": "upgrade", "drop": ["plot_backend"]}],
    ):
        yield {"kind": "hist", "ops": ops, "corpus": "L2/L10"}
    for v in STORED_VERSIONS:
        yield {"kind": "hist", "ops": [{"op": "set", "args": ["plot_linewidth", "7.25"]},
                                       {"op": "upgrade", "drop": ["plot_split", "plot_backend"], "stored": v}], "corpus": "stored-version"}
    for t in ["500", "-0.5", "1e3", "3.0", "--1", "1e", ".", "-.5", "10.", "0.1", "1e23", "-0", "+5", "", "-"]:
        yield {"kind": "tok", "tok": t}
    for _ in range(150 if not ctx.thorough else 1500):
        yield {"kind": "tok", "tok": rand_token(r)}
    n_hist = 60 if not ctx.thorough else 600
    for _ in range(n_hist):
        ops = []
        sim = dict(D)
        for _ in range(r.randint(3, 8)):
            o = r.choice(["set", "set", "set", "set_cli", "reset_sub", "reset_sub_cli", "reset_all", "merge", "merge_cli", "upgrade",
                          "falsy"])
            if o == "falsy":
                ops.append({"op": "set", "args": r.choice([["plot_seaborn_enabled", "false", "plot_statistics", "none"],
                                                           ["plot_linewidth", "0", "plot_xyz_realistic", "false"],
                                                           ["tf_cache_lookup_frequency", "0", "plot_figsize", "[]"],
                                                           ["plot_fontscale", "2.5e0", "plot_reference_alpha", "1e-3"]])})
                ops.append(r.choice([{"op": "upgrade", "drop": r.sample(list(D), 2), "stored": r.choice(STORED_VERSIONS)},
                                     {"op": "merge", "soft": True, "other": {"plot_seaborn_enabled": True, "plot_linewidth": 9,
                                                                           "plot_statistics": ["x"], "plot_figsize": [1, 1],
                                                                           "tf_cache_lookup_frequency": 5, "plot_xyz_realistic": True}}]))
                continue
            if o in ("set", "set_cli"):
                ops.append({"op": o, "args": rand_set_args(r, keys, sim)})
            elif o in ("reset_sub", "reset_sub_cli"):
                ops.append({"op": o, "params": r.sample(keys, r.randint(1, 3)) + (["not_a_parameter"] if o == "reset_sub" and r.random() < 0.3 else [])})
            elif o == "reset_all":
                ops.append({"op": o})
            elif o in ("merge", "merge_cli"):
                ops.append({"op": o, "soft": r.random() < 0.5, "other": rand_other(r, keys)})
            else:
                ops.append({"op": "upgrade", "drop": r.sample(list(D), r.randint(0, 4)), "stored": r.choice(STORED_VERSIONS)})
        yield {"kind": "hist", "ops": ops}
    # unknown names that collide with attributes of dict / SettingsContainer, and near misses of real keys
    with quiet():
        from evo.tools.settings import SettingsContainer as _SC
    attr_names = sorted(set(dir(dict)) | set(dir(_SC)) | set(vars(_SC)))
    near = [k[:-1] for k in keys[:6]] + [k + "s" for k in keys[:6]] + [k.upper() for k in keys[:3]] + [k.replace("_", "-") for k in keys[:3]]
    for name in (attr_names if ctx.thorough else
                 ["copy", "items", "keys", "values", "update", "get", "pop", "clear", "locked", "from_json_file",
                  "update_existing_keys", "setdefault", "__class__", "__dict__", "__len__", "fromkeys"] + r.sample(attr_names, 8)) + near:
        if name in D:
            continue
        yield {"kind": "lock", "key": name, "value": r.choice([1, True, "x", 2.5])}
    for _ in range(20 if not ctx.thorough else 100):
        yield {"kind": "lock", "key": r.choice([r.choice(keys), r.choice(["brand_new_key", "plot_new", "Plot_split", "plot_split ", "x"])]),
               "value": r.choice([1, True, "x", 2.5])}
    for _ in range(30 if not ctx.thorough else 200):
        yield {"kind": "mergecfg", "app": r.choice(["ape", "rpe", "traj"]), "config": dict(
            list(rand_other(r, keys).items()) + [(r.choice(["align", "plot_mode", "t_offset", "downsample", "new_arg"]),
                                                  r.choice([True, "xz", -0.5, 3]))])}
    for _ in range(250 if not ctx.thorough else 2500):
        yield {"kind": "gen", "app": r.choice(["ape", "rpe", "traj"]), "toks": None, "seed": r.getrandbits(40)}


def rand_arglist(app, seed):
    import random
    r = random.Random(seed)
    table = OPT_TABLES[app]
    toks = []
    for o in r.sample(table, r.randint(1, 6)):
        if o["name"] in ("config", "help"):
            continue
        toks.append("--" + o["name"])
        if o["kind"] == "flag":
            continue
        n = o["nargs"] or 1
        for _ in range(n):
            if o["choices"]:
                toks.append(r.choice(o["choices"]))
            elif o["kind"] == "int":
                toks.append(r.choice(["500", "-1", "0", "10", "3", "-25", "+7", "1000000"]))
            elif o["kind"] == "float":
                toks.append(r.choice(["-0.5", "0.25", "1", "2", "-3", "1e-3", "0.1", "-.5", "10.", "100", "0.01", "-12.75", "3.0"]))
            else:
                toks.append(r.choice(["out.png", "res.zip", "map.yaml", "log.txt", "EPSG:3857", "x_y", "a.b.c", "ref.tum"]))
    return toks


OPT_TABLES = {}
# stored assets_version strings of an outdated home: every string other than __version__ must trigger the upgrade
STORED_VERSIONS = ["v1.9.0", "v1.5.0", "v1.4.2", "v9", "z", "v1.31.10", "v1.31.1 ", "v1.31.1\n", "v1.31.0", "v1.10.0", "v0", "",
                   "V1.31.1", "v2.0.0", "1.31.1", "{}"]
PRISTINE = [None]     # DEFAULT_SETTINGS_DICT as the file defines it (fresh execution of settings_template.py)


# ----------------------------------------------------------------------------- evaluation
def evaluate(ctx, cases):
    st, mc, ep, D = evo_mods()
    PRISTINE[0] = settings_T.default_settings()
    D = dict(PRISTINE[0])
    if not OPT_TABLES:
        with quiet():
            for app in ("ape", "rpe", "traj"):
                OPT_TABLES[app] = options_T.option_table(app)[0]
    home_other = Path(tempfile.mkdtemp(prefix="evo_c18_"))
    jobs = []      # (case, step info, driver line) in order; judged after one driver batch
    for case in cases:
        kind = case["kind"]
        if kind == "tok":
            t = case["tok"]
            impl = mc.is_number(t)
            val = None
            if impl:
                f = float(t)
                val = "E_OVERFLOW" if math.isinf(f) else core.rat(f)
            jobs.append((case, {"impl": (impl, val)}, f"C18 isnumber {core.hexs(t)}"))
        elif kind == "hist":
            write_settings(st, D)
            for i, op in enumerate(case["ops"]):
                before = read_settings(st)
                info = {"step": i, "op": op, "before": before, "exc": None}
                line = None
                try:
                    with quiet():
                        how = ("str", "path", "rel", "dotted")[(info["step"] + len(case["ops"])) % 4]
                        if op["op"] == "set":
                            line = f"C18 set {enc_dict(before)} {enc_strs(op['args'])}"
                            mc.set_config(spell(st.DEFAULT_PATH, how), op["args"])
                        elif op["op"] == "set_cli":
                            line = f"C18 set {enc_dict(before)} {enc_strs(op['args'])}"
                            run_main(mc, ["set"] + op["args"])
                        elif op["op"] == "reset_sub":
                            line = f"C18 resetsub {enc_dict(before)} {enc_strs(op['params'])}"
                            st.reset(Path(spell(st.DEFAULT_PATH, how)), parameter_subset=op["params"])
                        elif op["op"] == "reset_sub_cli":
                            line = f"C18 resetsub {enc_dict(before)} {enc_strs(op['params'])}"
                            run_main(mc, ["reset"] + op["params"])
                        elif op["op"] == "reset_all":
                            line = "C18 resetall"
                            run_main(mc, ["reset", "-y"])
                        elif op["op"] in ("merge", "merge_cli"):
                            other = home_other / "other.json"
                            other.write_text(json.dumps(op["other"]))
                            line = f"C18 merge {1 if op['soft'] else 0} {enc_dict(before)} {enc_dict(op['other'])}"
                            if op["op"] == "merge":
                                mc.merge_json_union(spell(st.DEFAULT_PATH, how), spell(other, how), op["soft"])
                            else:
                                run_main(mc, ["set", "-m", str(other)] + (["--soft"] if op["soft"] else []))
                        elif op["op"] == "upgrade":
                            cut = {k: v for k, v in before.items() if k not in op["drop"]}
                            write_settings(st, cut)
                            info["before"] = cut
                            Path(st.USER_ASSETS_VERSION_PATH).write_bytes(op.get("stored", "v0.0.1-old").encode())
                            line = f"C18 upgrade {enc_dict(cut)}"
                            st.update_if_outdated()
                except SystemExit as e:
                    info["exc"] = f"SystemExit({e.code})"
                except Exception as e:  # noqa
                    info["exc"] = type(e).__name__ + ": " + str(e)[:100]
                info["after"] = read_settings(st)
                if op["op"] == "upgrade":
                    import evo
                    info["stamp"], info["version"] = Path(st.USER_ASSETS_VERSION_PATH).read_text(), evo.__version__
                info["defaults_now"] = dict(mc.DEFAULT_SETTINGS_DICT)
                jobs.append((case, info, line))
                if not encodable(info["after"]):
                    break
        elif kind == "lock":
            cont = st.SettingsContainer(dict(D))
            exc = None
            try:
                setattr(cont, case["key"], case["value"])
            except st.SettingsException:
                exc = "REFUSED"
            after = {k: v for k, v in cont.items() if k != "__locked__"}
            jobs.append((case, {"impl": exc or after},
                         f"C18 lock {enc_dict(D)} {core.hexs(case['key'])} {enc_val(case['value'])}"))
        elif kind == "mergecfg":
            cfgfile = home_other / "cfg.json"
            cfgfile.write_text(json.dumps(case["config"]))
            ns0 = {o["name"]: o["default"] for o in OPT_TABLES[case["app"]]}
            ns0["config"] = spell(cfgfile, ("str", "rel", "dotted", "path")[len(case["config"]) % 4])
            saved = {k: v for k, v in st.SETTINGS.items()}
            S0 = st.SETTINGS          # the container every evo module bound at import (`from evo.tools.settings import SETTINGS`)
            import importlib
            for mname in ("evo.main_ape", "evo.main_rpe", "evo.main_traj", "evo.main_res", "evo.common_ape_rpe",
                          "evo.tools.plot", "evo.tools.file_interface", "evo.tools.log", "evo.tools.pandas_bridge"):
                try:
                    importlib.import_module(mname)
                except Exception:  # noqa
                    pass
            disk_before = Path(st.DEFAULT_PATH).read_bytes()
            fresh_before = dict(st.SettingsContainer.from_json_file(st.DEFAULT_PATH))
            try:
                try:
                    with quiet():
                        out = ep.merge_config(argparse.Namespace(**ns0))
                except Exception as e:  # noqa  (L12: never a harness crash)
                    ctx.mismatch(case, "merge_config raised", type(e).__name__ + ": " + str(e)[:100], None)
                    continue
                settings_after = {k: v for k, v in st.SETTINGS.items() if k != "__locked__"}
                # "overrides matching package settings for that run": what every already imported evo module sees
                stale = sorted(mn for mn, mod in list(sys.modules.items())
                               if mn.startswith("evo.") and isinstance(getattr(mod, "SETTINGS", None), dict)
                               and {k: v for k, v in mod.SETTINGS.items() if k != "__locked__"} != settings_after)
                if stale:
                    ctx.fail(case, "config-overrides-package-settings-for-the-run",
                             f"after merge_config the SETTINGS seen by {stale[:4]} differ from evo.tools.settings.SETTINGS "
                             f"(the -c overrides do not reach the modules that use them)")
                # a second run without -c in this process re-parses its own arguments; a *new* run loads the file:
                fresh = dict(st.SettingsContainer.from_json_file(st.DEFAULT_PATH))
            finally:
                st.SETTINGS = S0
                for k, v in saved.items():
                    dict.__setitem__(st.SETTINGS, k, v)
                for k in [k for k in st.SETTINGS if k not in saved]:
                    dict.__delitem__(st.SETTINGS, k)
            disk_after = Path(st.DEFAULT_PATH).read_bytes()
            s0 = {k: v for k, v in saved.items() if k != "__locked__"}
            ns0["config"] = str(ns0["config"])
            out.config = str(out.config) if isinstance(getattr(out, "config", None), Path) else out.config
            jobs.append((case, {"ns0": ns0, "ns": vars(out), "settings0": s0, "settings": settings_after,
                                "persisted": disk_before != disk_after or fresh != fresh_before},
                         f"C18 mergecfg {enc_dict(ns0)} {enc_dict(case['config'])} {enc_dict(s0)}"))
        elif kind == "gen":
            toks = case["toks"] if case.get("toks") is not None else rand_arglist(case["app"], case["seed"])
            case = dict(case, toks=toks)
            info = run_gen(case, mc, ep, home_other)
            jobs.append((case, dict(info, which="generate"), f"C18 generate {enc_strs(toks)}"))
            jobs.append((case, dict(info, which="argparse"), f"C18 argparse {case['app']} {enc_strs(toks)}"))
            jobs.append((case, dict(info, which="viaconfig"), f"C18 viaconfig {case['app']} {enc_strs(toks)}"))
            jobs.append((case, dict(info, which="wfargs"), f"C18 wfargs {case['app']} {enc_strs(toks)}"))
        else:
            raise core.ToolError(f"unknown case kind {kind}")
    live = [(c, i, l) for (c, i, l) in jobs if l is not None]
    outs = core.run_driver([l for (_, _, l) in live])
    seen_gen = set()
    for (case, info, line), out in zip(live, outs):
        judge(ctx, case, info, out, D, seen_gen)


def spell(path, how):
    """the same file under another spelling / type (L7)"""
    p = str(path)
    if how == "path":
        return Path(p)
    if how == "rel":
        return os.path.relpath(p)
    if how == "dotted":
        return os.path.join(os.path.dirname(p), ".", "..", os.path.basename(os.path.dirname(p)), os.path.basename(p))
    return p


def run_main(mc, argv):
    sys.argv = ["evo_config"] + argv
    try:
        mc.main()
    except SystemExit as e:
        if e.code not in (None, 0):
            raise


def run_gen(case, mc, ep, tmp):
    import importlib
    par = importlib.import_module(f"evo.main_{case['app']}_parser")
    toks = case["toks"]
    pos = ["tum", "ref.txt", "est.txt"] if case["app"] != "traj" else ["tum", "a.txt"]
    info = {"gen": None, "direct": None, "via": None, "exc_direct": None, "exc_via": None}
    with quiet():
        try:
            info["gen"] = mc.generate(toks)
        except Exception as e:  # noqa
            info["gen"] = "EXC " + type(e).__name__
        try:
            info["direct"] = vars(par.parser().parse_args(pos + toks))
        except SystemExit as e:
            info["exc_direct"] = f"SystemExit({e.code})"
        if isinstance(info["gen"], dict):
            cfg = tmp / "gen.json"
            cfg.write_text(json.dumps(info["gen"], indent=4, sort_keys=True))
            from evo.tools import settings as st
            saved = {k: v for k, v in st.SETTINGS.items()}
            try:
                args = par.parser().parse_args(pos + ["-c", str(cfg)])
                info["via"] = vars(ep.merge_config(args))
            except SystemExit as e:
                info["exc_via"] = f"SystemExit({e.code})"
            finally:
                for k, v in saved.items():
                    dict.__setitem__(st.SETTINGS, k, v)
    return info


SKIP_NS = ("config", "subcommand", "ref_file", "est_file", "traj_files")


def judge(ctx, case, info, out, D, seen_gen):
    kind = case["kind"]
    if kind == "tok":
        impl, val = info["impl"]
        model = out.split()
        m = (model[0] == "1", model[1] if len(model) > 1 else None)
        if (impl, val) != m:
            ctx.mismatch(case, "is_number / float(token) differs from Config.isNumber / toFloat", [impl, val], list(m))
        ctx.count("branch", "tok:number" if impl else "tok:not-a-number")
        ctx.record(case, impl)
        return
    if kind == "lock":
        impl = info["impl"]
        model = out if out == "REFUSED" else dec_dict(out)
        if (impl if impl == "REFUSED" else canon(impl)) != model:
            ctx.mismatch(case, "SettingsContainer lock differs from Config.lockedSet", impl, model)
        known = case["key"] in D
        if known and impl == "REFUSED":
            ctx.fail(case, "known-parameter-settable", f"{case['key']} refused")
        if not known and impl != "REFUSED":
            ctx.fail(case, "unknown-parameter-cannot-be-added", f"{case['key']!r} was added to the locked settings")
        ctx.count("branch", "lock:refused" if impl == "REFUSED" else "lock:set")
        ctx.record(case, not known)
        return
    if kind == "mergecfg":
        a, b = out.split(" | ")
        m_ns, m_set = dec_dict(a), dec_dict(b)
        if canon(info["ns"]) != m_ns:
            ctx.mismatch(case, "merge_config namespace differs from Config.mergeConfig", canon(info["ns"]), m_ns)
        if canon(info["settings"]) != m_set:
            ctx.mismatch(case, "SETTINGS after merge_config differs from Config.updateExisting", None, None)
        cfg = case["config"]
        for k, v in cfg.items():
            if info["ns"].get(k) != v or type(info["ns"].get(k)) is not type(v):
                ctx.fail(case, "config-file-takes-priority", f"{k}: namespace has {info['ns'].get(k)!r}, config file {v!r}")
            if k in info["settings0"] and info["settings"].get(k) != v:
                ctx.fail(case, "config-overrides-matching-settings", f"{k}: SETTINGS has {info['settings'].get(k)!r}")
        for k, v in info["settings0"].items():
            if k not in cfg and info["settings"].get(k) != v:
                ctx.fail(case, "config-overrides-only-matching-settings", f"{k} changed")
        if set(info["settings"]) != set(info["settings0"]):
            ctx.fail(case, "unknown-parameter-cannot-be-added", f"SETTINGS keys changed: {set(info['settings']) ^ set(info['settings0'])}")
        if info["persisted"]:
            ctx.fail(case, "override-for-that-run-only", "settings.json on disk changed / a freshly loaded SETTINGS differs")
        ctx.count("branch", "mergecfg")
        ctx.record(case, any(k in info["settings0"] for k in cfg))
        return
    if kind == "hist":
        judge_hist(ctx, case, info, out, D)
        return
    if kind == "gen":
        judge_gen(ctx, case, info, out, seen_gen)
        return


def judge_hist(ctx, case, info, out, D):
    op, before, after = info["op"], info["before"], info["after"]
    sub = {"kind": "hist", "ops": case["ops"][: info["step"] + 1]}
    palette = op["op"].startswith("set") and "plot_seaborn_palette" in op.get("args", [])
    if out in ("E_UNSUPPORTED", "E_OVERFLOW"):
        ctx.skipped += 1
        return
    model = dec_dict(out)
    if info["exc"] is not None:
        if info["exc"].startswith("SystemExit") and after == before:
            ctx.count("dist", "hist:cli-rejected-arguments")
            ctx.skipped += 1
            return
        ctx.mismatch(sub, f"step {info['step']} ({op['op']}) raised", info["exc"], None)
        return
    if canon(after) != model:
        diff = {k: (canon(after).get(k), model.get(k)) for k in set(after) | set(model) if canon(after).get(k) != model.get(k)}
        ctx.mismatch(sub, f"settings.json after step {info['step']} ({op['op']}) differs from the model", diff, None)
    # ---------------- oracle: the property sentences
    if info.get("defaults_now") is not None and (info["defaults_now"] != PRISTINE[0] or
                                                  list(map(type, info["defaults_now"].values())) != list(map(type, PRISTINE[0].values()))):
        bad = [k for k in PRISTINE[0] if info["defaults_now"].get(k) != PRISTINE[0][k]] + \
              [k for k in info["defaults_now"] if k not in PRISTINE[0]]
        ctx.fail(sub, "reset-restores-the-shipped-defaults",
                 f"DEFAULT_SETTINGS_DICT was modified in this process by step {info['step']} ({op['op']}): {bad[:4]}")
    o = op["op"]
    if o in ("set", "set_cli"):
        args = op["args"]
        if list(after.keys()) != sorted(after.keys()) or set(after) != set(before):
            ctx.fail(sub, "set-never-adds-or-removes-keys", f"keys changed: {sorted(set(after) ^ set(before))}")
        for k in before:
            if k not in args and k in after and (after[k] != before[k] or type(after[k]) is not type(before[k])):
                ctx.fail(sub, "set-changes-only-named-keys", f"{k}: {before[k]!r} -> {after[k]!r}")
            if k in after and isinstance(before[k], bool) and not isinstance(after[k], bool):
                ctx.fail(sub, "boolean-stays-boolean", f"{k}: {before[k]!r} -> {after[k]!r}")
            if k in after and isinstance(before[k], list) and not isinstance(after[k], list) and k != "plot_seaborn_palette":
                ctx.fail(sub, "list-stays-list", f"{k}: {before[k]!r} -> {after[k]!r}")
        # numeric tokens become numbers: single key, single numeric value, non-bool non-list parameter
        if len(args) == 2 and args[0] in before and not isinstance(before[args[0]], (bool, list)) and args[0] != "plot_seaborn_palette":
            tok = args[1]
            if is_plain_number(tok) and args[1] not in before:
                v = after.get(args[0])
                if isinstance(v, bool) or not isinstance(v, (int, float)) or Fraction(v) != Fraction(float(tok)):
                    ctx.fail(sub, "numeric-token-becomes-number", f"{args[0]} {tok!r} -> {v!r}")
    elif o in ("reset_sub", "reset_sub_cli"):
        for k in set(before) | set(after):
            if k in op["params"] and k in D:
                if after.get(k) != D[k] or type(after.get(k)) is not type(D[k]):
                    ctx.fail(sub, "reset-subset-restores-defaults", f"{k}: {after.get(k)!r} != default {D[k]!r}")
            elif after.get(k) != before.get(k) or type(after.get(k)) is not type(before.get(k)):
                ctx.fail(sub, "reset-subset-leaves-others", f"{k}: {before.get(k)!r} -> {after.get(k)!r}")
    elif o == "reset_all":
        if after != D:
            ctx.fail(sub, "reset-all-restores-defaults", "file differs from DEFAULT_SETTINGS_DICT")
    elif o in ("merge", "merge_cli"):
        other = op["other"]
        if set(after) != set(before) | set(other):
            ctx.fail(sub, "merge-keys-are-union", f"{sorted(set(after) ^ (set(before) | set(other)))}")
        for k in after:
            want = (before[k] if (k in before and (op["soft"] or k not in other)) else other[k])
            if after[k] != want or type(after[k]) is not type(want):
                ctx.fail(sub, "merge-priority", f"{k}: {after[k]!r}, expected {want!r} (soft={op['soft']})")
    elif o == "upgrade":
        if info.get("stamp") is not None and info["stamp"] != info.get("version"):
            ctx.fail(sub, "upgrade-renews-the-version-stamp", f"assets_version is {info['stamp']!r} after the upgrade of a home stamped {op.get('stored')!r}")
        for k in D:
            if k not in after:
                ctx.fail(sub, "upgrade-adds-missing-default-keys", f"{k} missing")
        for k, v in before.items():
            if after.get(k) != v or type(after.get(k)) is not type(v):
                ctx.fail(sub, "upgrade-keeps-user-values", f"{k}: {v!r} -> {after.get(k)!r}")
    ctx.count("branch", "hist:" + o)
    if palette:
        ctx.count("dist", "hist:palette")
    ctx.record(sub, after != before)


def is_plain_number(tok):
    import re
    return re.fullmatch(r"[+-]?(\d+\.?\d*|\.\d+)([eE][+-]?\d+)?", tok) is not None


def ns_canon(ns):
    return {k: canon(v) for k, v in ns.items() if k not in SKIP_NS}


def judge_gen(ctx, case, info, out, seen_gen):
    which = info["which"]
    toks = case["toks"]
    app = case["app"]
    if which == "generate":
        impl = info["gen"]
        model = out if out.startswith("E_") else dec_dict(out)
        if (canon(impl) if isinstance(impl, dict) else impl) != model:
            ctx.mismatch(case, "generate(arg_list) differs from Config.generate", canon(impl) if isinstance(impl, dict) else impl, model)
        return
    if which == "argparse":
        if info["exc_direct"] is not None:
            if out != "E_ARGS":
                ctx.mismatch(case, "argparse rejected the list, the model accepts it", info["exc_direct"], out[:80])
            return
        if out == "E_ARGS":
            ctx.mismatch(case, "the model rejects a list argparse accepts", "accepted", out)
            return
        if ns_canon(info["direct"]) != dec_ns(out):
            a, b = ns_canon(info["direct"]), dec_ns(out)
            ctx.mismatch(case, "parse_args namespace differs from Config.argparseLong",
                         {k: (a.get(k), b.get(k)) for k in set(a) | set(b) if a.get(k) != b.get(k)}, None)
        return
    if which == "wfargs":
        # hypothesis of generate_equiv_args: a well-formed list must be accepted by both real readers
        if out == "1":
            ctx.count("branch", "gen:well-formed (hypothesis of generate_equiv_args)")
            if info["exc_direct"] is not None or info["via"] is None:
                ctx.mismatch(case, "the model calls the list well-formed, but evo/argparse rejects it",
                             [info["exc_direct"], info["exc_via"]], "well-formed")
        else:
            ctx.count("branch", "gen:outside-the-modelled-classes")
        return
    # which == "viaconfig": model of generate + merge_config, and the oracle
    if info["via"] is not None and not out.startswith("E_"):
        if ns_canon(info["via"]) != dec_ns(out):
            a, b = ns_canon(info["via"]), dec_ns(out)
            ctx.mismatch(case, "namespace via generate + merge_config differs from the model",
                         {k: (a.get(k), b.get(k)) for k in set(a) | set(b) if a.get(k) != b.get(k)}, None)
    table = {o["name"]: o for o in OPT_TABLES[app]}
    if info["exc_direct"] is None:
        if info["via"] is None:
            ctx.fail(case, "generated-config-equals-args", f"arguments are accepted directly, but via the generated config: {info['exc_via'] or info['gen']}")
        else:
            d, v = info["direct"], info["via"]
            for k in sorted(set(d) | set(v)):
                if k in SKIP_NS:
                    continue
                if k not in d or k not in v:
                    ctx.fail(case, "generated-config-equals-args", f"{k}: only in {'config' if k in v else 'direct'} namespace "
                                                                    f"(value {v.get(k, d.get(k))!r}) for {toks}")
                    continue
                same_type = type(d[k]) is type(v[k]) or (table.get(k, {}).get("kind") == "float" and
                                                         all(isinstance(x, (int, float)) and not isinstance(x, bool) for x in (d[k], v[k])))
                if isinstance(d[k], list) and isinstance(v[k], list):
                    same_type = len(d[k]) == len(v[k])
                if d[k] != v[k] or not same_type:
                    ctx.fail(case, "generated-config-equals-args", f"{k}: direct {d[k]!r} vs via config {v[k]!r} for {toks}")
    ctx.count("branch", "gen:" + ("negative-number" if any(t[:1] == "-" and t[1:2].isdigit() or t[:2] == "-." for t in toks) else
                                  "int-valued" if any(t.lstrip("+-").isdigit() for t in toks) else "plain"))
    ctx.count("dist", "gen:" + app)
    ctx.record(case, any(table.get(t[2:], {}).get("kind") in ("int", "float") for t in toks if t.startswith("--")))


def shrink(case):
    if case["kind"] == "gen" and case.get("toks"):
        t = case["toks"]
        idx = [i for i, x in enumerate(t) if x.startswith("--") and not x[2:3].isdigit()] + [len(t)]
        for a, b in zip(idx, idx[1:]):
            c = dict(case)
            c["toks"] = t[:a] + t[b:]
            if c["toks"]:
                yield c
    if case["kind"] == "hist":
        ops = case["ops"]
        for i in range(len(ops) - 1):
            c = dict(case)
            c["ops"] = ops[:i] + ops[i + 1:]
            yield c


def pre_build():
    out = {}
    out.update(settings_T.generate())
    with quiet():
        out.update(options_T.generate())
    return out


ENTRY_CHILD = r"""
import json, os, sys
sys.path.insert(0, os.environ["EVO_TREE"])
mode, app = sys.argv[1], sys.argv[2]
overrides = json.loads(sys.argv[3])
import numpy as np
if mode == "prepare":
    from evo.core.trajectory import PoseTrajectory3D
    from evo.core import metrics
    from evo.tools import file_interface as fi
    from evo import main_ape
    n = 6
    xyz = np.cumsum(np.ones((n, 3)) * 0.25, axis=0)
    q = np.tile([1.0, 0, 0, 0], (n, 1))
    ts = np.arange(n, dtype=float)
    a, b = PoseTrajectory3D(xyz, q, ts), PoseTrajectory3D(xyz + 0.125, q, ts)
    fi.save_res_file("r1.zip", main_ape.ape(a, b, metrics.PoseRelation.translation_part))
    fi.write_tum_trajectory_file("a.tum", a)
    sys.exit(0)
if mode == "settings":        # the values live in settings.json, no -c
    import evo.main_config as mc
    import evo.tools.settings as st
    toks = []
    for k, v in overrides.items():
        toks += [k, json.dumps(v) if isinstance(v, bool) else str(v)]
    mc.set_config(st.DEFAULT_PATH, toks)
    sys.exit(0)
# mode == "run": the real entry point, in the real order (import the command module, merge the -c file, run)
from evo import entry_points
argv = {"res": ["evo_res", "r1.zip", "--save_table", "table.out", "--no_warnings"],
        "traj": ["evo_traj", "tum", "a.tum", "--save_table", "table.out", "--no_warnings"]}[app]
if sys.argv[4] == "with-c":
    argv += ["-c", "cfg.json"]
sys.argv = argv
getattr(entry_points, app)()
"""


def entry_point_stream(ctx):
    """`-c` overrides matching package settings *for that run*: a settings key given in the -c file must have the same
    effect on what the command writes as the same value stored in settings.json — through the real entry points
    (fresh interpreter, real import order), for the settings that shape an output file"""
    import subprocess
    overrides = {"table_export_format": "json", "table_export_transpose": False}
    for app in ("res", "traj"):
        case = {"kind": "entry", "app": app, "overrides": overrides}
        outs = {}
        for how in ("with-c", "in-settings"):
            d = tempfile.mkdtemp(prefix="c18_entry_")
            env = dict(os.environ, HOME=d, EVO_TREE=str(core.REPO), MPLBACKEND="Agg", PYTHONPATH=str(core.REPO))
            run = lambda *a: subprocess.run([sys.executable, "-W", "ignore", "-c", ENTRY_CHILD, *a], cwd=d, env=env,  # noqa: E731
                                            capture_output=True, text=True, timeout=300)
            try:
                p = run("prepare", app, "{}")
                if p.returncode:
                    raise core.ToolError("entry stream: preparation failed: " + p.stderr[-300:])
                Path(d, "cfg.json").write_text(json.dumps(overrides))
                if how == "in-settings":
                    run("settings", app, json.dumps(overrides))
                p = run("run", app, "{}", "with-c" if how == "with-c" else "plain")
                f = Path(d, "table.out")
                outs[how] = f.read_text() if f.exists() else f"<no table written: exit {p.returncode}: {p.stderr[-200:]}>"
            finally:
                import shutil
                shutil.rmtree(d, ignore_errors=True)
        if outs["with-c"] != outs["in-settings"]:
            ctx.fail(case, "config-overrides-package-settings-for-the-run",
                     f"evo_{app} --save_table with {overrides} given by -c writes {outs['with-c'][:70]!r}, with the same values "
                     f"in settings.json {outs['in-settings'][:70]!r}")
        ctx.count("branch", "entry-point:" + app)
        ctx.record(case, True)


def check(ctx):
    lean = core.lean_side(ctx.prop, ctx.tier, pre_build=pre_build)
    core.drift(ctx, MODELLED)
    cases = list(gen_cases(ctx))
    evaluate(ctx, cases)
    entry_point_stream(ctx)
    core.shrink_all(ctx, shrink, evaluate, budget=60)
    return core.finish(
        ctx, lean, rule=RULE,
        extra_trusted=["translators harness/translate/settings.py, options.py (evaluate the real dict / parser._actions)"],
        open_clauses=["token spellings outside the modelled alphabet: nan, inf, infinity, digits with '_', surrounding white space, "
                      "non-ASCII digits / letters; tokens overflowing binary64",
                      "plot_seaborn_palette (value decided by seaborn's palette registry) is not set in the histories",
                      "generate ≡ args is claimed for long options only, with values of the option's type: a string-typed option given a "
                      "numeric-looking value becomes a number in the generated config, and negative numbers in exponent notation "
                      "(-1e-3) are rejected by argparse itself; both classes are excluded (generate_equiv_args is _partial)",
                      "the effect of a namespace on an evo_ape run (same result zip) is not re-run here: equality of namespaces is compared"],
        assumptions=["config / other files are JSON objects whose values are atoms or flat lists of atoms"])


def replay(ctx, data):
    pre_build()
    core.sh("lake build drv_C18", cwd=core.LEAN)
    evaluate(ctx, [data["case"]])
    return core.finish_replay(ctx)
