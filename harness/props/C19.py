"""C19 — the settings file stays loadable across crashes and concurrent starts.
Model: lean/EvoModel/Model/{FS,SettingsProc}.lean (programs of atomic file-system steps, any
interleaving, any crash point).  Tie: *trace correspondence* — a forked child imports evo with an
isolated HOME under a bootstrap that wraps builtins.open / file write+close / os.replace /
Path.mkdir / Path.exists below ~/.evo; the recorded step sequence of every scenario must equal the
model's program run.  Supporting evidence on the implementation: crash after every step (also in
the middle of a write) followed by a fresh start; step-gated interleavings of two or three
processes.  Oracle (independent of the model): after every step / crash the settings file is absent
or a complete JSON document, every started process exits normally and sees every default key."""
import json
import os
import shutil
import sys
import tempfile
from pathlib import Path

import core

sys.path.insert(0, str(Path(__file__).resolve().parent.parent / "translate"))
import settings as settings_T  # noqa: E402

MODELLED = ['evo/tools/settings.py:write_atomically',
            'evo/tools/settings.py:write_to_json_file',
            'evo/tools/settings.py:reset',
            'evo/tools/settings.py:initialize_if_needed',
            'evo/tools/settings.py:update_if_outdated',
            'evo/tools/settings.py:merge_dicts',
            'evo/tools/settings.py:SettingsContainer.from_json_file',
            'evo/main_config.py:set_config',
            'evo/main_config.py:merge_json_union',
            'evo/main_config.py:show',
            'evo/main_config.py:main']

RULE = ("cases = trace(scenario, initial home) for 9 scenarios (import, reset all/subset, set, merge; through the "
        "functions and through evo_config's main()) x initial homes (fresh, dir only, version only, initialised, "
        "outdated, outdated lacking keys); crash(scenario, home, k, torn) for every step k of every trace (and torn in "
        "the middle of every write) followed by a fresh start; interleave(schedule) of 2-3 step-gated processes; "
        "prefix = every proper prefix of the settings text is not JSON. Recorded steps / file classes / exit status "
        "compared exactly with the model; non-trivial = at least one write step executed; distinct by content hash")

SCENARIOS = ["start", "reset_all", "reset_subset", "set", "merge",
             "cli_set", "cli_set_merge", "cli_reset_all", "cli_reset_subset",
             "cli_set_then_reset", "set_reset_set"]      # L2: two invocations / three edits in ONE process
# (dir, V, S): homes as evo leaves them (Consistent in the model) ...
INITS = [("0", "absent", "absent"), ("1", "absent", "absent"), ("1", "current", "absent"),
         ("1", "current", "wf"), ("1", "old", "wf"), ("1", "old", "lacking"), ("1", "empty", "lacking")]
# stored version strings: `update_if_outdated` must treat every string other than __version__ as outdated
# (lexicographically larger-but-older stamps, trailing white space, a longer patch number, garbage)
VERSION_STRINGS = ["v1.9.0", "v1.5.0", "v1.4.2", "v9", "z", "v1.31.10", "v1.31.1 ", "v1.31.1\n", "v1.31.0", "v1.10.0", "v0", "V1.31.1",
                   "v1.31", "1.31.1", "v2.0.0", "{}"]


def ver_init(v, s="lacking"):
    return ("1", "ver:" + v.encode().hex(), s)


# ... and damaged homes (pre-fix leftovers): the model must predict the failure as well
BAD_INITS = [("1", "current", "empty"), ("1", "current", "torn"), ("1", "absent", "empty")]

_PRELOADED = False


def preload():
    """import the third-party modules evo's settings/config code needs *before* forking (never evo itself)"""
    global _PRELOADED
    if _PRELOADED:
        return
    import argparse, logging, colorama, pygments, pygments.lexers, pygments.formatters, argcomplete  # noqa
    import pygments.lexers.data, pygments.formatters.terminal256, pygments.styles  # noqa
    try:
        import pygments.styles.monokai  # noqa
    except Exception:
        pass
    _PRELOADED = True


def default_text_and_version():
    d = settings_T.default_settings()
    src = (core.REPO / "evo" / "__init__.py").read_text()
    import re
    ver = re.search(r'__version__\s*=\s*"([^"]+)"', src).group(1)
    return d, ver


# ----------------------------------------------------------------------------- homes
def make_home(init, defaults, version):
    d, v, s = init
    home = tempfile.mkdtemp(prefix="evo_c19_")
    evo = Path(home) / ".evo"
    if d == "1":
        evo.mkdir()
        if v.startswith("ver:"):
            (evo / "assets_version").write_bytes(bytes.fromhex(v[4:]))
        elif v != "absent":
            (evo / "assets_version").write_text({"current": version, "old": "v0.0.1", "empty": "", "torn": version[:2]}[v])
        if s != "absent":
            full = json.dumps(defaults, indent=4, sort_keys=True)
            lacking = dict(list(defaults.items())[3:])
            lacking["plot_linewidth"] = 2.25          # a user value that must survive an upgrade
            text = {"wf": full, "lacking": json.dumps(lacking, indent=4, sort_keys=True), "empty": "",
                    "torn": full[: len(full) // 2], "garbage": full[:40] + full[10:]}[s]
            (evo / "settings.json").write_text(text)
    other = Path(home) / "other.json"
    other.write_text(json.dumps({"extra_key_of_other_file": 1, "plot_split": True}))
    return home


def classify(home, defaults, version):
    evo = Path(home) / ".evo"
    out = {"dir": "1" if evo.is_dir() else "0"}
    sp, vp = evo / "settings.json", evo / "assets_version"
    if not sp.exists():
        out["S"] = "absent"
    else:
        raw = sp.read_text()
        if raw == "":
            out["S"] = "empty"
        else:
            try:
                doc = json.loads(raw)
                out["S"] = ("doc-wf" if isinstance(doc, dict) and set(defaults) <= set(doc) else "doc-lacking") \
                    if isinstance(doc, dict) else "bad"
            except ValueError:
                out["S"] = "bad"
    if not vp.exists():
        out["V"] = "absent"
    else:
        raw = vp.read_bytes().decode("utf-8", "replace")
        out["V"] = "empty" if raw == "" else "ver-current" if raw == version else \
            "bad" if (version.startswith(raw) and len(raw) <= 2) else "ver-old"
    out["tmp"] = sorted(p.name for p in evo.glob("*.tmp")) if evo.is_dir() else []
    return out


def model_class(c):
    return "bad" if c in ("torn", "garbage") else c


# ----------------------------------------------------------------------------- the traced child
def child_main(home, scenario, wfd, rfd, crash_after, torn, interrupt=False, stale_tmp=False):
    """runs in the forked child; never returns"""
    import builtins
    import pathlib
    devnull = os.open(os.devnull, os.O_WRONLY)
    os.dup2(devnull, 1)
    os.dup2(devnull, 2)
    os.environ["HOME"] = home
    for m in [m for m in sys.modules if m == "evo" or m.startswith("evo.")]:
        del sys.modules[m]
    if str(core.REPO) not in sys.path:
        sys.path.insert(0, str(core.REPO))
    evo_dir = os.path.join(home, ".evo")
    pid = os.getpid()
    names = {os.path.join(evo_dir, "settings.json"): "S", os.path.join(evo_dir, "assets_version"): "V",
             os.path.join(evo_dir, f"settings.json.{pid}.tmp"): "tmpS",
             os.path.join(evo_dir, f"assets_version.{pid}.tmp"): "tmpV", evo_dir: "dir"}
    state = {"n": 0}

    def send(obj):
        os.write(wfd, (json.dumps(obj) + "\n").encode())

    def name_of(p):
        try:
            p = os.fspath(p)
        except TypeError:
            return None
        if isinstance(p, bytes):
            p = os.fsdecode(p)
        p = os.path.abspath(p)
        if p in names:
            return names[p]
        if p.startswith(evo_dir + os.sep):
            base = os.path.basename(p)
            # a temporary file of an atomic write, private to this process: `<target>.<...pid...>` (any naming scheme that
            # carries the process id as a dot-separated component: settings.json.<pid>.tmp, settings.json.<pid>.<n>.tmp, ...)
            for target, tag in (("settings.json", "tmpS"), ("assets_version", "tmpV")):
                if base.startswith(target + ".") and str(pid) in base[len(target) + 1:].split("."):
                    return tag
            return "other:" + base
        return None

    def before(label):
        """gate: announce the step, wait for the scheduler's go"""
        if rfd is not None:
            send({"ready": label})
            if os.read(rfd, 1) != b"g":
                os._exit(78)

    def after(label):
        state["n"] += 1
        send({"step": label})
        if crash_after is not None and not torn and state["n"] == crash_after:
            if interrupt:
                # not a kill: the process is interrupted (Ctrl-C / a failing system call surfaces as an exception) right after
                # this step; evo's own clean-up code (with-blocks, finally) runs — it must not publish unfinished data
                state["n"] += 10 ** 6
                raise KeyboardInterrupt("injected after " + label)
            os._exit(77)

    real_open, real_replace = builtins.open, os.replace
    real_mkdir, real_exists = pathlib.Path.mkdir, pathlib.Path.exists

    class WFile:
        def __init__(self, f, nm):
            self._f, self._nm = f, nm

        def write(self, text):
            if isinstance(text, (bytes, bytearray)):
                text = bytes(text).decode("utf-8", "replace")
            if getattr(self, "_written", False):
                # a further chunk of the same logical write (e.g. json.dump streaming into the file): one step of the
                # model — a kill between two chunks leaves a prefix, which is the model's torn write
                return self._f.write(text)
            self._written = True
            kind = {"tmpS": "doc", "S": "doc", "tmpV": "version", "V": "version"}.get(
                self._nm, "version" if not text.lstrip().startswith("{") else "doc")
            label = f"write {self._nm} {kind}"
            before(label)
            if torn and crash_after is not None and state["n"] + 1 == crash_after:
                self._f.write(text[: max(1, len(text) // 2)])
                self._f.flush()
                send({"step": "torn " + label})
                os._exit(77)
            r = self._f.write(text)      # NOT flushed: like the code under test, the text reaches the disk when the
            after(label)                 # file is closed (a kill before that loses it — os._exit does not flush)
            return r

        def close(self):
            if not self._f.closed:
                before(f"close {self._nm}")
                self._f.close()
                after(f"close {self._nm}")

        def __enter__(self):
            return self

        def __exit__(self, *a):
            self.close()
            return False

        def __getattr__(self, a):
            return getattr(self._f, a)

    def t_open(file, mode="r", *a, **k):
        nm = name_of(file) if isinstance(file, (str, bytes, os.PathLike)) else None
        if nm is None:
            return real_open(file, mode, *a, **k)
        if "w" in mode or "a" in mode or "x" in mode:
            before(f"open_w {nm}")
            f = real_open(file, mode, *a, **k)
            after(f"open_w {nm}")
            return WFile(f, nm)
        if "+" in mode:
            before(f"open_rw {nm}")
            f = real_open(file, mode, *a, **k)
            after(f"open_rw {nm}")
            return WFile(f, nm)
        before(f"read {nm}")
        f = real_open(file, mode, *a, **k)     # FileNotFoundError propagates like in evo
        after(f"read {nm}")
        return f

    def t_replace(src, dst, *a, **k):
        s, d = name_of(src), name_of(dst)
        if s is None and d is None:
            return real_replace(src, dst, *a, **k)
        label = f"replace {d}" if s == "tmp" + str(d) else f"replace {s}->{d}"
        before(label)
        real_replace(src, dst, *a, **k)
        after(label)

    def t_mkdir(self, mode=0o777, parents=False, exist_ok=False):
        nm = name_of(self)
        if nm is None:
            return real_mkdir(self, mode, parents, exist_ok)
        label = ("mkdir_ok" if exist_ok else "mkdir_strict") if nm == "dir" else f"mkdir {nm}"
        before(label)
        try:
            real_mkdir(self, mode, parents, exist_ok)
        finally:
            after(label)

    def t_exists(self, *a, **k):
        nm = name_of(self)
        if nm is None:
            return real_exists(self, *a, **k)
        before(f"exists {nm}")
        r = real_exists(self, *a, **k)
        after(f"exists {nm} {'yes' if r else 'no'}")
        return r

    import io
    real_os_open, real_fdopen, real_rename = os.open, os.fdopen, os.rename
    fd_names = {}

    def t_os_open(path, flags, *a, **k):
        nm = name_of(path) if isinstance(path, (str, bytes, os.PathLike)) else None
        if nm is None or not (flags & (os.O_WRONLY | os.O_RDWR | os.O_CREAT)):
            return real_os_open(path, flags, *a, **k)
        before(f"open_w {nm}")
        fd = real_os_open(path, flags, *a, **k)
        fd_names[fd] = nm
        after(f"open_w {nm}")
        return fd

    def t_fdopen(fd, *a, **k):
        f = real_fdopen(fd, *a, **k)
        nm = fd_names.pop(fd, None) if isinstance(fd, int) else None
        return WFile(f, nm) if nm is not None else f

    def t_open_any(file, mode="r", *a, **k):
        if isinstance(file, int) and file in fd_names:       # open(fd, "w") on a descriptor from os.open
            nm = fd_names.pop(file)
            return WFile(real_open(file, mode, *a, **k), nm)
        return t_open(file, mode, *a, **k)

    builtins.open = io.open = t_open_any          # pathlib.Path.open / read_text / write_text go through io.open
    os.replace = os.rename = t_replace            # Path.replace / Path.rename look the functions up in os at call time
    os.open, os.fdopen = t_os_open, t_fdopen
    pathlib.Path.mkdir, pathlib.Path.exists = t_mkdir, t_exists
    if stale_tmp:
        # left-overs of an earlier run that was killed before its rename and had the SAME process id (containers start every
        # command as pid 1..n): longer than anything written now; they must be overwritten from the start, not patched
        os.makedirs(evo_dir, exist_ok=True)
        for nm_ in (f"settings.json.{pid}.tmp", f"assets_version.{pid}.tmp"):
            with real_open(os.path.join(evo_dir, nm_), "w") as f_:
                f_.write("{\n" + "    \"stale\": \"" + "x" * 6000 + "\"\n}\n")
    out = {"exit": 0, "exc": None, "loaded_all_keys": None, "phase": "import"}
    try:
        import evo.tools.settings as st
        from evo.tools.settings_template import DEFAULT_SETTINGS_DICT as D
        out["loaded_all_keys"] = set(D) <= set(k for k in st.SETTINGS.keys() if k != "__locked__")
        out["phase"] = "command"
        other = os.path.join(home, "other.json")
        if scenario == "start":
            pass
        elif scenario == "reset_all":
            st.reset()
        elif scenario == "reset_subset":
            st.reset(st.DEFAULT_PATH, ["plot_split", "plot_linewidth", "not_a_key"])
        else:
            import evo.main_config as mc
            if scenario == "set":
                mc.set_config(st.DEFAULT_PATH, ["plot_split", "plot_linewidth", "3"])
            elif scenario == "set_reset_set":
                mc.set_config(st.DEFAULT_PATH, ["plot_split", "plot_linewidth", "3"])
                st.reset(st.DEFAULT_PATH, ["plot_linewidth"])
                mc.set_config(str(st.DEFAULT_PATH), ["plot_linewidth", "4.5"])
            elif scenario == "cli_set_then_reset":
                for argv in (["set", "plot_split", "plot_linewidth", "3"], ["reset", "plot_split", "plot_linewidth"]):
                    sys.argv = ["evo_config"] + argv
                    try:
                        mc.main()
                    except SystemExit as e:
                        if e.code not in (None, 0):
                            raise RuntimeError(f"evo_config exited with {e.code}")
            elif scenario == "merge":
                mc.merge_json_union(st.DEFAULT_PATH, other, False)
            else:
                argv = {"cli_set": ["set", "plot_split", "plot_linewidth", "3"],
                        "cli_set_merge": ["set", "-m", other, "plot_split"],
                        "cli_reset_all": ["reset", "-y"],
                        "cli_reset_subset": ["reset", "plot_split", "plot_linewidth"]}[scenario]
                sys.argv = ["evo_config"] + argv
                try:
                    mc.main()
                except SystemExit as e:
                    if e.code not in (None, 0):
                        raise RuntimeError(f"evo_config exited with {e.code}")
        out["phase"] = "done"
    except BaseException as e:  # noqa
        out["exit"] = 1
        out["exc"] = type(e).__name__ + ": " + str(e)[:200]
    send({"result": out})
    os._exit(0 if out["exit"] == 0 else 1)


class Child:
    """a forked traced evo process; gated=True: every file-system step waits for `go()`"""

    def __init__(self, home, scenario, crash_after=None, torn=False, gated=False, interrupt=False, stale_tmp=False):
        preload()
        r1, w1 = os.pipe()                       # child -> parent
        r2, w2 = os.pipe() if gated else (None, None)   # parent -> child
        sys.stdout.flush()
        pid = os.fork()
        if pid == 0:
            try:
                os.close(r1)
                if gated:
                    os.close(w2)
                child_main(home, scenario, w1, r2, crash_after, torn, interrupt, stale_tmp)
            finally:
                os._exit(70)
        os.close(w1)
        if gated:
            os.close(r2)
        self.pid, self.rfd, self.wfd, self.buf = pid, r1, w2, b""
        self.steps, self.result, self.status, self.pending, self.finished = [], None, None, None, False

    def _read_msg(self):
        while b"\n" not in self.buf:
            chunk = os.read(self.rfd, 65536)
            if not chunk:
                return None
            self.buf += chunk
        line, self.buf = self.buf.split(b"\n", 1)
        return json.loads(line)

    def _pump(self):
        """read messages until the child waits at a gate or has ended"""
        while True:
            m = self._read_msg()
            if m is None:
                _, st = os.waitpid(self.pid, 0)
                self.status = os.waitstatus_to_exitcode(st)
                self.finished = True
                os.close(self.rfd)
                if self.wfd is not None:
                    os.close(self.wfd)
                return
            if "step" in m:
                self.steps.append(m["step"])
            elif "result" in m:
                self.result = m["result"]
            elif "ready" in m:
                self.pending = m["ready"]
                return

    def run_to_end(self):
        self._pump()
        return self

    def advance_to_gate(self):
        if not self.finished and self.pending is None:
            self._pump()

    def go(self):
        """let the child perform the step it is waiting for; returns False if it has ended"""
        self.advance_to_gate()
        if self.finished:
            return False
        self.pending = None
        os.write(self.wfd, b"g")
        self._pump()
        return True

    def kill(self):
        if not self.finished:
            try:
                os.kill(self.pid, 9)
            except ProcessLookupError:
                pass
            _, st = os.waitpid(self.pid, 0)
            self.finished = True
            os.close(self.rfd)
            if self.wfd is not None:
                os.close(self.wfd)


# ----------------------------------------------------------------------------- cases
def gen_cases(ctx):
    r = ctx.rng
    yield {"kind": "prefix"}
    for sc in SCENARIOS:
        for init in INITS:
            yield {"kind": "trace", "scenario": sc, "init": list(init)}
    for init in BAD_INITS:
        yield {"kind": "trace", "scenario": "start", "init": list(init)}
    # left-over temporary files of a killed earlier run with the same process id (longer than what is written now)
    for sc in ("start", "cli_set", "reset_subset", "cli_reset_all", "merge"):
        for init in (INITS[0], INITS[3], INITS[5]):
            yield {"kind": "trace", "scenario": sc, "init": list(init), "stale_tmp": True}
    _, cur = default_text_and_version()
    for v in VERSION_STRINGS + [cur]:
        for s_ in ("lacking", "wf"):
            if v == cur and s_ == "lacking":
                continue        # not a home evo leaves behind (outside `Consistent`)
            yield {"kind": "trace", "scenario": r.choice(["start", "start", "cli_set", "reset_subset"]), "init": list(ver_init(v, s_))}
    # crash points: (scenario, init) pairs; k ranges over the steps of the trace (filled in by evaluate)
    pairs = [(sc, init) for sc in SCENARIOS for init in INITS]
    vs = r.sample(VERSION_STRINGS, 2 if not ctx.thorough else len(VERSION_STRINGS))
    must = [("start", INITS[0]), ("start", INITS[5]), ("cli_set_merge", INITS[3]), ("reset_subset", INITS[4]),
            ("start", ver_init("v1.9.0"))] + [("start", ver_init(v)) for v in vs]
    chosen = must + (pairs if ctx.thorough else r.sample(pairs, 6))
    seen = set()
    for sc, init in chosen:
        if (sc, init) in seen:
            continue
        seen.add((sc, init))
        yield {"kind": "crash-all", "scenario": sc, "init": list(init)}
    n_il = 25 if not ctx.thorough else 250
    for _ in range(n_il):
        n = r.choice([2, 2, 2, 3])
        scs = [r.choice(["start", "start", "start", "cli_set", "reset_all", "merge", "reset_subset"]) for _ in range(n)]
        init = r.choice([INITS[0], INITS[0], INITS[0], INITS[1], INITS[2], INITS[5], INITS[4], ver_init(r.choice(VERSION_STRINGS))])
        style = r.choice(["uniform", "bursty", "lockstep", "late-last"])
        sched = []
        if style == "late-last":
            # the last process starts while the others are already interleaving (after k of their steps)
            k = r.randint(1, 25)
            first = [r.randrange(max(1, n - 1)) for _ in range(k)]
            rest = [r.randrange(n) for _ in range(45 * n)]
            sched = first + rest
        elif style == "lockstep":
            for _ in range(45):
                sched += list(range(n))
        else:
            cur = 0
            for _ in range(45 * n):
                if style == "uniform" or r.random() < 0.3:
                    cur = r.randrange(n)
                sched.append(cur)
        # some processes are killed: they simply stop being scheduled
        killed = [i for i in range(n) if r.random() < 0.25]
        cut = {i: r.randint(0, 20) for i in killed}
        out, cnt = [], {i: 0 for i in range(n)}
        for i in sched:
            if i in cut and cnt[i] >= cut[i]:
                continue
            cnt[i] += 1
            out.append(i)
        yield {"kind": "interleave", "scenarios": scs, "init": list(init), "schedule": out, "killed": killed}


def expect_steps(model_labels):
    """model labels -> the labels the tracer produces"""
    out = []
    for l in model_labels:
        t = l.split(" ")
        if t[0] == "write":
            out.append(f"write {t[1]} {'version' if t[2] == 'version' else 'doc'}")
        elif t[0] == "exists" and t[1] == "dir":
            out.append(l)
        else:
            out.append(l)
    return out


def parse_trace(line):
    labels, status, fs, loaded = line.split("|")
    fsd = dict(kv.split("=") for kv in fs.split())
    return {"labels": [l for l in labels.split(";") if l], "status": status,
            "S": model_class(fsd["S"]), "V": model_class(fsd["V"]), "dir": fsd["dir"], "loaded": loaded.split("=")[1]}


def parse_sim(line):
    ps, fs, safe = [x.strip() for x in line.split("|")]
    fsd = dict(kv.split("=") for kv in fs.split())
    return {"procs": [tuple(p.split(",")) for p in ps.split()], "S": model_class(fsd["S"]), "V": model_class(fsd["V"]),
            "safe_always": safe.endswith("=1")}


def oracle_safe(ctx, case, cls, where):
    if cls["S"] not in ("absent", "doc-wf", "doc-lacking"):
        ctx.fail(case, "settings-absent-or-complete-json",
                 f"{where}: settings.json is {cls['S']} (neither absent nor a complete JSON document)")
        return False
    return True


def oracle_start(ctx, case, child, where):
    ok = child.status == 0 and child.result and child.result["exit"] == 0 and child.result["loaded_all_keys"]
    if not ok:
        ctx.fail(case, "later-start-loads-all-default-keys",
                 f"{where}: a started evo process ended with status {child.status}, "
                 f"{(child.result or {}).get('exc')}, all default keys loaded: {(child.result or {}).get('loaded_all_keys')}")
    return ok


def evaluate(ctx, cases):
    defaults, version = default_text_and_version()
    homes = []
    try:
        for case in cases:
            judge(ctx, case, defaults, version, homes)
    finally:
        for h in homes:
            shutil.rmtree(h, ignore_errors=True)


def run_trace(case, defaults, version, homes, **kw):
    home = make_home(tuple(case["init"]), defaults, version)
    homes.append(home)
    if case.get("stale_tmp"):
        kw = dict(kw, stale_tmp=True)
    ch = Child(home, case["scenario"], **kw).run_to_end()
    return home, ch


def judge(ctx, case, defaults, version, homes):
    kind = case["kind"]
    if kind == "prefix":
        text = json.dumps(defaults, indent=4, sort_keys=True)
        bad = []
        for n in range(len(text)):
            try:
                json.loads(text[:n])
                bad.append(n)
            except ValueError:
                pass
        if bad:
            ctx.mismatch(case, "a proper prefix of the settings text is a JSON document (model: torn is never loadable)", bad[:5], [])
        ctx.count("branch", "prefix-abstraction-checked")
        ctx.record(case, True)
        return
    if kind == "trace":
        home, ch = run_trace(case, defaults, version, homes)
        m = parse_trace(core.run_driver([f"C19 trace new {case['scenario']} {' '.join(case['init'])}"])[0])
        want = expect_steps(m["labels"])
        if ch.steps != want:
            k = next((i for i, (a, b) in enumerate(zip(ch.steps, want)) if a != b), min(len(ch.steps), len(want)))
            ctx.mismatch(case, f"file-system step sequence differs from the model's program at step {k}",
                         ch.steps[max(0, k - 2):k + 3], want[max(0, k - 2):k + 3])
        cls = classify(home, defaults, version)
        impl_status = "done" if ch.status == 0 else "failed"
        if (impl_status, cls["S"], cls["V"]) != (m["status"], m["S"], m["V"]):
            ctx.mismatch(case, "final status / file classes differ", [impl_status, cls["S"], cls["V"]],
                         [m["status"], m["S"], m["V"]])
        if cls["tmp"] and ch.status == 0 and not case.get("stale_tmp"):     # (planted left-overs that this run had no reason to touch stay)
            ctx.mismatch(case, "temp files left behind by a finished process", cls["tmp"], [])
        damaged = tuple(case["init"]) in BAD_INITS
        if not damaged:
            oracle_safe(ctx, case, cls, "after the command")
            oracle_start(ctx, case, ch, "the traced process itself")
            if ch.status == 0 and cls["S"] != "doc-wf":
                ctx.fail(case, "every-default-key-present", f"after {case['scenario']} the settings file is {cls['S']}")
            if case["init"][2] == "lacking" and ch.status == 0:
                doc = json.loads((Path(home) / ".evo" / "settings.json").read_text())
                if case["scenario"] in ("start", "merge", "cli_set_merge") and doc.get("plot_linewidth") != 2.25:
                    ctx.fail(case, "upgrade-keeps-user-values", f"plot_linewidth = {doc.get('plot_linewidth')}")
        ctx.count("branch", "trace:" + ("upgrade" if "write tmpS upgraded" in m["labels"] else
                                        "first-init" if "write tmpS defaults" in m["labels"] and case["init"][2] == "absent"
                                        else "failed" if m["status"] == "failed" else "plain"))
        ctx.count("dist", "trace:" + case["scenario"])
        if case["init"][1].startswith("ver:"):
            ctx.count("dist", "stored-version:" + repr(bytes.fromhex(case["init"][1][4:]).decode()))
        ctx.record(case, any(l.startswith("write") for l in m["labels"]))
        return
    if kind == "crash-all":
        home, ch = run_trace(case, defaults, version, homes)
        n = len(ch.steps)
        points = [(k, False) for k in range(1, n + 1)] + [(k, True) for k in range(1, n + 1) if ch.steps[k - 1].startswith("write")]
        lines = []
        for k, torn in points:
            sched = []
            for j in range(1, k + 1):
                tear = torn and j == k
                sched += ["0", "1" if tear else "0"]
            sched += ["1", "0"] * 40
            lines.append(f"C19 sim new 2 {case['scenario']} start {' '.join(case['init'])} " + " ".join(sched))
            # the state right after the crash: schedule without the restart
            lines.append(f"C19 sim new 1 {case['scenario']} {' '.join(case['init'])} " + " ".join(sched[:2 * k]))
        outs = core.run_driver(lines)
        for idx, (k, torn) in enumerate(points):
            sub = {"kind": "crash", "scenario": case["scenario"], "init": case["init"], "k": k, "torn": torn}
            judge_crash(ctx, sub, defaults, version, homes, parse_sim(outs[2 * idx]), parse_sim(outs[2 * idx + 1]))
        return
    if kind == "crash":
        sched = []
        for j in range(1, case["k"] + 1):
            sched += ["0", "1" if (case["torn"] and j == case["k"]) else "0"]
        outs = core.run_driver([
            f"C19 sim new 2 {case['scenario']} start {' '.join(case['init'])} " + " ".join(sched + ["1", "0"] * 40),
            f"C19 sim new 1 {case['scenario']} {' '.join(case['init'])} " + " ".join(sched)])
        judge_crash(ctx, case, defaults, version, homes, parse_sim(outs[0]), parse_sim(outs[1]))
        return
    if kind == "interleave":
        judge_interleave(ctx, case, defaults, version, homes)
        return
    raise core.ToolError(f"unknown case kind {kind}")


def judge_crash(ctx, case, defaults, version, homes, m_after_restart, m_at_crash):
    home = make_home(tuple(case["init"]), defaults, version)
    homes.append(home)
    ch = Child(home, case["scenario"], crash_after=case["k"], torn=case["torn"]).run_to_end()
    if ch.status != 77:
        ctx.mismatch(case, "crash injection did not fire", ch.status, 77)
    cls = classify(home, defaults, version)
    if (cls["S"], cls["V"]) != (m_at_crash["S"], m_at_crash["V"]):
        ctx.mismatch(case, "file classes right after the crash differ from the model", [cls["S"], cls["V"]],
                     [m_at_crash["S"], m_at_crash["V"]])
    oracle_safe(ctx, case, cls, f"killed after step {case['k']}{' (torn write)' if case['torn'] else ''}")
    ch2 = Child(home, "start").run_to_end()
    cls2 = classify(home, defaults, version)
    impl = ["done" if ch2.status == 0 else "failed", cls2["S"], cls2["V"]]
    model = [m_after_restart["procs"][1][0], m_after_restart["S"], m_after_restart["V"]]
    if impl != model:
        ctx.mismatch(case, "fresh start after the crash: status / file classes differ from the model", impl, model)
    if oracle_start(ctx, case, ch2, f"fresh start after a kill at step {case['k']}{' (torn write)' if case['torn'] else ''}"):
        if cls2["S"] != "doc-wf":
            ctx.fail(case, "every-default-key-present", f"after the restart the settings file is {cls2['S']}")
    ctx.count("branch", "crash:" + ("torn-write" if case["torn"] else "after-step"))
    ctx.count("dist", "crash:" + case["scenario"])
    ctx.record(case, True)
    if not case["torn"]:
        # the same point as an *interruption* (exception raised inside the process after step k, evo's with/finally blocks run):
        # what is on disk afterwards is judged like the kill — the settings file absent or complete, the next start loads
        icase = dict(case, fault="interrupt")
        home_i = make_home(tuple(case["init"]), defaults, version)
        homes.append(home_i)
        chi = Child(home_i, case["scenario"], crash_after=case["k"], interrupt=True).run_to_end()
        cls_i = classify(home_i, defaults, version)
        oracle_safe(ctx, icase, cls_i, f"interrupted (exception) after step {case['k']}")
        chi2 = Child(home_i, "start").run_to_end()
        oracle_start(ctx, icase, chi2, f"fresh start after an interruption at step {case['k']}")
        ctx.count("branch", "crash:interrupted")


def judge_interleave(ctx, case, defaults, version, homes):
    home = make_home(tuple(case["init"]), defaults, version)
    homes.append(home)
    kids = [Child(home, sc, gated=True) for sc in case["scenarios"]]
    ok_safe = True
    executed = []
    try:
        for i in case["schedule"]:
            if kids[i].go():
                executed.append(i)
                if ok_safe:
                    ok_safe = oracle_safe(ctx, case, classify(home, defaults, version), f"after step {len(executed)} of the schedule")
        # model: the same schedule (events for ended processes are no-ops on both sides)
        sched = " ".join(f"{i} 0" for i in executed)
        m = parse_sim(core.run_driver([f"C19 sim new {len(kids)} {' '.join(case['scenarios'])} {' '.join(case['init'])} {sched}"])[0])
        cls_mid = classify(home, defaults, version)
        if (cls_mid["S"], cls_mid["V"]) != (m["S"], m["V"]):
            ctx.mismatch(case, "file classes after the schedule differ from the model", [cls_mid["S"], cls_mid["V"]], [m["S"], m["V"]])
        for i, kid in enumerate(kids):
            kid.advance_to_gate()
            impl = "failed" if (kid.finished and kid.status != 0) else "done" if kid.finished else "running"
            if impl != m["procs"][i][0]:
                ctx.mismatch(case, f"status of process {i} after the schedule differs from the model", impl, m["procs"][i][0])
        # the processes not killed run to their end, one after the other
        for i, kid in enumerate(kids):
            if i in case["killed"]:
                kid.kill()
                continue
            while kid.go():
                if ok_safe:
                    ok_safe = oracle_safe(ctx, case, classify(home, defaults, version), f"while process {i} finishes")
            oracle_start(ctx, case, kid, f"process {i} ({case['scenarios'][i]}) of the interleaving")
    finally:
        for kid in kids:
            kid.kill()
    last = Child(home, "start").run_to_end()
    oracle_start(ctx, case, last, "fresh start after the interleaving")
    ctx.count("branch", f"interleave:{len(kids)}-processes")
    if case["killed"]:
        ctx.count("branch", "interleave:with-killed-process")
    ctx.count("dist", "interleave-init:" + "/".join(case["init"]))
    ctx.record(case, True)


def shrink(case):
    if case["kind"] == "interleave":
        s = case["schedule"]
        for cut in (len(s) // 2, len(s) // 4, 1):
            if cut >= 1:
                for start in range(0, len(s), cut):
                    c = dict(case)
                    c["schedule"] = s[:start] + s[start + cut:]
                    yield c


def check(ctx):
    lean = core.lean_side(ctx.prop, ctx.tier, pre_build=settings_T.generate)
    core.drift(ctx, MODELLED)
    cases = list(gen_cases(ctx))
    evaluate(ctx, cases)
    core.shrink_all(ctx, shrink, evaluate, budget=40)
    return core.finish(
        ctx, lean, rule=RULE,
        extra_trusted=["OS semantics are modelled, not verified: os.replace atomic, a write may be torn at any byte (modelled "
                       "as empty -> proper prefix -> complete), no reordering after power loss (no fsync in code or model)",
                       "the bootstrap that records evo's file-system steps (wrappers around builtins.open, file write/close, "
                       "os.replace, Path.mkdir, Path.exists); a read is one atomic step (an open file keeps the replaced inode)"],
        open_clauses=["a kill *inside* os.replace is not a crash point of the model or of the fault enumeration: rename is atomic by assumption "
                      "(the state is the one before or the one after the step)",
                      "os.access / logging handlers are not traced (no file below ~/.evo is touched by them with default settings)",
                      "the file named by -m/--merge and -c/--config is user input: assumed readable JSON",
                      "homes that evo cannot have left behind (settings.json lacking keys next to no / a current assets_version) "
                      "are outside the theorems' precondition `Consistent`"],
        assumptions=["all concurrently running processes run the code of the working tree (the fixed write protocol)",
                     "initial home directory Consistent: fresh, initialised, or outdated (older version file + complete older settings)"])


def replay(ctx, data):
    core.sh("lake build drv_C19", cwd=core.LEAN)
    evaluate(ctx, [data["case"]])
    return core.finish_replay(ctx)
